//! C19: FDT expiry decided on the estimated sender clock.
//!
//! Line kinds (numbers in hex; times are signed nanoseconds since the Unix epoch, `-` prefix when negative):
//!   N t                 | ntp | ERR        tools::system_time_to_ntp
//!   M ntp               | t | ERR          tools::ntp_to_system_time
//!   S d t0 xf dly ro skew sct chk order refresh cleanup esym nobj
//!                       | <run A> # <run B>
//!        a real Sender -> Receiver session under virtual clocks.  The sender publishes at t0 (FDT duration d
//!        seconds) and all its packets are read at sender time t0+xf; the packets of the first FDT instance reach
//!        the receiver at true time t0+xf+dly, the object packets from true time t0+ro on; the receiver clock
//!        shows true time + skew.  order 0 = FDT first, 1 = objects first; refresh 1 = later FDT instances are
//!        delivered too (at the end); cleanup 1 = Receiver::cleanup(now) after every push.  Run B is the same
//!        session with skew 0.
//!   R cfg,chk,once,shift I,id,exphex,tois,nsym,kind ... F,id,idx,sctflag,sender_t,now ... O,toi,k,now ... C,now
//!                       | <run A> # <run B>
//!        a scripted stream of hand-built packets (FDT instances with hand-written XML, possibly malformed
//!        Expires / no Expires; objects of two 16-byte symbols).  Run B is the same script with every receiver
//!        time shifted by `shift`.
//! A run is a sequence of tokens: an event token followed by the writer callbacks it caused:
//!   F,id,sct|-,idx,n,now,content   content = X (XML unusable) | E<hex of the Expires string>;toi;toi...
//!   O,toi,first,now      C,now
//!   +toi,r   (new_object_writer; r=1 iff meta.cache_control != NoCache)     !toi,c   (complete)    !toi,e  (error/interrupted)
//! The event tokens are what the harness fed to the receiver, recovered from the bytes on the wire by an
//! independent header walk (SCT as the raw 64-bit NTP value), not by flute's own EXT_TIME parser.
use crate::util::*;
use flute::core::UDPEndpoint;
use flute::receiver::writer::{
    ObjectCacheControl, ObjectMetadata, ObjectWriter, ObjectWriterBuilder, ObjectWriterBuilderResult,
};
use std::cell::RefCell;
use std::collections::BTreeMap;
use std::rc::Rc;
use std::time::{Duration, SystemTime, UNIX_EPOCH};

const NS: i128 = 1_000_000_000;

fn st(ns: i128) -> SystemTime {
    if ns >= 0 {
        UNIX_EPOCH + Duration::new((ns / NS) as u64, (ns % NS) as u32)
    } else {
        let a = -ns;
        UNIX_EPOCH - Duration::new((a / NS) as u64, (a % NS) as u32)
    }
}

fn ns_of(t: SystemTime) -> i128 {
    match t.duration_since(UNIX_EPOCH) {
        Ok(d) => d.as_nanos() as i128,
        Err(e) => -(e.duration().as_nanos() as i128),
    }
}

fn shex(v: i128) -> String {
    if v < 0 {
        format!("-{:x}", -v)
    } else {
        format!("{:x}", v)
    }
}

fn parse_shex(s: &str) -> i128 {
    if let Some(r) = s.strip_prefix('-') {
        -(i128::from_str_radix(r, 16).unwrap())
    } else {
        i128::from_str_radix(s, 16).unwrap()
    }
}

fn endpoint() -> UDPEndpoint {
    UDPEndpoint::new(None, "224.0.0.1".to_string(), 1234)
}

// ---------------------------------------------------------------- monitor
struct Mon {
    log: Rc<RefCell<Vec<String>>>,
}
struct MonW {
    toi: u128,
    log: Rc<RefCell<Vec<String>>>,
}
impl ObjectWriterBuilder for Mon {
    fn new_object_writer(
        &self,
        _e: &UDPEndpoint,
        _tsi: &u64,
        toi: &u128,
        meta: &ObjectMetadata,
        _now: SystemTime,
    ) -> ObjectWriterBuilderResult {
        let r = if meta.cache_control != ObjectCacheControl::NoCache { 1 } else { 0 };
        self.log.borrow_mut().push(format!("+{:x},{}", toi, r));
        ObjectWriterBuilderResult::StoreObject(Box::new(MonW { toi: *toi, log: self.log.clone() }))
    }
    fn update_cache_control(&self, _e: &UDPEndpoint, _tsi: &u64, _toi: &u128, _m: &ObjectMetadata, _now: SystemTime) {}
    fn fdt_received(
        &self,
        _e: &UDPEndpoint,
        _tsi: &u64,
        _xml: &str,
        _exp: SystemTime,
        _m: &ObjectMetadata,
        _d: Duration,
        _now: SystemTime,
        _ext: Option<SystemTime>,
    ) {
    }
}
impl ObjectWriter for MonW {
    fn open(&self, _now: SystemTime) -> flute::error::Result<()> {
        Ok(())
    }
    fn write(&self, _sbn: u32, _data: &[u8], _now: SystemTime) -> flute::error::Result<()> {
        Ok(())
    }
    fn complete(&self, _now: SystemTime) {
        self.log.borrow_mut().push(format!("!{:x},c", self.toi));
    }
    fn error(&self, _now: SystemTime) {
        self.log.borrow_mut().push(format!("!{:x},e", self.toi));
    }
    fn interrupted(&self, _now: SystemTime) {
        self.log.borrow_mut().push(format!("!{:x},e", self.toi));
    }
    fn enable_md5_check(&self) -> bool {
        false
    }
}

// ---------------------------------------------------------------- wire sniffing (independent of flute's EXT_TIME code)
/// raw 64-bit NTP value of the sender-current-time of an ALC/LCT packet (RFC 5651 header walk)
fn sniff_sct(d: &[u8]) -> Option<u64> {
    if d.len() < 4 {
        return None;
    }
    let c = ((d[0] >> 2) & 3) as usize;
    let s = ((d[1] >> 7) & 1) as usize;
    let o = ((d[1] >> 5) & 3) as usize;
    let h = ((d[1] >> 4) & 1) as usize;
    let hdr_len = d[2] as usize * 4;
    let mut p = 4 + 4 * (c + 1) + 4 * s + 2 * h + 4 * o + 2 * h;
    if hdr_len > d.len() {
        return None;
    }
    while p + 4 <= hdr_len {
        let het = d[p];
        let hel = if het >= 128 { 4 } else { d[p + 1] as usize * 4 };
        if hel == 0 || p + hel > hdr_len {
            return None;
        }
        if het == 2 {
            let u = d[p + 2];
            let (hi, lo, ert, slc) = ((u >> 7) & 1, (u >> 6) & 1, (u >> 5) & 1, (u >> 4) & 1);
            if hel != (hi + lo + ert + slc + 1) as usize * 4 || hi == 0 {
                return None;
            }
            let secs = u32::from_be_bytes([d[p + 4], d[p + 5], d[p + 6], d[p + 7]]) as u64;
            let frac = if lo == 1 { u32::from_be_bytes([d[p + 8], d[p + 9], d[p + 10], d[p + 11]]) as u64 } else { 0 };
            return Some((secs << 32) | frac);
        }
        p += hel;
    }
    None
}

struct Sniffed {
    toi: u128,
    fdt_id: Option<u32>,
    sct: Option<u64>,
    idx: u32,
    n: u64,
    first: bool,
    payload: Vec<u8>,
}

fn sniff(d: &[u8]) -> Option<Sniffed> {
    let pkt = flute::core::alc::parse_alc_pkt(d).ok()?;
    let pid = flute::verif_hooks::alc::get_fec_inline_payload_id(&pkt).ok()?;
    let n = match (&pkt.oti, pkt.transfer_length) {
        (Some(oti), Some(l)) if oti.encoding_symbol_length > 0 => {
            let e = oti.encoding_symbol_length as u64;
            (l + e - 1) / e
        }
        _ => 0,
    };
    Some(Sniffed {
        toi: pkt.lct.toi,
        fdt_id: pkt.fdt_info.as_ref().map(|f| f.fdt_instance_id),
        sct: sniff_sct(d),
        idx: pid.esi,
        n,
        first: pid.sbn == 0 && pid.esi == 0,
        payload: d[pkt.data_payload_offset..].to_vec(),
    })
}

/// content token of an FDT instance from its XML text (plain text search, no XML parser)
fn content_of_xml(xml: &[u8]) -> String {
    let s = String::from_utf8_lossy(xml).to_string();
    let exp = match s.find(" Expires=\"") {
        Some(i) => {
            let r = &s[i + 10..];
            match r.find('"') {
                Some(j) => r[..j].to_string(),
                None => return "X".into(),
            }
        }
        None => return "X".into(),
    };
    if !s.trim_end().ends_with("</FDT-Instance>") && !s.trim_end().ends_with("/>") {
        return "X".into();
    }
    let mut out = format!("E{}", hex(exp.as_bytes()));
    let mut rest = s.as_str();
    while let Some(i) = rest.find(" TOI=\"") {
        let r = &rest[i + 6..];
        let j = r.find('"').unwrap_or(0);
        if let Ok(t) = r[..j].parse::<u128>() {
            out.push_str(&format!(";{:x}", t));
        }
        rest = &r[j..];
    }
    out
}

// ---------------------------------------------------------------- running an event stream on the implementation
enum Ev {
    Pkt(Vec<u8>, i128),
    Cleanup(i128),
}

/// XML of every FDT instance id that can be assembled from the given packets
fn assemble_fdts(all: &[&Vec<u8>]) -> BTreeMap<u32, String> {
    let mut parts: BTreeMap<u32, (u64, BTreeMap<u32, Vec<u8>>)> = BTreeMap::new();
    for d in all {
        if let Some(s) = sniff(d) {
            if s.toi == 0 {
                if let Some(id) = s.fdt_id {
                    let e = parts.entry(id).or_insert((s.n, BTreeMap::new()));
                    e.1.entry(s.idx).or_insert(s.payload);
                }
            }
        }
    }
    let mut res = BTreeMap::new();
    for (id, (n, syms)) in parts {
        if n > 0 && syms.len() as u64 == n && syms.keys().all(|k| (*k as u64) < n) {
            let mut xml = Vec::new();
            for (_, p) in syms {
                xml.extend(p);
            }
            res.insert(id, content_of_xml(&xml));
        }
    }
    res
}

fn run_events(evs: &[Ev], chk: bool, once: bool, contents: &BTreeMap<u32, String>) -> String {
    let log = Rc::new(RefCell::new(Vec::new()));
    let mon = Rc::new(Mon { log: log.clone() });
    let cfg = flute::receiver::Config {
        max_objects_error: 0,
        session_timeout: None,
        object_timeout: None,
        object_max_cache_size: None,
        object_receive_once: once,
        enable_fdt_expiration_check: chk,
    };
    let mut rx = flute::receiver::Receiver::new(&endpoint(), 1, mon, Some(cfg));
    let mut out: Vec<String> = Vec::new();
    let mut panicked = false;
    for ev in evs {
        match ev {
            Ev::Pkt(d, now) => {
                let tok = match sniff(d) {
                    Some(s) if s.toi == 0 => match s.fdt_id {
                        Some(id) => format!(
                            "F,{:x},{},{:x},{:x},{},{}",
                            id,
                            s.sct.map(|v| format!("{:x}", v)).unwrap_or("-".into()),
                            s.idx,
                            s.n,
                            shex(*now),
                            contents.get(&id).cloned().unwrap_or("X".into())
                        ),
                        None => "U".to_string(),
                    },
                    Some(s) => format!("O,{:x},{},{}", s.toi, s.first as u8, shex(*now)),
                    None => "U".to_string(),
                };
                out.push(tok);
                if catch(|| {
                    let _ = rx.push_data(d, st(*now));
                })
                .is_none()
                {
                    panicked = true;
                }
            }
            Ev::Cleanup(now) => {
                out.push(format!("C,{}", shex(*now)));
                if catch(|| rx.cleanup(st(*now))).is_none() {
                    panicked = true;
                }
            }
        }
        out.append(&mut log.borrow_mut());
        if panicked {
            // the receiver panicked during this event: the run ends here
            out.push("PANIC".to_string());
            std::mem::forget(rx);
            return out.join(" ");
        }
    }
    drop(rx);
    // callbacks caused by dropping the receiver are not part of any event
    log.borrow_mut().clear();
    out.join(" ")
}

// ---------------------------------------------------------------- S: real sender -> receiver sessions
struct SParams {
    d: u64,
    t0: i128,
    xf: i128,
    dly: i128,
    ro: i128,
    skew: i128,
    sct: bool,
    chk: bool,
    order: u8,
    refresh: bool,
    cleanup: bool,
    esym: u16,
    nobj: u32,
}

fn session_packets(p: &SParams) -> Vec<Vec<u8>> {
    use flute::core::Oti;
    use flute::sender::{Config, ObjectDesc, Sender};
    let mut oti = Oti::new_no_code(p.esym, 64);
    oti.inband_fti = false;
    let cfg = Config {
        fdt_duration: Duration::from_secs(p.d),
        fdt_inband_sct: p.sct,
        ..Default::default()
    };
    let mut sender = Sender::new(endpoint(), 1, &oti, &cfg);
    for i in 0..p.nobj {
        let content: Vec<u8> = (0..(p.esym as usize * 2 + 5)).map(|k| (k * 7 + i as usize) as u8).collect();
        let obj = ObjectDesc::create_from_buffer(
            content,
            "application/octet-stream",
            &url::Url::parse(&format!("file:///o{}", i)).unwrap(),
            false,
            Default::default(),
        )
        .unwrap();
        sender.add_object(0, obj).unwrap();
    }
    sender.publish(st(p.t0)).unwrap();
    let ts = st(p.t0 + p.xf);
    let mut pkts = Vec::new();
    while let Some(d) = sender.read(ts) {
        pkts.push(d);
        if pkts.len() > 2000 {
            panic!("sender does not quiesce");
        }
    }
    pkts
}

fn session_run(p: &SParams, pkts: &[Vec<u8>], skew: i128) -> String {
    let mut first_id: Option<u32> = None;
    let mut fdt1 = Vec::new();
    let mut fdt_later = Vec::new();
    let mut objs = Vec::new();
    for d in pkts {
        match sniff(d) {
            Some(s) if s.toi == 0 => {
                let id = s.fdt_id.unwrap_or(0);
                if first_id.is_none() {
                    first_id = Some(id);
                }
                if Some(id) == first_id {
                    fdt1.push(d.clone());
                } else {
                    fdt_later.push(d.clone());
                }
            }
            _ => objs.push(d.clone()),
        }
    }
    let all: Vec<&Vec<u8>> = pkts.iter().collect();
    let contents = assemble_fdts(&all);
    let rf = p.t0 + p.xf + p.dly + skew;
    let ro = p.t0 + p.ro + skew;
    let mut evs = Vec::new();
    let push = |evs: &mut Vec<Ev>, d: Vec<u8>, now: i128| {
        evs.push(Ev::Pkt(d, now));
        if p.cleanup {
            evs.push(Ev::Cleanup(now));
        }
    };
    let mut last = rf.max(ro);
    if p.order == 0 {
        for (i, d) in fdt1.into_iter().enumerate() {
            push(&mut evs, d, rf + i as i128 * 1000);
        }
        for (i, d) in objs.into_iter().enumerate() {
            let t = ro + i as i128 * 1_000_000;
            last = last.max(t);
            push(&mut evs, d, t);
        }
    } else {
        for (i, d) in objs.into_iter().enumerate() {
            let t = ro + i as i128 * 1_000_000;
            last = last.max(t);
            push(&mut evs, d, t);
        }
        for (i, d) in fdt1.into_iter().enumerate() {
            push(&mut evs, d, rf + i as i128 * 1000);
        }
    }
    if p.refresh {
        for (i, d) in fdt_later.into_iter().enumerate() {
            push(&mut evs, d, last + NS + i as i128 * 1000);
        }
    }
    run_events(&evs, p.chk, true, &contents)
}

fn eval_s(t: &[&str]) -> String {
    let u = |i: usize| u64::from_str_radix(t[i], 16).unwrap();
    let z = |i: usize| parse_shex(t[i]);
    let p = SParams {
        d: u(1),
        t0: z(2),
        xf: z(3),
        dly: z(4),
        ro: z(5),
        skew: z(6),
        sct: u(7) != 0,
        chk: u(8) != 0,
        order: u(9) as u8,
        refresh: u(10) != 0,
        cleanup: u(11) != 0,
        esym: u(12) as u16,
        nobj: u(13) as u32,
    };
    let pkts = session_packets(&p);
    let a = session_run(&p, &pkts, p.skew);
    let b = session_run(&p, &pkts, 0);
    format!("{} # {}", a, b)
}

// ---------------------------------------------------------------- R: scripted streams of hand-built packets
struct Inst {
    xml: Vec<u8>,
    nsym: u64,
    esym: u16,
    content: String,
}

fn build_xml(exp: &[u8], tois: &[u128], kind: u8) -> Vec<u8> {
    let mut s = String::from("<?xml version=\"1.0\" encoding=\"UTF-8\"?>\n<FDT-Instance xmlns=\"urn:IETF:metadata:2005:FLUTE:FDT\"");
    if kind != 1 {
        s.push_str(&format!(" Expires=\"{}\"", String::from_utf8_lossy(exp)));
    }
    s.push_str(" FEC-OTI-FEC-Encoding-ID=\"0\" FEC-OTI-FEC-Instance-ID=\"0\" FEC-OTI-Maximum-Source-Block-Length=\"64\" FEC-OTI-Encoding-Symbol-Length=\"16\">");
    for t in tois {
        s.push_str(&format!(
            "\n  <File Content-Location=\"file:///o{}\" TOI=\"{}\" Content-Length=\"32\" Transfer-Length=\"32\" Content-Type=\"application/octet-stream\"/>",
            t, t
        ));
    }
    s.push_str("\n</FDT-Instance>");
    s.into_bytes()
}

fn fdt_packet(inst: &Inst, id: u32, idx: u64, sct: bool, sender_t: i128) -> Vec<u8> {
    use flute::verif_hooks::{alc, pkt::Pkt};
    let mut oti = flute::core::Oti::new_no_code(inst.esym, 64);
    oti.inband_fti = true;
    let e = inst.esym as usize;
    let lo = (idx as usize * e).min(inst.xml.len());
    let hi = ((idx as usize + 1) * e).min(inst.xml.len());
    let pkt = Pkt {
        payload: inst.xml[lo..hi].to_vec(),
        transfer_length: inst.xml.len() as u64,
        esi: idx as u32,
        sbn: 0,
        toi: 0,
        fdt_id: Some(id),
        cenc: flute::core::lct::Cenc::Null,
        inband_cenc: false,
        close_object: false,
        source_block_length: inst.nsym as u32,
        sender_current_time: sct,
    };
    alc::new_alc_pkt(&oti, &0u128, 1, &pkt, flute::sender::Profile::RFC6726, st(sender_t))
}

fn obj_packet(toi: u128, k: u32) -> Vec<u8> {
    use flute::verif_hooks::{alc, pkt::Pkt};
    let mut oti = flute::core::Oti::new_no_code(16, 64);
    oti.inband_fti = false;
    let payload: Vec<u8> = (0..16).map(|i| (i as u32 * 3 + k * 16 + toi as u32) as u8).collect();
    let pkt = Pkt {
        payload,
        transfer_length: 32,
        esi: k,
        sbn: 0,
        toi,
        fdt_id: None,
        cenc: flute::core::lct::Cenc::Null,
        inband_cenc: false,
        close_object: false,
        source_block_length: 2,
        sender_current_time: false,
    };
    alc::new_alc_pkt(&oti, &0u128, 1, &pkt, flute::sender::Profile::RFC6726, UNIX_EPOCH)
}

fn eval_r(t: &[&str]) -> String {
    let mut chk = true;
    let mut once = true;
    let mut shift: i128 = 0;
    let mut insts: BTreeMap<u32, Inst> = BTreeMap::new();
    let mut evs_a = Vec::new();
    let mut evs_b = Vec::new();
    for tok in &t[1..] {
        let f: Vec<&str> = tok.split(',').collect();
        match f[0] {
            "cfg" => {
                chk = f[1] != "0";
                once = f[2] != "0";
                shift = parse_shex(f[3]);
            }
            "I" => {
                let id = u32::from_str_radix(f[1], 16).unwrap();
                let exp = unhex(f[2]);
                let tois: Vec<u128> = f[3].split(';').filter(|x| !x.is_empty() && *x != "-").map(|x| u128::from_str_radix(x, 16).unwrap()).collect();
                let nsym = u64::from_str_radix(f[4], 16).unwrap().max(1);
                let kind = f[5].parse::<u8>().unwrap_or(0);
                let xml = build_xml(&exp, &tois, kind);
                let esym = ((xml.len() as u64 + nsym - 1) / nsym) as u16;
                let nsym = (xml.len() as u64 + esym as u64 - 1) / esym as u64;
                let content = if kind == 1 {
                    "X".to_string()
                } else {
                    let mut c = format!("E{}", hex(&exp));
                    for x in &tois {
                        c.push_str(&format!(";{:x}", x));
                    }
                    c
                };
                insts.insert(id, Inst { xml, nsym, esym, content });
            }
            "F" => {
                let id = u32::from_str_radix(f[1], 16).unwrap();
                let idx = u64::from_str_radix(f[2], 16).unwrap();
                let sct = f[3] != "0";
                let sender_t = parse_shex(f[4]);
                let now = parse_shex(f[5]);
                if let Some(inst) = insts.get(&id) {
                    let d = fdt_packet(inst, id, idx % inst.nsym, sct, sender_t);
                    evs_a.push(Ev::Pkt(d.clone(), now));
                    evs_b.push(Ev::Pkt(d, now + shift));
                }
            }
            "O" => {
                let toi = u128::from_str_radix(f[1], 16).unwrap();
                let k = u32::from_str_radix(f[2], 16).unwrap() % 2;
                let now = parse_shex(f[3]);
                let d = obj_packet(toi, k);
                evs_a.push(Ev::Pkt(d.clone(), now));
                evs_b.push(Ev::Pkt(d, now + shift));
            }
            "C" => {
                let now = parse_shex(f[1]);
                evs_a.push(Ev::Cleanup(now));
                evs_b.push(Ev::Cleanup(now + shift));
            }
            _ => {}
        }
    }
    let contents: BTreeMap<u32, String> = insts.iter().map(|(k, v)| (*k, v.content.clone())).collect();
    let a = catch(|| run_events(&evs_a, chk, once, &contents)).unwrap_or("PANIC".into());
    let b = catch(|| run_events(&evs_b, chk, once, &contents)).unwrap_or("PANIC".into());
    format!("{} # {}", a, b)
}

// ---------------------------------------------------------------- eval
pub fn eval(input: &str) -> String {
    let t: Vec<&str> = input.split_whitespace().collect();
    let r = match t[0] {
        "N" => {
            let v = parse_shex(t[1]);
            catch(|| match flute::verif_hooks::tools::system_time_to_ntp(st(v)) {
                Ok(n) => format!("{:x}", n),
                Err(_) => "ERR".into(),
            })
        }
        "M" => {
            let v = u64::from_str_radix(t[1], 16).unwrap();
            catch(|| match flute::verif_hooks::tools::ntp_to_system_time(v) {
                Ok(s) => shex(ns_of(s)),
                Err(_) => "ERR".into(),
            })
        }
        "S" => catch(|| eval_s(&t)),
        "R" => catch(|| eval_r(&t)),
        _ => Some("BAD".into()),
    };
    r.unwrap_or("PANIC".into())
}

// ---------------------------------------------------------------- generators
const YEAR: i128 = 31_557_600 * NS;

fn skews(thorough: bool) -> Vec<i128> {
    let mut v = vec![0, NS, -NS, 3600 * NS, -3600 * NS, YEAR, -YEAR, 30 * YEAR, -30 * YEAR];
    if thorough {
        v.extend([7 * NS, -90 * NS, 86_400 * NS, -86_400 * NS, 10 * YEAR, -10 * YEAR, 30 * YEAR + 123_456_789, -(30 * YEAR + 987_654_321)]);
    }
    v
}

/// sender epoch: 2026-09-25 plus a sub-second part
const T0_BASE: i128 = 1_790_000_000 * NS;

fn s_line(d: u64, t0: i128, xf: i128, dly: i128, ro: i128, skew: i128, sct: bool, chk: bool, order: u8, refresh: bool, cleanup: bool, esym: u16, nobj: u32) -> String {
    format!(
        "S {:x} {} {} {} {} {} {} {} {} {} {} {:x} {:x}",
        d,
        shex(t0),
        shex(xf),
        shex(dly),
        shex(ro),
        shex(skew),
        sct as u8,
        chk as u8,
        order,
        refresh as u8,
        cleanup as u8,
        esym,
        nobj
    )
}

fn gen(args: &Args, emit: &mut dyn FnMut(String)) {
    let thorough = args.tier == "thorough";
    let mut rng = Rng::new(args.seed ^ 0xC19);
    let mut count: u64 = 0;
    let mut emit_sh = |s: String, emit: &mut dyn FnMut(String)| {
        // shard on case index
        if count % args.shard.1 == args.shard.0 {
            emit(s);
        }
        count += 1;
    };

    // ---- NTP conversions: boundaries and random values
    let nvals: Vec<i128> = vec![
        0, 1, 999, 1000, 1001, 999_999_999, NS, NS + 1, T0_BASE, T0_BASE + 999_999_999, T0_BASE + 500_000_000,
        -1, -NS, 2_085_978_495 * NS, 2_085_978_496 * NS, 2_085_978_496 * NS + 999_999_999, 2_085_978_497 * NS, 4_102_444_800 * NS,
    ];
    for v in &nvals {
        emit_sh(format!("N {}", shex(*v)), emit);
    }
    let mvals: Vec<u64> = vec![
        0, 1, 0xFFFF_FFFF, 2_208_988_799u64 << 32, (2_208_988_799u64 << 32) | 0xFFFF_FFFF, 2_208_988_800u64 << 32,
        (2_208_988_800u64 << 32) | 1, (2_208_988_800u64 << 32) | 4294, (2_208_988_800u64 << 32) | 4295, (2_208_988_800u64 << 32) | 0xFFFF_FFFF,
        u64::MAX, u64::MAX - 1, 0xFFFF_FFFF_0000_0000,
    ];
    for v in &mvals {
        emit_sh(format!("M {:x}", v), emit);
    }
    let nrand = if thorough { 40_000 } else { 3_000 };
    for _ in 0..nrand {
        let v: i128 = match rng.below(4) {
            0 => rng.below(1 << 33) as i128 * NS + rng.below(NS as u64) as i128,
            1 => T0_BASE + rng.below(100_000_000) as i128 * NS + rng.below(NS as u64) as i128,
            2 => rng.below(1 << 40) as i128 * 1000 + rng.below(3) as i128,
            _ => rng.below(1 << 62) as i128,
        };
        emit_sh(format!("N {}", shex(v)), emit);
        let m: u64 = match rng.below(3) {
            0 => rng.next(),
            1 => ((2_208_988_800u64 + rng.below(2_000_000_000)) << 32) | rng.below(1 << 32),
            _ => (rng.below(1 << 32) << 32) | (rng.below(1_000_000) * 4295),
        };
        emit_sh(format!("M {:x}", m), emit);
    }

    // ---- S: grid of real sessions
    // 500_000_000 s (almost 16 years): Expires no longer fits the 32-bit NTP seconds of era 0
    let durations: Vec<u64> = if thorough { vec![5, 9, 10, 11, 30, 31, 60, 600, 3600, 86_400, 500_000_000] } else { vec![5, 11, 60, 3600, 86_400, 500_000_000] };
    // margins (estimate minus expiry), stepped around the expiry instant; the +-2 s band is excluded
    let margins: Vec<i128> = if thorough {
        vec![-3600 * NS, -60 * NS, -10 * NS, -4 * NS, -3 * NS, -2 * NS - 500_000_000, -2 * NS - 1_000_000, 2 * NS + 1_000_000, 2 * NS + 500_000_000, 3 * NS, 4 * NS, 10 * NS, 60 * NS, 3600 * NS]
    } else {
        vec![-60 * NS, -3 * NS, -2 * NS - 1_000_000, 2 * NS + 1_000_000, 3 * NS, 60 * NS]
    };
    let fracs: Vec<i128> = if thorough { vec![0, 1, 123_456_789, 500_000_000, 999_999_999] } else { vec![0, 123_456_789, 999_999_999] };
    let sk = skews(thorough);
    for &d in &durations {
        for &m in &margins {
            for order in 0..2u8 {
                for sct in [true, false] {
                    for chk in [true, false] {
                        for (si, &skew) in sk.iter().enumerate() {
                            // thin the grid deterministically in the quick tier
                            if !thorough && (si + order as usize + d as usize) % 3 != 0 && skew != 0 {
                                continue;
                            }
                            let frac = *rng.pick(&fracs);
                            let t0 = T0_BASE + rng.below(1_000_000) as i128 * NS + frac;
                            let exp_ns = (t0 / NS + d as i128) * NS;
                            // the estimate at the attach instant:
                            //   SCT, objects first: t0+xf          -> xf = exp - t0 + m
                            //   SCT, FDT first:     t0+xf + (ro - xf - dly) = t0 + ro - dly
                            //   no SCT:             true time + skew at the attach instant
                            let dly = *rng.pick(&[0i128, 1_000_000, 40_000_000, 700_000_000, 5 * NS]);
                            let (xf, ro);
                            if order == 1 {
                                // objects first (they wait), the FDT arrives at t0+xf+dly
                                if sct {
                                    xf = exp_ns - t0 + m;
                                } else {
                                    xf = exp_ns - t0 + m - dly - skew;
                                }
                                ro = xf + dly - 2 * NS - rng.below(3) as i128 * NS;
                            } else {
                                // FDT first (sent early), objects arrive late
                                xf = rng.below(2) as i128 * 300_000_000;
                                if sct {
                                    ro = exp_ns - t0 + m + dly;
                                } else {
                                    ro = exp_ns - t0 + m - skew;
                                }
                            }
                            if xf < 0 || ro < xf.min(0) - 10 * NS && order == 0 {
                                // the FDT cannot be sent before it is published; without SCT a large skew makes
                                // "just around the expiry" unreachable: fall back to a plain session
                                let xf2 = 0;
                                let ro2 = dly + NS;
                                emit_sh(s_line(d, t0, xf2, dly, ro2, skew, sct, chk, order, false, rng.chance(1, 2), 1424, 1), emit);
                                continue;
                            }
                            if order == 0 && ro < xf + dly {
                                let ro2 = xf + dly + 1000;
                                emit_sh(s_line(d, t0, xf, dly, ro2, skew, sct, chk, order, false, rng.chance(1, 2), 1424, 1), emit);
                                continue;
                            }
                            let refresh = rng.chance(1, 4);
                            let cleanup = rng.chance(1, 2);
                            let esym = if rng.chance(1, 5) { 256 } else { 1424 };
                            let nobj = if rng.chance(1, 4) { 2 } else { 1 };
                            emit_sh(s_line(d, t0, xf, dly, ro, skew, sct, chk, order, refresh, cleanup, esym, nobj), emit);
                        }
                    }
                }
            }
        }
    }

    // ---- R: receiver clocks at the edge of what chrono (the log line of an already expired FDT) can represent
    {
        let ntp0 = (T0_BASE / NS) as u64 + 2_208_988_800;
        let exp = format!("{}", ntp0 + 60);
        let limits: [i128; 6] = [
            8_210_266_876_799 * NS + 999_999_999,
            8_210_266_876_800 * NS,
            8_210_266_876_799 * NS - 5 * NS,
            -8_334_601_228_800 * NS,
            -8_334_601_228_800 * NS - 1,
            -8_334_601_228_800 * NS + 7 * NS,
        ];
        for &now in &limits {
            for sct in 0..2 {
                for estr in [exp.clone(), "zz".to_string()] {
                    emit_sh(
                        format!(
                            "R cfg,1,1,{} I,1,{},1,1,0 O,1,0,{} F,1,0,{},{},{} O,1,1,{}",
                            shex(-3 * NS),
                            hex(estr.as_bytes()),
                            shex(now - NS),
                            sct,
                            shex(T0_BASE),
                            shex(now),
                            shex(now)
                        ),
                        emit,
                    );
                }
            }
        }
    }

    // ---- R: scripted streams
    let nr = if thorough { 40_000 } else { 8_000 };
    for _ in 0..nr {
        emit_sh(gen_r(&mut rng, thorough), emit);
    }
}

fn gen_r(rng: &mut Rng, thorough: bool) -> String {
    let chk = rng.chance(4, 5);
    let once = rng.chance(3, 4);
    let sk = skews(true);
    let skew = *rng.pick(&sk);
    let uniform = rng.chance(5, 6);
    // run B: with SCT everywhere the outcome must not depend on the receiver clock
    let shift = *rng.pick(&[NS, -NS, 3600 * NS, -5 * YEAR, 30 * YEAR, -30 * YEAR, 40 * YEAR, 17 * NS + 5]);
    let s0 = T0_BASE + rng.below(1_000_000) as i128 * NS + rng.below(NS as u64) as i128;
    let ntp0 = (s0 / NS) as u64 + 2_208_988_800;
    let ninst = rng.range(1, if thorough { 13 } else { 5 }) as usize;
    let ntoi = rng.range(1, 3) as u128;
    let mut toks = vec![format!("cfg,{},{},{}", chk as u8, once as u8, shex(shift))];
    struct I {
        id: u32,
        nsym: u64,
        sct: bool,
        exp_rel: i128,
    }
    let mut insts: Vec<I> = Vec::new();
    let all_sct = rng.chance(1, 2);
    for k in 0..ninst {
        let id = if rng.chance(1, 8) && !insts.is_empty() { insts[rng.below(insts.len() as u64) as usize].id } else { 1 + k as u32 + rng.below(2) as u32 * 20 };
        if insts.iter().any(|i| i.id == id) {
            continue;
        }
        let d = *rng.pick(&[5i128, 10, 30, 60, 3600]);
        let exp_rel = d;
        let kind = if rng.chance(1, 25) { 1 } else { 0 };
        let exp_str: String = match rng.below(40) {
            0 => "".into(),
            1 => "abc".into(),
            2 => format!("+{}", ntp0 as i128 + d),
            3 => format!("-{}", ntp0 as i128 + d),
            4 => "4294967296".into(),
            5 => "4294967295".into(),
            6 => "2208988799".into(),
            7 => "2208988800".into(),
            8 => format!(" {}", ntp0 as i128 + d),
            9 => format!("{}.5", ntp0 as i128 + d),
            10 => "0".into(),
            11 => format!("000{}", ntp0 as i128 + d),
            _ => format!("{}", ntp0 as i128 + d),
        };
        let mut tois: Vec<String> = Vec::new();
        for t in 1..=ntoi {
            if rng.chance(2, 3) {
                tois.push(format!("{:x}", t));
            }
        }
        let nsym = if rng.chance(1, 4) { rng.range(2, 4) } else { 1 };
        let sct = if uniform { all_sct || rng.chance(1, 2) } else { rng.chance(1, 2) };
        toks.push(format!("I,{:x},{},{},{:x},{}", id, hex(exp_str.as_bytes()), if tois.is_empty() { "-".to_string() } else { tois.join(";") }, nsym, kind));
        insts.push(I { id, nsym, sct: if all_sct { true } else { sct }, exp_rel });
    }
    // events
    let nev = rng.range(2, if thorough { 40 } else { 16 });
    let mut t_true = s0 - 2 * NS;
    for _ in 0..nev {
        // advance true time; sometimes jump close to / beyond an expiry
        t_true += match rng.below(6) {
            0 => 0,
            1 => rng.below(1_000_000) as i128,
            2 => rng.below(3 * NS as u64) as i128,
            3 => 7 * NS,
            4 => {
                let i = rng.pick(&insts);
                let target = (s0 / NS + i.exp_rel) * NS + (rng.below(8) as i128 - 4) * NS + rng.below(NS as u64) as i128;
                if target > t_true { target - t_true } else { NS }
            }
            _ => rng.below(100 * NS as u64) as i128,
        };
        let now = t_true + skew + if rng.chance(1, 30) { -3 * NS } else { 0 };
        match rng.below(10) {
            0..=3 => {
                let i = rng.pick(&insts);
                let idx = rng.below(i.nsym);
                let sct = if uniform { i.sct } else { rng.chance(1, 2) };
                // sender time: a little before the true time (transit delay)
                let dly = *rng.pick(&[0i128, 1_000_000, 300_000_000, 2 * NS]);
                toks.push(format!("F,{:x},{:x},{},{},{}", i.id, idx, sct as u8, shex(t_true - dly), shex(now)));
                if i.nsym > 1 && rng.chance(2, 3) {
                    // usually deliver the remaining symbols right away
                    for j in 0..i.nsym {
                        if j != idx {
                            t_true += 1000;
                            toks.push(format!("F,{:x},{:x},{},{},{}", i.id, j, sct as u8, shex(t_true - dly), shex(t_true + skew)));
                        }
                    }
                }
            }
            4..=8 => {
                let extra = if rng.chance(1, 10) { 1 } else { 0 };
                let toi = rng.range(1, ntoi as u64 + extra);
                let k = rng.below(2);
                toks.push(format!("O,{:x},{:x},{}", toi, k, shex(now)));
                if rng.chance(1, 2) {
                    t_true += 1000;
                    toks.push(format!("O,{:x},{:x},{}", toi, 1 - k, shex(t_true + skew)));
                }
            }
            _ => toks.push(format!("C,{}", shex(now))),
        }
    }
    format!("R {}", toks.join(" "))
}

pub fn run(args: &Args) {
    let mut tr = Trace::new(args.out.as_deref());
    if let Some(rp) = &args.replay {
        for line in std::fs::read_to_string(rp).unwrap().lines() {
            let input = line.split('|').next().unwrap().trim();
            if input.is_empty() || input.starts_with('#') {
                continue;
            }
            tr.line(&format!("{} | {}", input, eval(input)));
        }
    } else {
        gen(args, &mut |input: String| {
            let out = eval(&input);
            tr.line(&format!("{} | {}", input, out));
        });
    }
    tr.finish();
}
