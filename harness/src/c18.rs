//! C18: multi-session demultiplexing, TSI filtering, session listener events.
//! All numbers hex unless said otherwise.  Endpoint token `s.d.p` (s = `-` or source id,
//! d = group id, p = port); id n <-> "10.0.0.n" / "224.0.0.n".  Key token `s.d.p!tsi`.
//!
//! Lines:
//!   G i1 i2 ...            | mask     exhaustive filter grid through MultiReceiver::push (filtering on).
//!                                     Fixed universe: endpoints E0=-.1.bb8 E1=7.1.bb8 E2=-.2.bb8 E3=7.2.bb8,
//!                                     TSIs 1,2.  op index i: 0..7 add_listen_tsi(E[i/2], 1+i%2), 8..15
//!                                     remove_listen_tsi, 16..19 add_listen_all_tsi(E[i-16]), 20..23
//!                                     remove_listen_all_tsi.  mask bit (2*e+t) = probe (E[e], 1+t) processed.
//!   M en tmo op...         | tok...   any operation sequence with synthetic probe packets; one output token
//!                                     per op plus one for the drop: `res@t0-t1/ev,ev..` (res ok|err|-,
//!                                     t = microseconds since start, decimal).
//!                                     ops: L+  L-<id>  F0 F1  a!ep!tsi r!ep!tsi A!ep R!ep
//!                                          pE!ep!tsi (TOI 0, no EXT_FDT: Err when processed)  pK!ep!tsi
//!                                          (same with close-object flag: Ok)  pC!ep!tsi (close-session)
//!                                          pD!ep!tsi (close-session flag on a damaged FDT packet: Err, session ends)
//!                                          pO!ep!tsi (a packet of an object without OTI: cached, the object stalls: Ok)
//!                                          pX!ep (garbage)  C (cleanup)  Z<ms> (sleep, decimal)  Y (spin until
//!                                          session time-out after the middle of the pushes so far)
//!                                     events: id<l> (add_listener result)  o<l>!key  c<l>!key
//!   X n tmo                | tok...   sugar for M 0 tmo L+ pE!-.1.bb8!1 .. pE!-.1.bb8!n Y C   (D24 stress)
//!   I en tmo nl ns sess.. sched..  | inter-tok... || alone0-tok... || alone1-tok...
//!                                     real sender sessions `ep!tsi!seed!nobj!maxlen`; sched tokens: <i> (decimal:
//!                                     next packet of session i, wrapping) c<i> (its close-session packet) C Z<ms>
//!                                     F0 F1 a!.. r!.. A!.. R!..; nl listeners are registered first.
//!                                     tokens `res/ev,ev..`; extra events: w<kind>!key!toi[!len!hash] with kind
//!                                     N new_object_writer U update_cache_control F fdt_received O open
//!                                     D complete E error I interrupted.  aloneK = the same run keeping only
//!                                     session K's packets (and every non-packet op).
//!   a line whose timing was ambiguous three times in a row has the single output token TIMING.
use crate::util::*;
use flute::core::UDPEndpoint;
use flute::receiver::writer::{
    ObjectMetadata, ObjectWriter, ObjectWriterBuilder, ObjectWriterBuilderResult,
};
use flute::receiver::{Config, MultiReceiver, MultiReceiverListener, ReceiverEndpoint};
use std::cell::{Cell, RefCell};
use std::collections::HashMap;
use std::rc::Rc;
use std::time::{Duration, Instant, SystemTime};

type Log = Rc<RefCell<Vec<String>>>;

#[derive(Clone, PartialEq, Eq, Hash, Debug)]
struct EpT {
    src: Option<u64>,
    dst: u64,
    port: u64,
}

fn hx(s: &str) -> u64 {
    u64::from_str_radix(s, 16).unwrap_or_else(|_| panic!("bad hex {}", s))
}

impl EpT {
    fn parse(s: &str) -> EpT {
        let p: Vec<&str> = s.split('.').collect();
        EpT {
            src: if p[0] == "-" { None } else { Some(hx(p[0])) },
            dst: hx(p[1]),
            port: hx(p[2]),
        }
    }
    fn tok(&self) -> String {
        match self.src {
            Some(s) => format!("{:x}.{:x}.{:x}", s, self.dst, self.port),
            None => format!("-.{:x}.{:x}", self.dst, self.port),
        }
    }
    fn udp(&self) -> UDPEndpoint {
        UDPEndpoint::new(
            self.src.map(|s| format!("10.0.0.{}", s)),
            format!("224.0.0.{}", self.dst),
            self.port as u16,
        )
    }
    fn of_udp(u: &UDPEndpoint) -> EpT {
        let last = |s: &str| s.rsplit('.').next().unwrap().parse::<u64>().unwrap();
        EpT {
            src: u.source_address.as_ref().map(|s| last(s)),
            dst: last(&u.destination_group_address),
            port: u.port as u64,
        }
    }
}

fn key_tok(ep: &UDPEndpoint, tsi: u64) -> String {
    format!("{}!{:x}", EpT::of_udp(ep).tok(), tsi)
}

struct Lst {
    id: Rc<Cell<u64>>,
    log: Log,
}
impl MultiReceiverListener for Lst {
    fn on_session_open(&self, e: &ReceiverEndpoint) {
        self.log.borrow_mut().push(format!("o{:x}!{}", self.id.get(), key_tok(&e.endpoint, e.tsi)));
    }
    fn on_session_closed(&self, e: &ReceiverEndpoint) {
        self.log.borrow_mut().push(format!("c{:x}!{}", self.id.get(), key_tok(&e.endpoint, e.tsi)));
    }
}

fn fnv(h: &mut u64, data: &[u8]) {
    for b in data {
        *h ^= *b as u64;
        *h = h.wrapping_mul(0x100000001b3);
    }
}

struct WBuilder {
    log: Log,
}
struct W {
    log: Log,
    tag: String,
    len: Cell<u64>,
    hash: Cell<u64>,
}
impl W {
    fn ev(&self, kind: &str, with_data: bool) {
        let s = if with_data {
            format!("w{}!{}!{:x}!{:x}", kind, self.tag, self.len.get(), self.hash.get())
        } else {
            format!("w{}!{}", kind, self.tag)
        };
        self.log.borrow_mut().push(s);
    }
}
impl ObjectWriter for W {
    fn open(&self, _now: SystemTime) -> flute::error::Result<()> {
        self.ev("O", false);
        Ok(())
    }
    fn write(&self, _sbn: u32, data: &[u8], _now: SystemTime) -> flute::error::Result<()> {
        // chunking of writes is not part of the property: accumulate
        let mut h = self.hash.get();
        fnv(&mut h, data);
        self.hash.set(h);
        self.len.set(self.len.get() + data.len() as u64);
        Ok(())
    }
    fn complete(&self, _now: SystemTime) {
        self.ev("D", true);
    }
    fn error(&self, _now: SystemTime) {
        self.ev("E", true);
    }
    fn interrupted(&self, _now: SystemTime) {
        self.ev("I", true);
    }
    fn enable_md5_check(&self) -> bool {
        true
    }
}
impl ObjectWriterBuilder for WBuilder {
    fn new_object_writer(
        &self,
        endpoint: &UDPEndpoint,
        tsi: &u64,
        toi: &u128,
        _meta: &ObjectMetadata,
        _now: SystemTime,
    ) -> ObjectWriterBuilderResult {
        let tag = format!("{}!{:x}", key_tok(endpoint, *tsi), toi);
        self.log.borrow_mut().push(format!("wN!{}", tag));
        ObjectWriterBuilderResult::StoreObject(Box::new(W {
            log: self.log.clone(),
            tag,
            len: Cell::new(0),
            hash: Cell::new(0xcbf29ce484222325),
        }))
    }
    fn update_cache_control(
        &self,
        endpoint: &UDPEndpoint,
        tsi: &u64,
        toi: &u128,
        _meta: &ObjectMetadata,
        _now: SystemTime,
    ) {
        self.log.borrow_mut().push(format!("wU!{}!{:x}", key_tok(endpoint, *tsi), toi));
    }
    fn fdt_received(
        &self,
        endpoint: &UDPEndpoint,
        tsi: &u64,
        fdt_xml: &str,
        _expires: SystemTime,
        _meta: &ObjectMetadata,
        _transfer_duration: Duration,
        _now: SystemTime,
        _ext_time: Option<SystemTime>,
    ) {
        let mut h = 0xcbf29ce484222325u64;
        fnv(&mut h, fdt_xml.as_bytes());
        self.log.borrow_mut().push(format!("wF!{}!0!{:x}", key_tok(endpoint, *tsi), h));
    }
}

fn sys_now() -> SystemTime {
    SystemTime::UNIX_EPOCH + Duration::from_secs(1_700_000_000)
}

/// synthetic packets: TOI 0 without EXT_FDT. kind 'E' plain (Receiver::push -> Err), 'K' close-object
/// flag (-> Ok), 'C' close-session flag.
fn probe_pkt(kind: char, tsi: u64) -> Vec<u8> {
    if kind == 'D' {
        // close-session flag on a packet whose processing fails: a real one-packet FDT instance whose
        // XML is damaged (Receiver::push -> Err "Fail to decode FDT"); the session must end all the same
        let ep = UDPEndpoint::new(None, "224.0.0.1".to_string(), 3000);
        let oti = flute::core::Oti::new_no_code(1400, 64);
        let mut sender = flute::sender::Sender::new(ep, tsi, &oti, &Default::default());
        sender.publish(sys_now()).expect("publish");
        let mut pkt = sender.read(sys_now()).expect("FDT packet");
        let n = pkt.len();
        for b in pkt[n - 30..].iter_mut() {
            *b = b'<';
        }
        pkt[1] |= 0x02;
        let p = flute::core::alc::parse_alc_pkt(&pkt).expect("probe parses");
        assert!(p.lct.tsi == tsi && p.lct.close_session && p.lct.toi == 0);
        return pkt;
    }
    if kind == 'O' {
        // a packet of an OBJECT whose OTI is not known (no EXT_FTI, no FDT): it is cached, the session now holds
        // an object that can never complete (Ok when processed)
        let ep = UDPEndpoint::new(None, "224.0.0.1".to_string(), 3000);
        let mut oti = flute::core::Oti::new_no_code(16, 4);
        oti.inband_fti = false;
        let mut sender = flute::sender::Sender::new(ep, tsi, &oti, &Default::default());
        let obj = flute::sender::ObjectDesc::create_from_buffer(vec![7u8; 40], "a/b", &url::Url::parse("file:///stalled").unwrap(), false, Default::default()).expect("object");
        sender.add_object(0, obj).expect("add");
        sender.publish(sys_now()).expect("publish");
        while let Some(pkt) = sender.read(sys_now()) {
            let p = flute::core::alc::parse_alc_pkt(&pkt).expect("probe parses");
            if p.lct.toi != 0 {
                assert!(p.lct.tsi == tsi && p.oti.is_none() && !p.lct.close_session);
                return pkt;
            }
        }
        panic!("no object packet");
    }
    let mut pkt = flute::verif_hooks::alc::new_alc_pkt_close_session(&0u128, tsi);
    pkt[1] &= !0x03;
    match kind {
        'E' => {}
        'K' => pkt[1] |= 0x01,
        'C' => pkt[1] |= 0x02,
        _ => panic!("probe kind"),
    }
    let p = flute::core::alc::parse_alc_pkt(&pkt).expect("probe parses");
    assert!(p.lct.tsi == tsi, "tsi does not survive the header");
    assert!(p.lct.close_session == (kind == 'C') && p.lct.close_object == (kind == 'K'));
    pkt
}

#[derive(Clone)]
enum Op {
    AddL,
    RemL(u64),
    Filt(bool),
    Add(EpT, u64),
    Rem(EpT, u64),
    AddAll(EpT),
    RemAll(EpT),
    /// endpoint, datagram, (tsi if it parses), session index for I lines
    Push(EpT, Vec<u8>, Option<u64>, Option<usize>),
    Cleanup,
    Sleep(u64),
    Spin,
}

fn parse_filter_op(t: &str) -> Option<Op> {
    let p: Vec<&str> = t.split('!').collect();
    Some(match p[0] {
        "a" => Op::Add(EpT::parse(p[1]), hx(p[2])),
        "r" => Op::Rem(EpT::parse(p[1]), hx(p[2])),
        "A" => Op::AddAll(EpT::parse(p[1])),
        "R" => Op::RemAll(EpT::parse(p[1])),
        "F0" => Op::Filt(false),
        "F1" => Op::Filt(true),
        "C" => Op::Cleanup,
        _ => {
            if let Some(ms) = t.strip_prefix('Z') {
                Op::Sleep(ms.parse().unwrap())
            } else {
                return None;
            }
        }
    })
}

/// Runs the operations on a fresh MultiReceiver, then drops it.  One token per op (Sleep/Spin: `-/`)
/// plus one for the drop.  Without time stamps (I lines, where two runs are compared) returns None when the
/// measured times do not guarantee the expiry pattern that the input dictates.
fn run_ops(en: bool, tmo_ms: Option<u64>, ops: &[Op], stamps: bool) -> Option<Vec<String>> {
    let log: Log = Rc::new(RefCell::new(Vec::new()));
    let mut cfg = Config::default();
    cfg.session_timeout = tmo_ms.map(Duration::from_millis);
    let writer = Rc::new(WBuilder { log: log.clone() });
    let mut mr = MultiReceiver::new(writer, Some(cfg), en);
    let start = Instant::now();
    let us = |i: Instant| i.duration_since(start).as_micros();
    let mut out = Vec::with_capacity(ops.len() + 1);
    let mut last_push: HashMap<(EpT, u64), (Instant, Instant)> = HashMap::new();
    let mut slept_since: HashMap<(EpT, u64), bool> = HashMap::new();
    let mut first_push: Option<Instant> = None;
    let mut latest_push: Option<Instant> = None;
    let mut ambiguous = false;
    let now = sys_now();
    for op in ops {
        let t0 = Instant::now();
        let mut res = "-";
        match op {
            Op::AddL => {
                let cell = Rc::new(Cell::new(u64::MAX));
                let id = mr.add_listener(Lst { id: cell.clone(), log: log.clone() });
                cell.set(id);
                log.borrow_mut().push(format!("id{:x}", id));
            }
            Op::RemL(id) => mr.remove_listener(*id),
            Op::Filt(b) => mr.set_tsi_filtering(*b),
            Op::Add(ep, tsi) => mr.add_listen_tsi(ep.udp(), *tsi),
            Op::Rem(ep, tsi) => mr.remove_listen_tsi(&ep.udp(), *tsi),
            Op::AddAll(ep) => mr.add_listen_all_tsi(ep.udp()),
            Op::RemAll(ep) => mr.remove_listen_all_tsi(&ep.udp()),
            Op::Push(ep, pkt, tsi, _) => {
                let r = mr.push(&ep.udp(), pkt, now);
                res = if r.is_ok() { "ok" } else { "err" };
                let t1 = Instant::now();
                if let Some(tsi) = tsi {
                    last_push.insert((ep.clone(), *tsi), (t0, t1));
                    slept_since.insert((ep.clone(), *tsi), false);
                }
                if first_push.is_none() {
                    first_push = Some(t0);
                }
                latest_push = Some(t1);
            }
            Op::Cleanup => {
                mr.cleanup(now);
                let t1 = Instant::now();
                if let Some(ms) = tmo_ms {
                    let d = Duration::from_millis(ms);
                    for (k, (a0, a1)) in last_push.iter() {
                        // The input decides what must happen: a session is idle beyond the time-out at this
                        // cleanup iff a sleep (longer than the time-out) lies between its last packet and the
                        // cleanup.  If the measured idle time does not guarantee that outcome (machine stall,
                        // or a sleep that returned early) the run is repeated.
                        let slept = *slept_since.get(k).unwrap_or(&false);
                        let min_idle = t0.saturating_duration_since(*a1);
                        let max_idle = t1.saturating_duration_since(*a0);
                        if (slept && min_idle <= d) || (!slept && max_idle > d) {
                            ambiguous = true;
                        }
                    }
                }
            }
            Op::Sleep(ms) => {
                std::thread::sleep(Duration::from_millis(*ms));
                if tmo_ms.map_or(false, |t| *ms > t) {
                    for v in slept_since.values_mut() {
                        *v = true;
                    }
                }
            }
            Op::Spin => {
                if let (Some(a), Some(b), Some(ms)) = (first_push, latest_push, tmo_ms) {
                    let target = a + b.duration_since(a) / 2 + Duration::from_millis(ms);
                    while Instant::now() < target {
                        std::hint::spin_loop();
                    }
                }
            }
        }
        let t1 = Instant::now();
        let evs: Vec<String> = log.borrow_mut().drain(..).collect();
        if stamps {
            out.push(format!("{}@{}-{}/{}", res, us(t0), us(t1), evs.join(",")));
        } else {
            out.push(format!("{}/{}", res, evs.join(",")));
        }
    }
    drop(mr);
    let evs: Vec<String> = log.borrow_mut().drain(..).collect();
    out.push(format!("D/{}", evs.join(",")));
    if ambiguous && !stamps {
        None
    } else {
        Some(out)
    }
}

fn retry(f: impl Fn() -> Option<String>) -> String {
    for _ in 0..3 {
        if let Some(s) = f() {
            return s;
        }
    }
    "TIMING".into()
}

const G_PORT: u64 = 0xbb8;
fn g_ep(e: u64) -> EpT {
    EpT { src: if e & 1 == 1 { Some(7) } else { None }, dst: 1 + (e >> 1), port: G_PORT }
}

thread_local! {
    static G_PROBES: Vec<(UDPEndpoint, Vec<u8>)> = {
        let mut v = Vec::new();
        for e in 0..4u64 {
            for t in 0..2u64 {
                v.push((g_ep(e).udp(), probe_pkt('E', 1 + t)));
            }
        }
        v
    };
    static G_EPS: Vec<UDPEndpoint> = (0..4u64).map(|e| g_ep(e).udp()).collect();
}

fn eval_grid(idx: &[u64]) -> String {
    struct Nul;
    impl ObjectWriterBuilder for Nul {
        fn new_object_writer(&self, _: &UDPEndpoint, _: &u64, _: &u128, _: &ObjectMetadata, _: SystemTime) -> ObjectWriterBuilderResult {
            ObjectWriterBuilderResult::Abort
        }
        fn update_cache_control(&self, _: &UDPEndpoint, _: &u64, _: &u128, _: &ObjectMetadata, _: SystemTime) {}
        fn fdt_received(&self, _: &UDPEndpoint, _: &u64, _: &str, _: SystemTime, _: &ObjectMetadata, _: Duration, _: SystemTime, _: Option<SystemTime>) {}
    }
    let mut mr = MultiReceiver::new(Rc::new(Nul), None, true);
    G_EPS.with(|eps| {
        for &i in idx {
            match i {
                0..=7 => mr.add_listen_tsi(eps[(i / 2) as usize].clone(), 1 + i % 2),
                8..=15 => mr.remove_listen_tsi(&eps[((i - 8) / 2) as usize], 1 + i % 2),
                16..=19 => mr.add_listen_all_tsi(eps[(i - 16) as usize].clone()),
                20..=23 => mr.remove_listen_all_tsi(&eps[(i - 20) as usize]),
                _ => panic!("grid op index"),
            }
        }
    });
    let now = sys_now();
    let mut mask = 0u32;
    G_PROBES.with(|pr| {
        for (b, (ep, pkt)) in pr.iter().enumerate() {
            if mr.push(ep, pkt, now).is_err() {
                mask |= 1 << b;
            }
        }
    });
    format!("{:x}", mask)
}

fn parse_m_ops(toks: &[&str]) -> Vec<Op> {
    toks.iter()
        .map(|t| {
            if *t == "L+" {
                Op::AddL
            } else if let Some(id) = t.strip_prefix("L-") {
                Op::RemL(hx(id))
            } else if *t == "Y" {
                Op::Spin
            } else if t.starts_with('p') {
                let p: Vec<&str> = t.split('!').collect();
                let ep = EpT::parse(p[1]);
                match p[0] {
                    "pX" => Op::Push(ep, vec![0xde, 0xad], None, None),
                    k => {
                        let tsi = hx(p[2]);
                        Op::Push(ep, probe_pkt(k.chars().nth(1).unwrap(), tsi), Some(tsi), None)
                    }
                }
            } else {
                parse_filter_op(t).unwrap_or_else(|| panic!("bad op {}", t))
            }
        })
        .collect()
}

fn parse_tmo(t: &str) -> Option<u64> {
    if t == "-" {
        None
    } else {
        Some(hx(t))
    }
}

struct Sess {
    ep: EpT,
    tsi: u64,
    pkts: Vec<Vec<u8>>,
    close: Vec<u8>,
}

/// `ep!tsi!seed!nobj!maxlen`: a real sender session (No-Code, 16-byte symbols for the objects, default
/// session OTI for the FDT), all its packets of one transfer.
fn make_session(desc: &str) -> Sess {
    use flute::core::Oti;
    use flute::sender::{Config as SConfig, ObjectDesc, Sender, TransferConfig};
    let p: Vec<&str> = desc.split('!').collect();
    let ep = EpT::parse(p[0]);
    let tsi = hx(p[1]);
    let (seed, nobj, maxlen) = (hx(p[2]), hx(p[3]), hx(p[4]));
    let mut rng = Rng::new(seed ^ 0xC18);
    let mut cfg = SConfig::default();
    cfg.toi_initial_value = Some(1);
    let mut sender = Sender::new(ep.udp(), tsi, &Oti::default(), &cfg);
    for o in 0..nobj {
        let len = 1 + rng.below(maxlen.max(1)) as usize;
        let mut tc = TransferConfig::default();
        tc.oti = Some(Oti::new_no_code(16, 4));
        let obj = ObjectDesc::create_from_buffer(
            rng.bytes(len),
            "application/octet-stream",
            &url::Url::parse(&format!("file:///s{:x}/o{}", seed, o)).unwrap(),
            true,
            tc,
        )
        .unwrap();
        sender.add_object(0, obj).unwrap();
    }
    let now = sys_now();
    sender.publish(now).unwrap();
    let mut pkts = Vec::new();
    while let Some(d) = sender.read(now) {
        pkts.push(d);
        if pkts.len() > 10_000 {
            panic!("sender does not quiesce");
        }
    }
    let close = sender.read_close_session(now);
    Sess { ep, tsi, pkts, close }
}

fn eval_inter(t: &[&str]) -> String {
    let en = t[1] == "1";
    let tmo = parse_tmo(t[2]);
    let nl = hx(t[3]) as usize;
    let ns = hx(t[4]) as usize;
    let sess: Vec<Sess> = (0..ns).map(|i| make_session(t[5 + i])).collect();
    let mut cursor = vec![0usize; ns];
    let mut ops: Vec<Op> = (0..nl).map(|_| Op::AddL).collect();
    for tok in &t[5 + ns..] {
        if let Some(i) = tok.strip_prefix('c') {
            let i: usize = i.parse().unwrap();
            ops.push(Op::Push(sess[i].ep.clone(), sess[i].close.clone(), Some(sess[i].tsi), Some(i)));
        } else if let Ok(i) = tok.parse::<usize>() {
            let s = &sess[i];
            if s.pkts.is_empty() {
                continue;
            }
            let pkt = s.pkts[cursor[i] % s.pkts.len()].clone();
            cursor[i] += 1;
            ops.push(Op::Push(s.ep.clone(), pkt, Some(s.tsi), Some(i)));
        } else {
            ops.push(parse_filter_op(tok).unwrap_or_else(|| panic!("bad sched token {}", tok)));
        }
    }
    retry(|| {
        let mut parts = vec![run_ops(en, tmo, &ops, false)?.join(" ")];
        for k in 0..ns {
            let alone: Vec<Op> = ops
                .iter()
                .filter(|o| match o {
                    Op::Push(_, _, _, Some(i)) => *i == k,
                    _ => true,
                })
                .cloned()
                .collect();
            parts.push(run_ops(en, tmo, &alone, false)?.join(" "));
        }
        Some(parts.join(" || "))
    })
}

pub fn eval(input: &str) -> String {
    let t: Vec<&str> = input.split_whitespace().collect();
    let r = catch(|| match t[0] {
        "G" => {
            let idx: Vec<u64> = t[1..].iter().map(|x| hx(x)).collect();
            eval_grid(&idx)
        }
        "M" => {
            let ops = parse_m_ops(&t[3..]);
            run_ops(t[1] == "1", parse_tmo(t[2]), &ops, true).unwrap().join(" ")
        }
        "X" => {
            let n = hx(t[1]);
            let mut ops = vec![Op::AddL];
            let ep = g_ep(0);
            for tsi in 1..=n {
                ops.push(Op::Push(ep.clone(), probe_pkt('E', tsi), Some(tsi), None));
            }
            ops.push(Op::Spin);
            ops.push(Op::Cleanup);
            run_ops(false, parse_tmo(t[2]), &ops, true).unwrap().join(" ")
        }
        "I" => eval_inter(&t),
        _ => "BAD".into(),
    });
    r.unwrap_or_else(|| "PANIC".into())
}

// ------------------------------------------------------------------------------------------
// generators

fn grid(alpha: &[u64], depth: usize, shard: (u64, u64), emit: &mut dyn FnMut(String)) {
    // all sequences over alpha of length 0..=depth
    let mut count = 0u64;
    let mut seq: Vec<usize> = Vec::new();
    loop {
        if count % shard.1 == shard.0 {
            let mut s = String::from("G");
            for &i in &seq {
                s.push_str(&format!(" {:x}", alpha[i]));
            }
            emit(s);
        }
        count += 1;
        // next sequence in length-lexicographic DFS order
        if seq.len() < depth {
            seq.push(0);
            continue;
        }
        loop {
            match seq.pop() {
                None => return,
                Some(i) => {
                    if i + 1 < alpha.len() {
                        seq.push(i + 1);
                        break;
                    }
                }
            }
        }
    }
}

fn rand_ep(rng: &mut Rng, eps: &[EpT]) -> String {
    rng.pick(eps).tok()
}

fn gen_m(rng: &mut Rng, timed: bool) -> String {
    // a small sub-universe per case so that operations collide
    let dsts = [1u64, 2];
    let ports = [0xbb8u64, 0xbb9];
    let srcs = [None, Some(7u64), Some(8)];
    let all_tsis = [0u64, 1, 2, 0xffff, 0x10000, 0xffff_ffff];
    let mut eps: Vec<EpT> = Vec::new();
    let d = *rng.pick(&dsts);
    let p = *rng.pick(&ports);
    eps.push(EpT { src: None, dst: d, port: p });
    eps.push(EpT { src: Some(7), dst: d, port: p });
    for _ in 0..rng.below(3) {
        let e = EpT { src: *rng.pick(&srcs), dst: *rng.pick(&dsts), port: *rng.pick(&ports) };
        if !eps.contains(&e) {
            eps.push(e);
        }
    }
    let t0 = *rng.pick(&all_tsis);
    let mut tsis = vec![t0];
    let t1 = *rng.pick(&all_tsis);
    if t1 != t0 {
        tsis.push(t1);
    }
    let en = rng.chance(3, 4);
    let tmo = if timed { "14" } else if rng.chance(1, 2) { "-" } else { "ea60" };
    let mut s = format!("M {} {}", if en { 1 } else { 0 }, tmo);
    let len = rng.range(4, if timed { 16 } else { 40 });
    let mut nlist = 0u64;
    if rng.chance(4, 5) {
        s.push_str(" L+");
        nlist += 1;
    }
    for _ in 0..len {
        let r = rng.below(100);
        let ep = rand_ep(rng, &eps);
        let tsi = *rng.pick(&tsis);
        let tok = if r < 14 {
            format!("a!{}!{:x}", ep, tsi)
        } else if r < 26 {
            format!("r!{}!{:x}", ep, tsi)
        } else if r < 32 {
            format!("A!{}", ep)
        } else if r < 37 {
            format!("R!{}", ep)
        } else if r < 60 {
            format!("pE!{}!{:x}", ep, tsi)
        } else if r < 68 {
            format!("pK!{}!{:x}", ep, tsi)
        } else if r < 76 {
            format!("pC!{}!{:x}", ep, tsi)
        } else if r < 80 {
            format!("pD!{}!{:x}", ep, tsi)
        } else if r < 82 {
            format!("pX!{}", ep)
        } else if r < 86 {
            nlist += 1;
            "L+".to_string()
        } else if r < 89 && nlist > 0 {
            format!("L-{:x}", rng.below(nlist))
        } else if r < 91 {
            format!("F{}", rng.below(2))
        } else if timed && r < 99 {
            "Z28 C".to_string()
        } else {
            "C".to_string()
        };
        s.push(' ');
        s.push_str(&tok);
    }
    s
}

fn gen_i(rng: &mut Rng, timed: bool, close_at: Option<usize>) -> String {
    let ns = rng.range(2, 4) as usize;
    // distinct keys: equal TSIs on distinct endpoints and distinct TSIs on one endpoint
    let eps = [
        EpT { src: None, dst: 1, port: 0xbb8 },
        EpT { src: Some(7), dst: 1, port: 0xbb8 },
        EpT { src: None, dst: 2, port: 0xbb8 },
        EpT { src: None, dst: 1, port: 0xbb9 },
    ];
    let tsis = [1u64, 2, 0x10000];
    let mut keys: Vec<(EpT, u64)> = Vec::new();
    while keys.len() < ns {
        let k = if !keys.is_empty() && rng.chance(1, 2) {
            // share the TSI or the endpoint with an existing session
            let (e0, t0) = keys[rng.below(keys.len() as u64) as usize].clone();
            if rng.chance(1, 2) {
                (rng.pick(&eps).clone(), t0)
            } else {
                (e0, *rng.pick(&tsis))
            }
        } else {
            (rng.pick(&eps).clone(), *rng.pick(&tsis))
        };
        if !keys.contains(&k) {
            keys.push(k);
        }
    }
    let en = rng.chance(1, 3);
    let tmo = if timed { "14" } else { "-" };
    let nl = rng.range(1, 2);
    let mut s = format!("I {} {} {:x} {:x}", if en { 1 } else { 0 }, tmo, nl, ns);
    for (e, t) in &keys {
        s.push_str(&format!(" {}!{:x}!{:x}!{:x}!{:x}", e.tok(), t, rng.below(1 << 20), rng.range(1, 3), rng.range(1, 70)));
    }
    if en {
        // listen to all but possibly one session, one of them through the wildcard source / all-TSI
        let skip = if rng.chance(1, 2) { Some(rng.below(ns as u64) as usize) } else { None };
        for (i, (e, t)) in keys.iter().enumerate() {
            if Some(i) == skip {
                continue;
            }
            match rng.below(3) {
                0 => s.push_str(&format!(" a!{}!{:x}", e.tok(), t)),
                1 => s.push_str(&format!(" a!{}!{:x}", EpT { src: None, ..e.clone() }.tok(), t)),
                _ => s.push_str(&format!(" A!{}", e.tok())),
            }
        }
    }
    let len = rng.range(20, 70) as usize;
    let round_robin = rng.chance(1, 4);
    let mut sched: Vec<String> = Vec::new();
    for j in 0..len {
        let i = if round_robin { j % ns } else { rng.below(ns as u64) as usize };
        sched.push(format!("{}", i));
        if close_at.is_none() && rng.chance(1, 25) {
            sched.push(format!("c{}", rng.below(ns as u64)));
        }
        if rng.chance(1, 30) {
            sched.push(if timed && rng.chance(2, 3) { "Z28 C".to_string() } else { "C".to_string() });
        }
    }
    if let Some(at) = close_at {
        // the same schedule for every `at`, the close-session packet of one session inserted there
        sched.insert(at.min(sched.len()), format!("c{}", at % ns));
    }
    for t in sched {
        s.push(' ');
        s.push_str(&t);
    }
    s
}

/// every interleaving of the first `a` packets of session 0 with the first `b` packets of session 1
fn gen_all_merges(sessions: &str, a: usize, b: usize, emit: &mut dyn FnMut(String)) {
    fn rec(a: usize, b: usize, cur: &mut Vec<u8>, head: &str, emit: &mut dyn FnMut(String)) {
        if a == 0 && b == 0 {
            let mut s = String::from(head);
            for c in cur.iter() {
                s.push_str(if *c == 0 { " 0" } else { " 1" });
            }
            emit(s);
            return;
        }
        if a > 0 {
            cur.push(0);
            rec(a - 1, b, cur, head, emit);
            cur.pop();
        }
        if b > 0 {
            cur.push(1);
            rec(a, b - 1, cur, head, emit);
            cur.pop();
        }
    }
    let head = format!("I 0 - 1 2 {}", sessions);
    rec(a, b, &mut Vec::new(), &head, emit);
}

fn gen(args: &Args, emit: &mut dyn FnMut(String)) {
    let thorough = args.tier == "thorough";
    let all: Vec<u64> = (0..24).collect();
    // one TSI only: adds/removes with tsi index 0, and the all-TSI operations
    let one_tsi: Vec<u64> = vec![0, 2, 4, 6, 8, 10, 12, 14, 16, 17, 18, 19, 20, 21, 22, 23];
    // one group address, one TSI: source / no source
    let one_dst: Vec<u64> = vec![0, 2, 8, 10, 16, 17, 20, 21];
    // one group address, both TSIs
    let one_group: Vec<u64> = vec![0, 1, 2, 3, 8, 9, 10, 11, 16, 17, 20, 21];
    if thorough {
        grid(&all, 5, args.shard, emit);
        grid(&one_group, 6, args.shard, emit);
        grid(&one_dst, 7, args.shard, emit);
    } else {
        grid(&all, 4, args.shard, emit);
        grid(&one_tsi, 5, args.shard, emit);
        grid(&one_dst, 6, args.shard, emit);
    }
    // seeded cases, different per shard
    let mut rng = Rng::new(args.seed.wrapping_mul(1000).wrapping_add(args.shard.0));
    let per = |q: u64, t: u64| (if thorough { t } else { q }) / args.shard.1.max(1) + 1;
    for _ in 0..per(12000, 200_000) {
        emit(gen_m(&mut rng, false));
    }
    for _ in 0..per(400, 4000) {
        emit(gen_m(&mut rng, true));
    }
    for _ in 0..per(600, 8000) {
        emit(gen_i(&mut rng, false, None));
    }
    // close-session packet at every index of a schedule
    for _ in 0..per(8, 64) {
        let r2 = Rng::new(rng.next());
        for at in 0..24 {
            let mut r3 = r2.clone();
            emit(gen_i(&mut r3, false, Some(at)));
        }
    }
    for _ in 0..per(80, 600) {
        emit(gen_i(&mut rng, true, None));
    }
    // the same with probe packets and time stamps (M lines): a session fed every 8 ms (time-out 20 ms) for
    // longer than the time-out is still open at the cleanup, whatever its packets carry
    for k in 0..per(12, 60) {
        let ep = if k % 2 == 0 { "-.1.bb8" } else { "7.2.bb9" };
        let kind = if k % 3 == 0 { "pK" } else { "pE" };
        let tsi = 1 + k % 2;
        let mut s = format!("M 0 14 L+ {}!{}!{:x}", kind, ep, tsi);
        for _ in 0..(3 + k % 3) {
            s.push_str(&format!(" Z8 {}!{}!{:x}", kind, ep, tsi));
        }
        s.push_str(&format!(" C pE!{}!{:x}", ep, tsi));
        emit(s);
    }
    // a session that holds a STALLED object (packets cached, no FDT) and then goes silent for longer than the
    // session time-out is closed by the cleanup like any idle session
    for k in 0..per(8, 40) {
        let ep = if k % 2 == 0 { "-.1.bb8" } else { "7.2.bb9" };
        let tsi = 1 + k % 2;
        let mut s = format!("M 0 14 L+ pO!{}!{:x}", ep, tsi);
        if k % 3 == 1 {
            s.push_str(&format!(" Z4 pO!{}!{:x}", ep, tsi));
        }
        s.push_str(&format!(" Z40 C pE!{}!{:x}", ep, tsi));
        emit(s);
    }
    // a carousel that only repeats what the receiver already has keeps its session alive: after the whole
    // session, duplicates every 6 ms (time-out 14 ms) for longer than the time-out, then a cleanup
    for k in 0..per(12, 60) {
        let ep = if k % 2 == 0 { "-.1.bb8" } else { "7.2.bb9" };
        let mut s = format!("I 0 14 1 1 {}!{:x}!{:x}!1!{:x}", ep, 1 + k % 3, rng.below(1 << 20), rng.range(5, 40));
        for _ in 0..14 {
            s.push_str(" 0");
        }
        for _ in 0..(4 + k % 3) {
            s.push_str(" Z6 0 0");
        }
        s.push_str(" C 0 0");
        emit(s);
    }
    // exhaustive interleavings of two short sessions: equal TSI on two endpoints, two TSIs on one endpoint
    if args.shard.0 == args.shard.1 - 1 {
        let k = if thorough { 6 } else { 5 };
        gen_all_merges("-.1.bb8!1!11!1!30 -.2.bb8!1!12!1!30", k, k, emit);
        gen_all_merges("7.1.bb8!1!13!1!30 7.1.bb8!2!14!1!30", k, k, emit);
    }
    // D24 stress: many sessions whose time-outs are crossed while cleanup runs
    if args.shard.0 == 0 {
        for n in [0x32u64, 0x12c, 0x7d0] {
            for _ in 0..(if thorough { 6 } else { 2 }) {
                emit(format!("X {:x} 14", n));
            }
        }
    }
}

pub fn run(args: &Args) {
    let mut tr = Trace::new(args.out.as_deref());
    if let Some(rp) = &args.replay {
        for line in std::fs::read_to_string(rp).unwrap().lines() {
            let input = line.split('|').next().unwrap().trim();
            if input.is_empty() || input.starts_with('#') {
                continue;
            }
            tr.line(&format!("{} | {}", input, eval(input)));
        }
    } else {
        gen(args, &mut |input: String| {
            let out = eval(&input);
            tr.line(&format!("{} | {}", input, out));
        });
    }
    tr.finish();
}
