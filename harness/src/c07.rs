//! C07: block partitioning.  Lines (numbers in hex):
//!   P b l e   | al as nal n            block_partitioning
//!   L b l e s | len | PANIC            block_length on the partition of (b,l,e), block s
//!   S b l e   | len0 len1 ...          source bytes per SBN on the wire of a real No-Code session
//!   R b l e   | z b'                   Z written by a RaptorQ sender, B rebuilt by the receiver's FTI parser
//!   Z b l e   | tl len0 len1 ...       the same as S for a content-encoded (zlib) object of l compressible bytes:
//!                                      tl = transfer length announced in-band; the blocks partition tl, not l
use crate::util::*;
use flute::verif_hooks::partition;

pub fn eval(input: &str) -> String {
    let t: Vec<&str> = input.split_whitespace().collect();
    let n = |i: usize| u64::from_str_radix(t[i], 16).unwrap();
    match t[0] {
        "P" => {
            let (b, l, e) = (n(1), n(2), n(3));
            match catch(|| partition::block_partitioning(b, l, e)) {
                Some((al, as_, nal, nb)) => format!("{:x} {:x} {:x} {:x}", al, as_, nal, nb),
                None => "PANIC".into(),
            }
        }
        "L" => {
            let (b, l, e, s) = (n(1), n(2), n(3), n(4));
            match catch(|| {
                let (al, as_, nal, _) = partition::block_partitioning(b, l, e);
                partition::block_length(al, as_, nal, l, e, s as u32)
            }) {
                Some(v) => format!("{:x}", v),
                None => "PANIC".into(),
            }
        }
        "S" => {
            let (b, l, e) = (n(1), n(2), n(3));
            match catch(|| wire_lengths(b as u16, l as usize, e as u16)) {
                Some(v) => v.iter().map(|x| format!("{:x}", x)).collect::<Vec<_>>().join(" "),
                None => "PANIC".into(),
            }
        }
        "Z" => {
            let (b, l, e) = (n(1), n(2), n(3));
            match catch(|| wire_lengths_cenc(b as u16, l as usize, e as u16)) {
                Some((tl, v)) => format!("{:x} {}", tl, v.iter().map(|x| format!("{:x}", x)).collect::<Vec<_>>().join(" ")),
                None => "PANIC".into(),
            }
        }
        "R" | "Q" => {
            // R: RaptorQ, Q: Raptor (same reconstruction of B from Z in its own codec)
            let (b, l, e) = (n(1), n(2), n(3));
            let raptor = t[0] == "Q";
            match catch(|| raptorq_reconstruction(b as u16, l as usize, e as u16, raptor)) {
                Some(Some((z, b2))) => format!("{:x} {:x}", z, b2),
                Some(None) => "NONE".into(),
                None => "PANIC".into(),
            }
        }
        _ => "BAD".into(),
    }
}

fn content(l: usize) -> Vec<u8> {
    (0..l).map(|i| (i * 7 + 3) as u8).collect()
}

/// Run a real sender (No-Code, one object, one transfer) and sum the source payload bytes per SBN.
fn wire_lengths(b: u16, l: usize, e: u16) -> Vec<u64> {
    use flute::core::{Oti, UDPEndpoint};
    use flute::sender::{Config, ObjectDesc, Sender};
    let oti = Oti::new_no_code(e, b);
    let mut cfg = Config::default();
    cfg.interleave_blocks = 3;
    let ep = UDPEndpoint::new(None, "224.0.0.1".to_string(), 1234);
    let mut sender = Sender::new(ep, 1, &oti, &cfg);
    let obj = ObjectDesc::create_from_buffer(
        content(l),
        "application/octet-stream",
        &url::Url::parse("file:///o").unwrap(),
        false,
        Default::default(),
    )
    .unwrap();
    let toi = sender.add_object(0, obj).unwrap();
    let now = std::time::SystemTime::now();
    sender.publish(now).unwrap();
    let mut lens: Vec<u64> = Vec::new();
    let mut guard = 0;
    while let Some(data) = sender.read(now) {
        guard += 1;
        if guard > 1_000_000 {
            panic!("sender does not quiesce");
        }
        let pkt = flute::core::alc::parse_alc_pkt(&data).unwrap();
        if pkt.lct.toi != toi {
            continue;
        }
        let pid = flute::core::alc::parse_payload_id(&pkt, &oti).unwrap();
        let plen = (data.len() - pkt.data_payload_offset) as u64;
        let sbn = pid.sbn as usize;
        if lens.len() <= sbn {
            lens.resize(sbn + 1, 0);
        }
        lens[sbn] += plen;
    }
    lens
}

/// As wire_lengths, for a zlib-encoded object whose content compresses well (transfer length << content
/// length): returns the transfer length carried by EXT_FTI and the source payload bytes per SBN.
fn wire_lengths_cenc(b: u16, l: usize, e: u16) -> (u64, Vec<u64>) {
    use flute::core::{Oti, UDPEndpoint};
    use flute::sender::{Config, ObjectDesc, Sender, TransferConfig};
    let oti = Oti::new_no_code(e, b);
    let mut cfg = Config::default();
    cfg.interleave_blocks = 2;
    let ep = UDPEndpoint::new(None, "224.0.0.1".to_string(), 1234);
    let mut sender = Sender::new(ep, 1, &oti, &cfg);
    let data: Vec<u8> = (0..l).map(|i| ((i / 7) % 5) as u8 + b'a').collect();
    let mut tc = TransferConfig::default();
    tc.cenc = flute::core::lct::Cenc::Zlib;
    tc.inband_cenc = true;
    let obj = ObjectDesc::create_from_buffer(data, "text/plain", &url::Url::parse("file:///z").unwrap(), true, tc).unwrap();
    let toi = sender.add_object(0, obj).unwrap();
    let now = std::time::SystemTime::now();
    sender.publish(now).unwrap();
    let mut lens: Vec<u64> = Vec::new();
    let mut tl = 0u64;
    let mut guard = 0;
    while let Some(data) = sender.read(now) {
        guard += 1;
        if guard > 1_000_000 {
            panic!("sender does not quiesce");
        }
        let pkt = flute::core::alc::parse_alc_pkt(&data).unwrap();
        if pkt.lct.toi != toi {
            continue;
        }
        if let Some(t) = pkt.transfer_length {
            tl = t;
        }
        let pid = flute::core::alc::parse_payload_id(&pkt, &oti).unwrap();
        let plen = (data.len() - pkt.data_payload_offset) as u64;
        let sbn = pid.sbn as usize;
        if lens.len() <= sbn {
            lens.resize(sbn + 1, 0);
        }
        lens[sbn] += plen;
    }
    (tl, lens)
}

/// Run a real RaptorQ sender, take the first object packet, parse it with flute's receiver-side
/// parser and return (Z, reconstructed B).
fn raptorq_reconstruction(b: u16, l: usize, e: u16, raptor: bool) -> Option<(u64, u64)> {
    use flute::core::{Oti, UDPEndpoint};
    use flute::sender::{Config, ObjectDesc, Sender};
    let oti = if raptor { Oti::new_raptor(e, b, 1, 1, 4).unwrap() } else { Oti::new_raptorq(e, b, 1, 1, 4).unwrap() };
    let cfg = Config::default();
    let ep = UDPEndpoint::new(None, "224.0.0.1".to_string(), 1234);
    let mut sender = Sender::new(ep, 1, &Oti::default(), &cfg);
    let mut tc = flute::sender::TransferConfig::default();
    tc.oti = Some(oti.clone());
    let obj = ObjectDesc::create_from_buffer(
        content(l),
        "application/octet-stream",
        &url::Url::parse("file:///o").unwrap(),
        false,
        tc,
    )
    .unwrap();
    let toi = sender.add_object(0, obj).ok()?;
    let now = std::time::SystemTime::now();
    sender.publish(now).unwrap();
    let mut guard = 0;
    while let Some(data) = sender.read(now) {
        guard += 1;
        if guard > 100_000 {
            panic!("sender does not quiesce");
        }
        let pkt = flute::core::alc::parse_alc_pkt(&data).unwrap();
        if pkt.lct.toi != toi {
            continue;
        }
        let o = pkt.oti.as_ref()?;
        let z = match o.scheme_specific.as_ref()? {
            flute::verif_hooks::oti::SchemeSpecific::RaptorQ(s) => s.source_blocks_length as u64,
            flute::verif_hooks::oti::SchemeSpecific::Raptor(s) => s.source_blocks_length as u64,
            _ => return None,
        };
        return Some((z, o.maximum_source_block_length as u64));
    }
    None
}

fn gen(args: &Args, emit: &mut dyn FnMut(String)) {
    let thorough = args.tier == "thorough";
    let (bm, em, lm) = if thorough { (64u64, 24u64, 4000u64) } else { (16, 8, 600) };
    // exhaustive grid (sharded on l)
    for l in 0..=lm {
        if l % args.shard.1 != args.shard.0 {
            continue;
        }
        for b in 0..=bm {
            for e in 0..=em {
                emit(format!("P {:x} {:x} {:x}", b, l, e));
                if b == 0 || e == 0 {
                    emit(format!("L {:x} {:x} {:x} 0", b, l, e));
                    continue;
                }
                let t = (l + e - 1) / e;
                let n = (t + b - 1) / b;
                if n <= 6 {
                    for s in 0..=n + 1 {
                        emit(format!("L {:x} {:x} {:x} {:x}", b, l, e, s));
                    }
                } else {
                    let nal = t - (t / n) * n;
                    for s in [0, 1, nal.saturating_sub(1), nal, nal + 1, n - 2, n - 1, n, n + 1] {
                        emit(format!("L {:x} {:x} {:x} {:x}", b, l, e, s));
                    }
                }
            }
        }
    }
    if args.shard.0 != 0 {
        return;
    }
    // boundary and seeded random triples, checked by the driver with unbounded integers
    let mut rng = Rng::new(args.seed);
    let bs: Vec<u64> = vec![1, 2, 3, 254, 255, 256, 65534, 65535, 65536, (1 << 32) - 2, (1 << 32) - 1];
    let es: Vec<u64> = vec![1, 2, 3, 4, 1023, 1024, 1400, 1424, 65534, 65535];
    let count = if thorough { 1_000_000 } else { 20_000 };
    for i in 0..count {
        let b = if rng.chance(1, 2) { *rng.pick(&bs) } else { {
            let sh = rng.range(1, 32);
            rng.range(1, 1 << sh)
        } };
        let e = if rng.chance(1, 2) { *rng.pick(&es) } else { rng.range(1, 65535) };
        let l = match rng.below(6) {
            0 => (1u64 << 48) - 1 - rng.below(4),
            1 => (1u64 << 40) - 2 + rng.below(4),
            2 => {
                let k = rng.range(1, 1 << 16);
                (e * b).saturating_mul(k).min((1 << 48) - 1).saturating_sub(rng.below(3)) + rng.below(3)
            }
            3 => e * rng.range(0, 1 << 20) + rng.below(2),
            4 => {
                let sh = rng.range(1, 48);
                rng.below(1 << sh)
            }
            _ => rng.below(100_000),
        }
        .min((1 << 48) - 1);
        emit(format!("P {:x} {:x} {:x}", b, l, e));
        let t = (l as u128 + e as u128 - 1) / e as u128;
        let n = ((t + b as u128 - 1) / b as u128) as u64;
        let nal = if n > 0 { (t - (t / n as u128) * n as u128) as u64 } else { 0 };
        let cands = [0, nal.saturating_sub(1), nal, n.saturating_sub(1), n, rng.below(n.max(1))];
        let s = *rng.pick(&cands);
        if s <= u32::MAX as u64 {
            emit(format!("L {:x} {:x} {:x} {:x}", b, l, e, s));
        }
        let _ = i;
    }
    // real sessions: sender wire lengths (No-Code) and RaptorQ FTI reconstruction
    let (sb, se, sl) = if thorough { (7u64, 5u64, 160u64) } else { (5, 3, 60) };
    for b in 1..=sb {
        for e in 1..=se {
            for l in 1..=sl {
                emit(format!("S {:x} {:x} {:x}", b, l, e));
            }
        }
    }
    // content-encoded objects: the partition is that of the TRANSFER length
    for b in 1..=(if thorough { 6u64 } else { 4 }) {
        for e in [1u64, 2, 3, 5] {
            for l in [40u64, 300, 1500, 6000, 20000] {
                emit(format!("Z {:x} {:x} {:x}", b, l, e));
            }
        }
    }
    let rcount = if thorough { 3000 } else { 400 };
    for _ in 0..rcount {
        let e = 4 * rng.range(1, 4);
        let b = rng.range(1, 12);
        let l = rng.range(1, e * b * 6 + 3);
        emit(format!("R {:x} {:x} {:x}", b, l, e));
    }
    for _ in 0..rcount {
        // Raptor refuses blocks of 2 or 3 symbols: keep B >= 4 and at least 4 symbols
        let e = 4 * rng.range(1, 4);
        let b = rng.range(4, 12);
        let l = rng.range(e * 4, e * b * 6 + 3);
        emit(format!("Q {:x} {:x} {:x}", b, l, e));
    }
}

pub fn run(args: &Args) {
    let mut tr = Trace::new(args.out.as_deref());
    if let Some(rp) = &args.replay {
        for line in std::fs::read_to_string(rp).unwrap().lines() {
            let input = line.split('|').next().unwrap().trim();
            if input.is_empty() || input.starts_with('#') {
                continue;
            }
            tr.line(&format!("{} | {}", input, eval(input)));
        }
    } else {
        gen(args, &mut |input: String| {
            let out = eval(&input);
            tr.line(&format!("{} | {}", input, out));
        });
    }
    tr.finish();
}
