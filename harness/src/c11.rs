//! C11..C14 (and the control part of C10/C12): the real `Sender` driven by operation scripts
//! under a virtual clock.  One scenario per line:
//!   S <full|bt> <fdt_dur_ms> <fdtcar> <startid> <prio:mult,...> <interleave> ; op ; op ...
//!   ops:  A <prio> <len> <e> <b> <max> <car> <target> <allow> <start>
//!         P <now_ms> | R <add-index> | T <add-index> <ts_ms|-> | C | r <now_ms>
//!   car: n | d<ms> | i<ms>     target: n | f | D<ms> | T<abs ms>    allow: 0|1|-   start: -|<abs ms>
//! Output: one token per op:
//!   A:<toi>|A:ERR  P:ok|P:err  R:0|R:1  T:0|T:1  C  r:N | r:F<fdtid>:<close>:<npk> | r:O<toi>:<close> | r:PANIC
//!   each followed by [toi=total,...] (objects in the FDT, sorted) and {S<toi>,E<toi>,...} (observer events)
use crate::util::*;
use flute::core::{Oti, UDPEndpoint};
use flute::sender::{
    CarouselRepeatMode, Config, Event, FDTPublishMode, ObjectDesc, PriorityQueue, Sender, Subscriber,
    TargetAcquisition, TransferConfig,
};
use std::sync::{Arc, Mutex};
use std::time::{Duration, SystemTime, UNIX_EPOCH};

const BASE_S: u64 = 1_700_000_000;

fn t_ms(ms: u64) -> SystemTime {
    UNIX_EPOCH + Duration::from_secs(BASE_S) + Duration::from_millis(ms)
}

struct Obs(Mutex<Vec<String>>);
impl Subscriber for Obs {
    fn on_sender_event(&self, evt: &Event, _now: SystemTime) {
        let s = match evt {
            Event::StartTransfer(f) => format!("S{:x}", f.toi),
            Event::StopTransfer(f) => format!("E{:x}", f.toi),
        };
        self.0.lock().unwrap().push(s);
    }
}

fn car(s: &str) -> Option<CarouselRepeatMode> {
    match &s[0..1] {
        "d" => Some(CarouselRepeatMode::DelayBetweenTransfers(Duration::from_millis(s[1..].parse().unwrap()))),
        "i" => Some(CarouselRepeatMode::IntervalBetweenStartTimes(Duration::from_millis(s[1..].parse().unwrap()))),
        _ => None,
    }
}

type FdtParts = std::collections::HashMap<u32, std::collections::BTreeMap<(u32, u32), Vec<u8>>>;

/// F<id>:<close>:<npk>[:L<toi.toi...>]  |  O<toi>:<close>
fn describe_pkt(data: &[u8], oti: &Oti, session_e: u16, fdt_parts: &mut FdtParts) -> String {
    let pkt = flute::core::alc::parse_alc_pkt(data).unwrap();
    let close = if pkt.lct.close_object { 1 } else { 0 };
    if pkt.lct.toi != 0 {
        return format!("O{:x}:{}", pkt.lct.toi, close);
    }
    let id = pkt.fdt_info.as_ref().map(|f| f.fdt_instance_id).unwrap_or(0xFFFFFFFF);
    let tl = pkt.transfer_length.unwrap_or(0);
    let npk = (tl + session_e as u64 - 1) / session_e as u64;
    // reassemble the instance (No-Code session OTI) and list its TOIs once complete
    let pid = flute::core::alc::parse_payload_id(&pkt, oti).unwrap();
    let parts = fdt_parts.entry(id).or_default();
    parts.insert((pid.sbn, pid.esi), data[pkt.data_payload_offset..].to_vec());
    let mut listing = String::new();
    let have: usize = parts.values().map(|v| v.len()).sum();
    if have as u64 >= tl && parts.len() as u64 == npk {
        let mut xml: Vec<u8> = parts.values().flat_map(|v| v.iter().copied()).collect();
        xml.truncate(tl as usize); // Raptor symbols are padded
        if let Ok(inst) = flute::verif_hooks::fdtinstance::FdtInstance::parse(&xml) {
            let mut l: Vec<u128> = inst
                .file
                .unwrap_or_default()
                .iter()
                .map(|f| f.toi.parse::<u128>().unwrap_or(u128::MAX))
                .collect();
            l.sort();
            listing = format!(":L{}", l.iter().map(|x| format!("{:x}", x)).collect::<Vec<_>>().join("."));
        } else {
            listing = ":LBADXML".into();
        }
        parts.clear();
    }
    format!("F{:x}:{}:{:x}{}", id, close, npk, listing)
}

pub fn eval(input: &str) -> String {
    let parts: Vec<&str> = input.split(';').map(|x| x.trim()).collect();
    let h: Vec<&str> = parts[0].split_whitespace().collect();
    if h[0] != "S" {
        return "BAD".into();
    }
    let mut cfg = Config::default();
    cfg.fdt_publish_mode = if h[1] == "full" { FDTPublishMode::FullFDT } else { FDTPublishMode::ObjectsBeingTransferred };
    cfg.fdt_duration = Duration::from_millis(h[2].parse().unwrap());
    cfg.fdt_carousel_mode = car(h[3]).unwrap_or(CarouselRepeatMode::DelayBetweenTransfers(Duration::from_secs(1)));
    cfg.fdt_start_id = h[4].parse().unwrap();
    cfg.priority_queues.clear();
    for pq in h[5].split(',') {
        let kv: Vec<&str> = pq.split(':').collect();
        cfg.priority_queues.insert(kv[0].parse().unwrap(), PriorityQueue::new(kv[1].parse().unwrap()));
    }
    cfg.interleave_blocks = h[6].parse().unwrap();
    cfg.toi_max_length = flute::sender::TOIMaxLength::ToiMax32;
    cfg.toi_initial_value = Some(1);
    cfg.fdt_inband_sct = false;
    let session_e: u16 = if h.len() > 7 { h[7].parse().unwrap() } else { 1400 };
    // session FEC (used for the FDT): "rp" = Raptor without repair symbols, whose encoder refuses
    // instances of 2 or 3 symbols, so that publish() fails depending on the size of the FDT
    let raptor = h.len() > 8 && h[8] == "rp";
    let oti = if raptor { Oti::new_raptor(session_e, 64, 0, 1, 4).unwrap() } else { Oti::new_no_code(session_e, 64) };
    let ep = UDPEndpoint::new(None, "224.0.0.1".to_string(), 1234);
    let obs = Arc::new(Obs(Mutex::new(Vec::new())));
    let mut out: Vec<String> = Vec::new();
    {
        let mut sender = Sender::new(ep, 1, &oti, &cfg);
        sender.subscribe(obs.clone());
        let mut tois: Vec<Option<u128>> = Vec::new();
        let mut fdt_parts: FdtParts = Default::default();
        let describe = |data: &[u8], parts: &mut FdtParts| describe_pkt(data, &oti, session_e, parts);
        let mut toks: Vec<String> = Vec::new();
        for op in &parts[1..] {
            let t: Vec<&str> = op.split_whitespace().collect();
            if t.is_empty() {
                continue;
            }
            // size of the FDT instance a publish() would build now (same Fdt::to_xml)
            let now_ms: u64 = match t[0] { "P" | "r" | "q" => t[1].parse().unwrap_or(0), _ => 0 };
            let xml_len = sender.fdt_xml_data(t_ms(now_ms)).map(|x| x.len()).unwrap_or(0);
            let step = catch(std::panic::AssertUnwindSafe(|| { let tok: String = match t[0] {
                "A" => {
                    let prio: u32 = t[1].parse().unwrap();
                    let len: usize = t[2].parse().unwrap();
                    let e: u16 = t[3].parse().unwrap();
                    let b: u16 = t[4].parse().unwrap();
                    let mut tc = TransferConfig::default();
                    tc.max_transfer_count = t[5].parse().unwrap();
                    tc.carousel_mode = car(t[6]);
                    tc.target_acquisition = match &t[7][0..1] {
                        "f" => Some(TargetAcquisition::AsFastAsPossible),
                        "D" => Some(TargetAcquisition::WithinDuration(Duration::from_millis(t[7][1..].parse().unwrap()))),
                        "T" => Some(TargetAcquisition::WithinTime(t_ms(t[7][1..].parse().unwrap()))),
                        _ => None,
                    };
                    tc.allow_immediate_stop_before_first_transfer = match t[8] {
                        "1" => Some(true),
                        "0" => Some(false),
                        _ => None,
                    };
                    if t[9] != "-" {
                        tc.transfer_start_time = Some(t_ms(t[9].parse().unwrap()));
                    }
                    tc.oti = Some(Oti::new_no_code(e, b));
                    let content: Vec<u8> = (0..len).map(|i| (i * 3 + tois.len()) as u8).collect();
                    let url = url::Url::parse(&format!("file:///o{}", tois.len())).unwrap();
                    let obj = ObjectDesc::create_from_buffer(content, "a/b", &url, false, tc).unwrap();
                    match sender.add_object(prio, obj) {
                        Ok(toi) => {
                            tois.push(Some(toi));
                            format!("A:{:x}", toi)
                        }
                        Err(_) => {
                            tois.push(None);
                            "A:ERR".into()
                        }
                    }
                }
                "P" => match sender.publish(t_ms(t[1].parse().unwrap())) {
                    Ok(_) => "P:ok".into(),
                    Err(_) => "P:err".into(),
                },
                "R" => {
                    let i: usize = t[1].parse().unwrap();
                    match tois.get(i).copied().flatten() {
                        Some(toi) => format!("R:{}", if sender.remove_object(toi) { 1 } else { 0 }),
                        None => "R:0".into(),
                    }
                }
                "T" => {
                    let i: usize = t[1].parse().unwrap();
                    let ts = if t[2] == "-" { None } else { Some(t_ms(t[2].parse().unwrap())) };
                    match tois.get(i).copied().flatten() {
                        Some(toi) => format!("T:{}", if sender.trigger_transfer_at(toi, ts) { 1 } else { 0 }),
                        None => "T:0".into(),
                    }
                }
                "C" => {
                    sender.set_complete();
                    "C".into()
                }
                "r" => match sender.read(t_ms(t[1].parse().unwrap())) {
                    None => "r:N".into(),
                    Some(data) => format!("r:{}", describe(&data, &mut fdt_parts)),
                },
                "q" => {
                    // read until "nothing to send" at one instant
                    let now = t_ms(t[1].parse().unwrap());
                    let mut seq: Vec<String> = Vec::new();
                    let mut hang = false;
                    while let Some(data) = sender.read(now) {
                        seq.push(describe(&data, &mut fdt_parts));
                        if seq.len() > 5000 {
                            hang = true;
                            break;
                        }
                    }
                    if hang {
                        "q=HANG".into()
                    } else {
                        format!("q={}", if seq.is_empty() { "-".to_string() } else { seq.join(",") })
                    }
                }
                _ => "BADOP".into(),
            }; tok }));
            let mut tok = match step {
                Some(t) => t,
                None => {
                    toks.push("PANIC".into());
                    break;
                }
            };
            // files view and events
            let mut view: Vec<(u128, u64)> = Vec::new();
            let keys: Vec<u128> = sender.get_objects_in_fdt().keys().copied().collect();
            for k in keys {
                view.push((k, sender.nb_transfers(k).unwrap_or(u64::MAX)));
            }
            view.sort();
            if view.len() != sender.nb_objects() {
                tok.push_str("!nbobj");
            }
            tok.push('[');
            tok.push_str(&view.iter().map(|(k, v)| format!("{:x}={:x}", k, v)).collect::<Vec<_>>().join(","));
            tok.push(']');
            let evs: Vec<String> = obs.0.lock().unwrap().drain(..).collect();
            tok.push('{');
            tok.push_str(&evs.join(","));
            tok.push('}');
            // ... and the size after the operation (the listing a publish at the end of a read builds)
            let xml_after = sender.fdt_xml_data(t_ms(now_ms)).map(|x| x.len()).unwrap_or(0);
            tok.push_str(&format!("x{:x}y{:x}", xml_len, xml_after));
            toks.push(tok);
        }
        out.extend(toks);
    }
    out.join(" ")
}

// ---------------- generator ----------------
fn gen_obj(rng: &mut Rng, prios: &[u32], now_max: u64, paced_ok: bool) -> String {
    let prio = *rng.pick(prios);
    let e = *rng.pick(&[4u16, 8, 16]);
    let b = *rng.pick(&[1u16, 2, 3]);
    // number of source symbols restricted to 2^a 5^b so that pacing ticks are whole nanoseconds
    let nsym = *rng.pick(&[0u64, 1, 1, 2, 2, 4, 5, 8]);
    let len = if nsym == 0 { 0 } else { (nsym - 1) * e as u64 + rng.range(1, e as u64) };
    let mut max = *rng.pick(&[1u32, 1, 1, 2, 3]);
    let car = match rng.below(6) {
        0 => "d0".to_string(),
        1 => format!("d{}", rng.range(1, 5) * 100),
        2 => format!("i{}", rng.range(1, 8) * 100),
        _ => "n".to_string(),
    };
    // a carousel object may be configured with max_transfer_count 0 (one transfer per turn)
    if car != "n" && rng.chance(1, 6) {
        max = 0;
    }
    let target = if !paced_ok {
        "n".to_string()
    } else {
        match rng.below(8) {
            0 => "f".to_string(),
            1 => format!("D{}", rng.range(0, 6) * 200),
            2 => format!("T{}", rng.below(now_max + 500)),
            _ => "n".to_string(),
        }
    };
    let allow = *rng.pick(&["-", "-", "0", "1"]);
    let start = if rng.chance(1, 5) { format!("{}", rng.below(now_max)) } else { "-".to_string() };
    format!("A {} {} {} {} {} {} {} {} {}", prio, len, e, b, max, car, target, allow, start)
}

fn gen_scenario(rng: &mut Rng, big: bool) -> String {
    let full = rng.chance(1, 2);
    let dur = *rng.pick(&[2000u64, 5000, 12000, 40000, 3_600_000]);
    let fcar = match rng.below(3) {
        0 => "d0".to_string(),
        1 => format!("d{}", rng.range(1, 4) * 500),
        _ => format!("i{}", rng.range(1, 4) * 700),
    };
    let startid = *rng.pick(&[1u32, 0, 1048574, 1048575, 77]);
    let nq = rng.range(1, 2);
    let mut prios: Vec<u32> = vec![0];
    if nq == 2 {
        prios.push(*rng.pick(&[1u32, 3]));
    }
    let qs: Vec<String> = prios.iter().map(|p| format!("{}:{}", p, rng.below(4))).collect();
    let inter = rng.range(1, 3);
    let raptor = full && rng.chance(1, 4);
    let session_e = if raptor { *rng.pick(&[256u64, 400, 512, 700, 1400]) } else { *rng.pick(&[1400u64, 1400, 1400, 200, 64]) };
    let mut ops: Vec<String> = Vec::new();
    let nops = if big { rng.range(20, 70) } else { rng.range(6, 28) };
    let horizon = *rng.pick(&[50u64, 400, 3000, 20000]);
    let mut now = 0u64;
    let mut nadd = 0usize;
    let nobj0 = rng.range(0, 3);
    for _ in 0..nobj0 {
        ops.push(gen_obj(rng, &prios, horizon, true));
        nadd += 1;
    }
    if full || rng.chance(1, 4) {
        ops.push(format!("P {}", now));
    }
    for _ in 0..nops {
        // time advances by a fine or a coarse step
        now += match rng.below(6) {
            0 => 0,
            1 => 0,
            2 => rng.range(0, 3),
            3 => rng.range(1, 50),
            4 => rng.range(50, horizon / 2 + 50),
            _ => 1,
        };
        match rng.below(24) {
            0 | 1 => {
                ops.push(gen_obj(rng, &prios, now + horizon, true));
                nadd += 1;
                if full && rng.chance(2, 3) {
                    ops.push(format!("P {}", now));
                }
            }
            2 => ops.push(format!("P {}", now)),
            3 => {
                if nadd > 0 {
                    ops.push(format!("R {}", rng.below(nadd as u64)));
                    if full && rng.chance(1, 2) {
                        ops.push(format!("P {}", now));
                    }
                }
            }
            4 => {
                if nadd > 0 {
                    let ts = if rng.chance(1, 2) { "-".to_string() } else { format!("{}", now + rng.below(horizon)) };
                    ops.push(format!("T {} {}", rng.below(nadd as u64), ts));
                }
            }
            5 => {
                if rng.chance(1, 6) {
                    ops.push("C".into());
                } else if !raptor {
                    ops.push(format!("q {}", now));
                }
            }
            _ => {
                // a burst of reads at one instant
                let k = rng.range(1, 6);
                for _ in 0..k {
                    ops.push(format!("r {}", now));
                }
            }
        }
    }
    format!(
        "S {} {} {} {} {} {} {}{} ; {}",
        if full { "full" } else { "bt" },
        dur,
        fcar,
        startid,
        qs.join(","),
        inter,
        session_e,
        if raptor { " rp" } else { "" },
        ops.join(" ; ")
    )
}

fn gen(args: &Args, emit: &mut dyn FnMut(String)) {
    let thorough = args.tier == "thorough";
    let mut rng = Rng::new(args.seed.wrapping_mul(1000003).wrapping_add(args.shard.0));
    let count = if thorough { 40000 } else { 4000 } / args.shard.1;
    for i in 0..count {
        let s = gen_scenario(&mut rng, i % 5 == 0);
        emit(s);
    }
}

pub fn run(args: &Args) {
    let mut tr = Trace::new(args.out.as_deref());
    if let Some(rp) = &args.replay {
        for line in std::fs::read_to_string(rp).unwrap().lines() {
            let input = line.split('|').next().unwrap().trim();
            if input.is_empty() || input.starts_with('#') {
                continue;
            }
            tr.line(&format!("{} | {}", input, eval(input)));
        }
    } else {
        gen(args, &mut |input: String| {
            let out = eval(&input);
            tr.line(&format!("{} | {}", input, out));
        });
    }
    tr.finish();
}
