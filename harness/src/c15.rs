//! C15: TOI allocation.  All numbers are hex unless stated.
//!
//!   H w init tsi thr op... | out...
//!       one history on a real `flute::sender::Sender` (public API only).
//!       w     TOI width in bits (10,20,30,40,50,70)
//!       init  Config::toi_initial_value, or R for None (random)
//!       tsi   TSI of the session (decides the half-word flag of the LCT header)
//!       thr   0: everything on this thread; 1/2: the sender is built here, moved to and used on a
//!             second thread, then dropped on this thread before (1) / after (2) the handles
//!       op    A            allocate_toi                       -> handle number = count of A so far
//!             D<i> / T<i>  drop handle i here / on another thread
//!             O OE OL      add_object without TOI: ok / refused early (unknown priority) / refused
//!                          after the TOI was taken (FileDesc::new fails)
//!             H<i> HE<i> HL<i>   the same with handle i moved into the ObjectDesc
//!             S<j>         start the transfer of object j (its first packet is sent, then paced)
//!             F<j>         start object j if still queued, then run until the sender is idle
//!             R<j>         remove_object(object j)
//!             C<n>         n times: allocate_toi, drop
//!       out   one per op:  <res>;<fdt>   res = v:<toi> | e | n | p:<obj>.<toi>.<rawfield>,.. | c:<toi>,..
//!                          fdt = the TOI="..." attributes (decimal text) of Sender::fdt_xml_data, or -
//!             PANIC ends the history.
//!   W toi tsi | rawfield parsed
//!       push_lct_header(toi, tsi) -> bytes of the TOI field (cut out by the RFC 5651 layout, not by
//!       flute's parser) and the TOI as parse_lct_header reads it.
use crate::util::*;
use flute::core::UDPEndpoint;
use flute::sender::{Config, ObjectDesc, PriorityQueue, Sender, TOIMaxLength, TargetAcquisition, Toi, TransferConfig};
use std::sync::atomic::{AtomicU64, Ordering};
use std::time::{Duration, SystemTime};

// "TOI handles and the sender can be moved and used across threads": checked by compilation.
fn assert_send<T: Send>() {}
#[allow(dead_code)]
fn static_thread_assertions() {
    assert_send::<Sender>();
    assert_send::<Box<Toi>>();
}

static PROGRESS: AtomicU64 = AtomicU64::new(0);

fn width_of(bits: u64) -> TOIMaxLength {
    match bits {
        16 => TOIMaxLength::ToiMax16,
        32 => TOIMaxLength::ToiMax32,
        48 => TOIMaxLength::ToiMax48,
        64 => TOIMaxLength::ToiMax64,
        80 => TOIMaxLength::ToiMax80,
        112 => TOIMaxLength::ToiMax112,
        _ => panic!("bad width"),
    }
}

/// TOI field of an LCT header, cut out by the layout of RFC 5651 section 5.1 (independent of flute's parser)
fn raw_toi_field(data: &[u8]) -> Option<(Vec<u8>, usize)> {
    if data.len() < 4 {
        return None;
    }
    let c = ((data[0] >> 2) & 3) as usize;
    let s = ((data[1] >> 7) & 1) as usize;
    let o = ((data[1] >> 5) & 3) as usize;
    let h = ((data[1] >> 4) & 1) as usize;
    let hdr_len = data[2] as usize * 4;
    let from = 4 + 4 * (c + 1) + 4 * s + 2 * h;
    let to = from + 4 * o + 2 * h;
    if to > data.len() || hdr_len > data.len() || to > hdr_len {
        return None;
    }
    Some((data[from..to].to_vec(), hdr_len))
}

fn base_time() -> SystemTime {
    SystemTime::UNIX_EPOCH + Duration::from_secs(1_700_000_000)
}
fn far_time() -> SystemTime {
    SystemTime::UNIX_EPOCH + Duration::from_secs(3_000_000_000)
}

#[derive(Clone, Copy, PartialEq)]
enum Mode {
    Ok,
    Early,
    Late,
}

fn obj_url(id: usize) -> String {
    format!("file:///o{}", id)
}

fn make_obj(id: usize, toi: Option<Box<Toi>>, mode: Mode) -> Box<ObjectDesc> {
    use flute::core::{FECEncodingID, Oti};
    let marker = (id + 1) as u16;
    let content: Vec<u8> = (0..48).map(|k| if k % 2 == 0 { (marker >> 8) as u8 } else { marker as u8 }).collect();
    let mut oti = Oti::new_no_code(16, 64);
    if mode == Mode::Late {
        // FileDesc::new refuses a RaptorQ OTI without scheme specific information
        oti.fec_encoding_id = FECEncodingID::RaptorQ;
        oti.scheme_specific = None;
    }
    let mut tc = TransferConfig::default();
    tc.oti = Some(oti);
    tc.transfer_start_time = Some(far_time());
    tc.target_acquisition = Some(TargetAcquisition::WithinDuration(Duration::from_secs(10)));
    tc.toi = toi;
    ObjectDesc::create_from_buffer(
        content,
        "application/octet-stream",
        &url::Url::parse(&obj_url(id)).unwrap(),
        false,
        tc,
    )
    .unwrap()
}

struct World {
    sender: Sender,
    handles: Vec<Option<Box<Toi>>>,
    objs: Vec<Option<u128>>, // value returned by add_object for object j
    now: SystemTime,
}

fn fdt_tois(w: &World) -> String {
    let xml = match w.sender.fdt_xml_data(w.now) {
        Ok(x) => String::from_utf8_lossy(&x).to_string(),
        Err(_) => return "ERR".into(),
    };
    let mut v: Vec<String> = Vec::new();
    let mut rest = xml.as_str();
    while let Some(p) = rest.find(" TOI=\"") {
        let after = &rest[p + 6..];
        let end = after.find('"').unwrap_or(after.len());
        v.push(after[..end].replace(|c: char| c == ',' || c == ';' || c == ' ' || c == '|', "?"));
        rest = &after[end..];
    }
    if v.is_empty() {
        "-".into()
    } else {
        v.join(",")
    }
}

/// read until the sender is idle at w.now; object packets as (object id, parsed TOI, raw field)
fn pump(w: &mut World, seen: &mut Vec<(usize, u128, Vec<u8>)>) -> usize {
    let mut n = 0;
    let mut guard = 0;
    while let Some(data) = w.sender.read(w.now) {
        guard += 1;
        if guard > 200_000 {
            panic!("sender does not quiesce");
        }
        let (raw, hdr_len) = match raw_toi_field(&data) {
            Some(x) => x,
            None => {
                seen.push((0xffff, 0, vec![]));
                continue;
            }
        };
        let (parsed, is_fdt) = match flute::core::alc::parse_alc_pkt(&data) {
            Ok(p) => (p.lct.toi, p.fdt_info.is_some()),
            Err(_) => {
                seen.push((0xfffe, 0, raw));
                continue;
            }
        };
        if is_fdt {
            continue;
        }
        // No-Code payload id is 4 bytes; the payload of every symbol starts with the object's marker
        let pl = hdr_len + 4;
        let id = if data.len() >= pl + 2 {
            (((data[pl] as usize) << 8) | data[pl + 1] as usize).wrapping_sub(1) & 0xffff
        } else {
            0xfffd
        };
        n += 1;
        let rec = (id, parsed, raw);
        if !seen.contains(&rec) {
            seen.push(rec);
        }
    }
    n
}

fn in_fdt_as(w: &World, j: usize) -> Option<u128> {
    let toi = (*w.objs.get(j)?)?;
    let objs = w.sender.get_objects_in_fdt();
    let o = objs.get(&toi)?;
    if o.content_location.as_str() == obj_url(j) {
        Some(toi)
    } else {
        None
    }
}

fn show_pkts(seen: &[(usize, u128, Vec<u8>)]) -> String {
    if seen.is_empty() {
        return "p:-".into();
    }
    let v: Vec<String> = seen.iter().map(|(id, t, raw)| format!("{:x}.{:x}.{}", id, t, hex(raw))).collect();
    format!("p:{}", v.join(","))
}

fn do_op(w: &mut World, t: &str) -> String {
    let num = |k: usize| usize::from_str_radix(&t[k..], 16).unwrap_or(usize::MAX);
    let take = |w: &mut World, i: usize| -> Option<Box<Toi>> { w.handles.get_mut(i).and_then(|s| s.take()) };
    let c0 = t.as_bytes()[0];
    match c0 {
        b'A' => {
            let h = w.sender.allocate_toi();
            let v = h.get();
            w.handles.push(Some(h));
            format!("v:{:x}", v)
        }
        b'D' => {
            drop(take(w, num(1)));
            "n".into()
        }
        b'T' => {
            let h = take(w, num(1));
            std::thread::spawn(move || drop(h)).join().unwrap();
            "n".into()
        }
        b'O' | b'H' => {
            let (mode, k) = match t.as_bytes().get(1) {
                Some(b'E') => (Mode::Early, 2),
                Some(b'L') => (Mode::Late, 2),
                _ => (Mode::Ok, 1),
            };
            let id = w.objs.len();
            let handle = if c0 == b'H' {
                match take(w, num(k)) {
                    Some(h) => Some(h),
                    None => {
                        w.objs.push(None);
                        return "n".into();
                    }
                }
            } else {
                None
            };
            let obj = make_obj(id, handle, mode);
            let prio = if mode == Mode::Early { 7 } else { 0 };
            match w.sender.add_object(prio, obj) {
                Ok(v) => {
                    w.objs.push(Some(v));
                    format!("v:{:x}", v)
                }
                Err(_) => {
                    w.objs.push(None);
                    "e".into()
                }
            }
        }
        b'S' => {
            let j = num(1);
            if let Some(toi) = in_fdt_as(w, j) {
                w.sender.trigger_transfer_at(toi, Some(w.now));
            }
            w.sender.publish(w.now).unwrap();
            let mut seen = Vec::new();
            pump(w, &mut seen);
            show_pkts(&seen)
        }
        b'F' => {
            let j = num(1);
            if let Some(toi) = in_fdt_as(w, j) {
                w.sender.trigger_transfer_at(toi, Some(w.now));
            }
            let mut seen = Vec::new();
            // pacing: a transfer needs simulated time to complete; idle = a round without object packets
            for _ in 0..12 {
                w.now += Duration::from_secs(100);
                w.sender.publish(w.now).unwrap();
                if pump(w, &mut seen) == 0 {
                    break;
                }
            }
            show_pkts(&seen)
        }
        b'R' => {
            let j = num(1);
            if let Some(toi) = in_fdt_as(w, j) {
                w.sender.remove_object(toi);
            }
            "n".into()
        }
        b'C' => {
            let n = u64::from_str_radix(&t[1..], 16).unwrap();
            let mut vals: Vec<String> = Vec::with_capacity(n as usize);
            for _ in 0..n {
                let h = w.sender.allocate_toi();
                vals.push(format!("{:x}", h.get()));
                drop(h);
            }
            if vals.is_empty() {
                "c:-".into()
            } else {
                format!("c:{}", vals.join(","))
            }
        }
        _ => panic!("bad op"),
    }
}

fn run_history(mut w: World, ops: Vec<String>) -> (Vec<String>, Option<World>) {
    let mut outs = Vec::new();
    for t in &ops {
        PROGRESS.fetch_add(1, Ordering::Relaxed);
        let r = catch(|| {
            let r = do_op(&mut w, t);
            let f = fdt_tois(&w);
            format!("{};{}", r, f)
        });
        match r {
            Some(s) => outs.push(s),
            None => {
                outs.push("PANIC".into());
                // the allocator's mutex may be poisoned: dropping a handle would panic again
                std::mem::forget(w);
                return (outs, None);
            }
        }
    }
    (outs, Some(w))
}

pub fn eval(input: &str) -> String {
    let t: Vec<&str> = input.split_whitespace().collect();
    match t[0] {
        "H" => {
            let bits = u64::from_str_radix(t[1], 16).unwrap();
            let init = if t[2] == "R" { None } else { Some(u128::from_str_radix(t[2], 16).unwrap()) };
            let tsi = u64::from_str_radix(t[3], 16).unwrap();
            let thr = t[4].parse::<u32>().unwrap_or(0);
            let ops: Vec<String> = t[5..].iter().map(|s| s.to_string()).collect();
            let mut cfg = Config::default();
            cfg.toi_max_length = width_of(bits);
            cfg.toi_initial_value = init;
            cfg.priority_queues = std::collections::BTreeMap::from([(0, PriorityQueue::new(64))]);
            let ep = UDPEndpoint::new(None, "224.0.0.1".to_string(), 1234);
            let sender = match catch(|| Sender::new(ep, tsi, &flute::core::Oti::default(), &cfg)) {
                Some(s) => s,
                None => return "PANIC".into(),
            };
            let w = World { sender, handles: Vec::new(), objs: Vec::new(), now: base_time() };
            let (outs, left) = if thr == 0 {
                run_history(w, ops)
            } else {
                std::thread::spawn(move || run_history(w, ops)).join().unwrap()
            };
            if let Some(w) = left {
                let World { sender, handles, .. } = w;
                let r = catch(move || {
                    if thr == 2 {
                        drop(handles);
                        drop(sender);
                    } else {
                        drop(sender);
                        drop(handles);
                    }
                });
                if r.is_none() {
                    return format!("{} PANIC", outs.join(" "));
                }
            }
            outs.join(" ")
        }
        "W" => {
            let toi = u128::from_str_radix(t[1], 16).unwrap();
            let tsi = u64::from_str_radix(t[2], 16).unwrap();
            match catch(|| {
                let mut data: Vec<u8> = Vec::new();
                flute::core::lct::push_lct_header(&mut data, 0, &0u128, tsi, &toi, 0, false, false);
                let raw = raw_toi_field(&data).map(|x| x.0);
                let parsed = flute::verif_hooks::lct::parse_lct_header(&data).ok().map(|h| h.toi);
                (raw, parsed)
            }) {
                Some((Some(raw), Some(p))) => format!("{} {:x}", hex(&raw), p),
                Some(_) => "ERR".into(),
                None => "PANIC".into(),
            }
        }
        _ => "BAD".into(),
    }
}

// ------------------------------------------------------------------------------------------
// generators

#[derive(Clone)]
struct Abs {
    nh: usize,
    no: usize,
    handles: Vec<usize>,
    objs: Vec<(usize, u8)>, // 0 queued, 1 sending, 2 sending+removed
}

impl Abs {
    fn new() -> Self {
        Abs { nh: 0, no: 0, handles: vec![], objs: vec![] }
    }
    /// enabled operations that refer to live things only
    fn enabled(&self, fails: bool, threads: bool) -> Vec<String> {
        let mut v = vec!["A".to_string(), "O".to_string()];
        if fails {
            v.push("OL".into());
            v.push("OE".into());
        }
        for &i in &self.handles {
            v.push(format!("D{:x}", i));
            v.push(format!("H{:x}", i));
            if threads {
                v.push(format!("T{:x}", i));
            }
            if fails {
                v.push(format!("HL{:x}", i));
            }
        }
        for &(j, st) in &self.objs {
            if st == 0 {
                v.push(format!("S{:x}", j));
            }
            v.push(format!("F{:x}", j));
            if st != 2 {
                v.push(format!("R{:x}", j));
            }
        }
        v
    }
    fn apply(&mut self, t: &str) {
        let num = |k: usize| usize::from_str_radix(&t[k..], 16).unwrap_or(usize::MAX);
        match t.as_bytes()[0] {
            b'A' => {
                self.handles.push(self.nh);
                self.nh += 1;
            }
            b'D' | b'T' => {
                let i = num(1);
                self.handles.retain(|&x| x != i);
            }
            b'O' => {
                if t == "O" {
                    self.objs.push((self.no, 0));
                }
                self.no += 1;
            }
            b'H' => {
                let (ok, k) = match t.as_bytes()[1] {
                    b'E' | b'L' => (false, 2),
                    _ => (true, 1),
                };
                let i = num(k);
                if self.handles.contains(&i) {
                    self.handles.retain(|&x| x != i);
                    if ok {
                        self.objs.push((self.no, 0));
                    }
                }
                self.no += 1;
            }
            b'S' => {
                let j = num(1);
                for o in self.objs.iter_mut() {
                    if o.0 == j && o.1 == 0 {
                        o.1 = 1;
                    }
                }
            }
            b'F' => {
                let j = num(1);
                self.objs.retain(|o| !(o.1 != 0 || o.0 == j));
            }
            b'R' => {
                let j = num(1);
                self.objs.retain(|o| !(o.0 == j && o.1 == 0));
                for o in self.objs.iter_mut() {
                    if o.0 == j && o.1 == 1 {
                        o.1 = 2;
                    }
                }
            }
            _ => {}
        }
    }
}

fn enumerate(a: &Abs, depth: usize, fails: bool, threads: bool, prefix: &mut Vec<String>, emit: &mut dyn FnMut(&[String])) {
    if depth == 0 {
        emit(prefix);
        return;
    }
    for t in a.enabled(fails, threads) {
        let mut b = a.clone();
        b.apply(&t);
        prefix.push(t);
        enumerate(&b, depth - 1, fails, threads, prefix, emit);
        prefix.pop();
    }
}

fn max_of(bits: u64) -> u128 {
    (1u128 << bits) - 1
}

/// initial values of the property's quantifier (None = random)
fn inits(bits: u64) -> Vec<Option<u128>> {
    let m = max_of(bits);
    let mut v = vec![Some(1), Some(0), Some(m - 2), Some(m - 1), Some(m), None, Some(m + 1), Some(m + 6), Some(u128::MAX), Some(u128::MAX - 1)];
    if bits == 112 {
        v.push(Some(1u128 << 127));
        v.push(Some((1u128 << 112) + (1u128 << 40)));
    }
    v
}

fn show_init(i: Option<u128>) -> String {
    match i {
        Some(v) => format!("{:x}", v),
        None => "R".into(),
    }
}

const WIDTHS: [u64; 6] = [16, 32, 48, 64, 80, 112];
const TSIS: [u64; 4] = [1, 0x10000, 0x1_0000_0001, 0xffff];

fn random_history(rng: &mut Rng, len: usize, a: &mut Abs, stale: bool) -> Vec<String> {
    let mut ops = Vec::new();
    for _ in 0..len {
        let t = if stale && rng.chance(1, 12) {
            // references to handles / objects that are gone or never existed
            let k = rng.below((a.nh.max(a.no) + 3) as u64);
            match rng.below(6) {
                0 => format!("D{:x}", k),
                1 => format!("H{:x}", k),
                2 => format!("S{:x}", k),
                3 => format!("F{:x}", k),
                4 => format!("R{:x}", k),
                _ => format!("T{:x}", k),
            }
        } else {
            let en = a.enabled(true, true);
            // favour allocation-free operations a little less than allocations
            if rng.chance(1, 4) {
                "A".to_string()
            } else {
                rng.pick(&en).clone()
            }
        };
        a.apply(&t);
        ops.push(t);
    }
    ops
}

fn gen(args: &Args, emit: &mut dyn FnMut(String)) {
    // "light" (subcommand toi-light, second run entry of the thorough tier, both build profiles): quick sizes
    let thorough = args.tier == "thorough" && !args.rest.iter().any(|a| a == "light");
    let (shard, nshards) = args.shard;
    let mut rng = Rng::new(args.seed.wrapping_mul(1000003).wrapping_add(shard));
    let mut cfg_index: u64 = 0;
    let mine = |i: u64| i % nshards == shard;

    // (1) every sequence of enabled operations up to a depth, for every width and initial value
    let depth = if thorough { 7 } else { 6 };
    for &bits in &WIDTHS {
        for init in inits(bits) {
            cfg_index += 1;
            if !mine(cfg_index) {
                continue;
            }
            let tsi = TSIS[(cfg_index % 4) as usize];
            // deeper for the allocator-critical corners, shallower elsewhere
            let m = max_of(bits);
            let corner = matches!(init, Some(v) if v == m - 1) || init.is_none();
            let d = if corner { depth } else { depth - 1 };
            let mut a = Abs::new();
            let mut prefix: Vec<String> = Vec::new();
            let mut dd = d;
            if init.is_none() {
                // the random draw is observed through the first allocation
                a.apply("A");
                prefix.push("A".into());
                dd -= 1;
            }
            let head = format!("H {:x} {} {:x} 0", bits, show_init(init), tsi);
            enumerate(&a, dd, false, false, &mut prefix, &mut |ops: &[String]| {
                emit(format!("{} {}", head, ops.join(" ")));
            });
            // refused add_object calls and drops on other threads, one level shallower
            let mut a = Abs::new();
            let mut prefix: Vec<String> = Vec::new();
            let mut dd = d - 1;
            if init.is_none() {
                a.apply("A");
                prefix.push("A".into());
                dd -= 1;
            }
            let thr = 1 + (cfg_index % 2);
            let head = format!("H {:x} {} {:x} {}", bits, show_init(init), tsi, thr);
            enumerate(&a, dd, true, true, &mut prefix, &mut |ops: &[String]| {
                if ops.iter().any(|t| t.starts_with('T') || t.contains('L') || t.contains('E')) {
                    emit(format!("{} {}", head, ops.join(" ")));
                }
            });
        }
    }

    // (2) seeded longer histories, with stale references
    let count = if thorough { 60_000 } else { 4_000 };
    for k in 0..count {
        let bits = *rng.pick(&WIDTHS);
        let ins = inits(bits);
        let init = *rng.pick(&ins);
        let tsi = *rng.pick(&TSIS);
        let thr = if rng.chance(1, 5) { rng.range(1, 2) } else { 0 };
        let len = rng.range(6, if thorough { 80 } else { 40 }) as usize;
        let mut a = Abs::new();
        let mut ops: Vec<String> = Vec::new();
        if init.is_none() {
            a.apply("A");
            ops.push("A".into());
        }
        ops.extend(random_history(&mut rng, len, &mut a, true));
        if mine(k) {
            emit(format!("H {:x} {} {:x} {} {}", bits, show_init(init), tsi, thr, ops.join(" ")));
        }
    }

    // (3) wrap-around with live values in the way: only a 16-bit space can be cycled
    let cyc = if thorough { 240 } else { 24 };
    for k in 0..cyc {
        let init = match k % 6 {
            0 => Some(1u128),
            1 => Some(0xfffe),
            2 => Some(0x8000 + rng.below(0x1000) as u128),
            3 => None,
            4 => Some(0xffff),
            _ => Some(rng.below(0x1_0000) as u128),
        };
        let mut a = Abs::new();
        let mut ops: Vec<String> = Vec::new();
        if init.is_none() {
            a.apply("A");
            ops.push("A".into());
        }
        let pre = rng.range(3, 9) as usize;
        ops.extend(random_history(&mut rng, pre, &mut a, false));
        let n = match k % 4 {
            0 => 65_520 + rng.below(16),
            1 => 65_530 + rng.below(12),
            2 => 131_050 + rng.below(30),
            _ => 65_535 - rng.below(4),
        };
        ops.push(format!("C{:x}", n));
        let post = rng.range(4, 10) as usize;
        ops.extend(random_history(&mut rng, post, &mut a, false));
        if mine(k) {
            emit(format!("H 10 {} {:x} 0 {}", show_init(init), *rng.pick(&TSIS), ops.join(" ")));
        }
    }
    //     directed: an object removed WHILE it is being transmitted keeps its TOI until the transfer has ended;
    //     the counter is then cycled back onto that TOI and more TOIs are taken (handles and objects)
    let dirn = if thorough { 96 } else { 16 };
    for k in 0..dirn {
        let init = match k % 4 {
            0 => Some(1u128),
            1 => Some(0xfffe),
            2 => None,
            _ => Some(rng.below(0x1_0000) as u128),
        };
        let mut a = Abs::new();
        let mut ops: Vec<String> = Vec::new();
        for t in ["O", "O", "S0", "R0", "S1"] {
            a.apply(t);
            ops.push(t.to_string());
        }
        if k % 3 == 0 {
            a.apply("R1");
            ops.push("R1".into());
        }
        let n = 65_529 + (k as u64 % 8);
        ops.push(format!("C{:x}", n));
        for t in ["A", "O", "A", "A", "O", "A", "A", "O"] {
            a.apply(t);
            ops.push(t.to_string());
        }
        let post = rng.range(2, 6) as usize;
        ops.extend(random_history(&mut rng, post, &mut a, false));
        if mine(k) {
            emit(format!("H 10 {} {:x} 0 {}", show_init(init), *rng.pick(&TSIS), ops.join(" ")));
        }
    }
    //     and short churns across the wrap for the wider spaces
    let wr = if thorough { 600 } else { 60 };
    for k in 0..wr {
        let bits = WIDTHS[(k % 6) as usize];
        let m = max_of(bits);
        let init = Some(m - rng.below(60) as u128);
        let mut a = Abs::new();
        let pre = rng.range(0, 6) as usize;
        let mut ops = random_history(&mut rng, pre, &mut a, false);
        ops.push(format!("C{:x}", rng.range(1, 200)));
        let post = rng.range(2, 8) as usize;
        ops.extend(random_history(&mut rng, post, &mut a, false));
        if mine(k) {
            emit(format!("H {:x} {} {:x} 0 {}", bits, show_init(init), *rng.pick(&TSIS), ops.join(" ")));
        }
    }

    // (4) TOI field width selection of push_lct_header: every size class boundary x TSI class
    if shard == 0 {
        let tsis: [u64; 9] = [0, 1, 0xffff, 0x10000, 0xffff_ffff, 0x1_0000_0000, 0xffff_ffff_ffff, 1 << 48, u64::MAX];
        for &tsi in &tsis {
            for k in 0..8u32 {
                let lo: u128 = if k == 0 { 0 } else { 1u128 << (16 * k) };
                let hi: u128 = if k == 7 { u128::MAX } else { (1u128 << (16 * (k + 1))) - 1 };
                for v in [lo, lo + 1, hi - 1, hi, lo + (hi - lo) / 2, lo | 0xff, hi ^ 0xff00] {
                    emit(format!("W {:x} {:x}", v, tsi));
                }
            }
            emit(format!("W {:x} {:x}", u128::MAX, tsi));
        }
        let n = if thorough { 40_000 } else { 5_000 };
        for _ in 0..n {
            let bits = rng.range(1, 128);
            let v = ((rng.next() as u128) << 64 | rng.next() as u128) >> (128 - bits);
            emit(format!("W {:x} {:x}", v, *rng.pick(&tsis)));
        }
    }
}

pub fn run(args: &Args) {
    // watchdog: an operation that does not return (allocation loop that never ends) stops the run
    std::thread::spawn(|| {
        let mut last = PROGRESS.load(Ordering::Relaxed);
        let mut still = 0;
        loop {
            std::thread::sleep(Duration::from_secs(5));
            let cur = PROGRESS.load(Ordering::Relaxed);
            if cur == last {
                still += 1;
                if still >= 12 {
                    eprintln!("HANG: no progress for 60 s after {} operations", cur);
                    std::process::exit(3);
                }
            } else {
                still = 0;
                last = cur;
            }
        }
    });
    let mut tr = Trace::new(args.out.as_deref());
    if let Some(rp) = &args.replay {
        for line in std::fs::read_to_string(rp).unwrap().lines() {
            let input = line.split('|').next().unwrap().trim();
            if input.is_empty() || input.starts_with('#') {
                continue;
            }
            PROGRESS.fetch_add(1, Ordering::Relaxed);
            tr.line(&format!("{} | {}", input, eval(input)));
        }
    } else {
        gen(args, &mut |input: String| {
            PROGRESS.fetch_add(1, Ordering::Relaxed);
            let out = eval(&input);
            tr.line(&format!("{} | {}", input, out));
        });
    }
    tr.finish();
}
