//! Receiver sessions (C09, C03, C17 and the receiver part of C01/C02/C04/C16):
//! a real Sender produces the genuine packets of a session, a channel transforms them, a real
//! Receiver with a monitoring, scriptable writer builder consumes them.
//!
//! Input (one session per line), `;`-separated sections:
//!   V k=v ...           fec e b par cenc fti icenc mode il once maxerr cache exp md5 tc bld opn wrf
//!   O <len> <pat> <nocache> <md5>        one object (several O sections allowed)
//!   X <channel> <seed> [args]            all | perm | sub <keep%> | dup | lossdup | flip <n> | trunc <n> | late <skip>
//!   E <events>                           comma list:  cleanup@<i>  drop@<i>   (i = index in the pushed sequence)
//! Output tokens, in order of occurrence:
//!   F~<xmlhex>~<instance>                oracle table: FdtInstance::parse of every genuine FDT instance
//!   G~<toi>~<cenc>~<transferhex>~<contenthex>   ground truth of every object
//!   D~toi~flags~fdtid~cp~oti~cenc~sct~pidhex~payloadhex~datalen~<Ok|Err|PANIC>
//!   U~<Ok|Err|PANIC>                     datagram flute's parser rejects (or foreign TSI)
//!   c~<ev>...                            writer-builder / writer callbacks caused by the previous event
//!   K~<now>~<tois>  (cleanup)   Z (drop)   Q~nbobj~nberr (queries after each event)
use crate::util::*;
use flute::core::lct::Cenc;
use flute::core::{Oti, UDPEndpoint};
use flute::receiver::writer::{
    ObjectMetadata, ObjectWriter, ObjectWriterBuilder, ObjectWriterBuilderResult,
};
use flute::receiver::{Config as RConfig, Receiver};
use flute::sender::{CacheControl, Config as SConfig, FDTPublishMode, ObjectDesc, Sender, TransferConfig};
use std::cell::RefCell;
use std::collections::HashMap;
use std::rc::Rc;
use std::time::{Duration, SystemTime, UNIX_EPOCH};

const BASE_S: u64 = 1_700_000_000;
fn t_ms(ms: u64) -> SystemTime {
    UNIX_EPOCH + Duration::from_secs(BASE_S) + Duration::from_millis(ms)
}

#[derive(Default)]
struct Script {
    builder: Vec<char>, // S store, A already received, X abort ; last one repeats
    open: Vec<bool>,
    write_fail_at: Option<usize>,
    md5: bool,
}

struct Shared {
    log: Vec<String>,
    created: HashMap<u128, usize>,
    script: Script,
}

struct MonBuilder {
    sh: Rc<RefCell<Shared>>,
}
struct MonWriter {
    sh: Rc<RefCell<Shared>>,
    toi: u128,
    n: usize,
    writes: RefCell<usize>,
    open_ok: bool,
    md5: bool,
}

impl std::fmt::Debug for MonWriter {
    fn fmt(&self, f: &mut std::fmt::Formatter<'_>) -> std::fmt::Result {
        write!(f, "MonWriter")
    }
}

impl ObjectWriterBuilder for MonBuilder {
    fn new_object_writer(
        &self,
        _endpoint: &UDPEndpoint,
        _tsi: &u64,
        toi: &u128,
        _meta: &ObjectMetadata,
        _now: SystemTime,
    ) -> ObjectWriterBuilderResult {
        let mut sh = self.sh.borrow_mut();
        let n = *sh.created.get(toi).unwrap_or(&0);
        sh.created.insert(*toi, n + 1);
        let ans = if sh.script.builder.is_empty() { 'S' } else { sh.script.builder[n.min(sh.script.builder.len() - 1)] };
        sh.log.push(format!("c~B~{:x}~{}", toi, ans));
        sh.log.push(format!(
            "c~M~{:x}~{}~{}",
            toi,
            n,
            meta_desc(
                &_meta.content_location,
                _meta.content_type.as_deref(),
                _meta.content_length.map(|x| x as u64),
                _meta.transfer_length.map(|x| x as u64),
                _meta.md5.as_deref(),
                _meta.groups.as_deref(),
                _meta.e_tag.as_deref(),
                &match _meta.cache_control {
                    flute::receiver::writer::ObjectCacheControl::NoCache => "N".to_string(),
                    flute::receiver::writer::ObjectCacheControl::MaxStale => "S".to_string(),
                    flute::receiver::writer::ObjectCacheControl::ExpiresAt(t) => format!("E{}", t.duration_since(UNIX_EPOCH).map(|d| d.as_secs()).unwrap_or(0)),
                    flute::receiver::writer::ObjectCacheControl::ExpiresAtHint(_) => "H".to_string(),
                }
            )
        ));
        match ans {
            'A' => ObjectWriterBuilderResult::ObjectAlreadyReceived,
            'X' => ObjectWriterBuilderResult::Abort,
            _ => {
                let open_ok = if sh.script.open.is_empty() { true } else { sh.script.open[n.min(sh.script.open.len() - 1)] };
                let md5 = sh.script.md5;
                ObjectWriterBuilderResult::StoreObject(Box::new(MonWriter {
                    sh: self.sh.clone(),
                    toi: *toi,
                    n,
                    writes: RefCell::new(0),
                    open_ok,
                    md5,
                }))
            }
        }
    }
    fn update_cache_control(&self, _e: &UDPEndpoint, _tsi: &u64, _toi: &u128, _meta: &ObjectMetadata, _now: SystemTime) {}
    fn fdt_received(
        &self,
        _e: &UDPEndpoint,
        _tsi: &u64,
        _xml: &str,
        _expires: SystemTime,
        _meta: &ObjectMetadata,
        _d: Duration,
        _now: SystemTime,
        _ext: Option<SystemTime>,
    ) {
    }
}

impl ObjectWriter for MonWriter {
    fn open(&self, _now: SystemTime) -> flute::error::Result<()> {
        self.sh.borrow_mut().log.push(format!("c~O~{:x}~{}~{}", self.toi, self.n, if self.open_ok { 1 } else { 0 }));
        if self.open_ok {
            Ok(())
        } else {
            Err(flute::error::FluteError::new("scripted open failure"))
        }
    }
    fn write(&self, _sbn: u32, data: &[u8], _now: SystemTime) -> flute::error::Result<()> {
        let k = *self.writes.borrow();
        *self.writes.borrow_mut() += 1;
        let fail = self.sh.borrow().script.write_fail_at == Some(k);
        self.sh.borrow_mut().log.push(format!("c~W~{:x}~{}~{}~{}", self.toi, self.n, hex(data), if fail { 0 } else { 1 }));
        if fail {
            Err(flute::error::FluteError::new("scripted write failure"))
        } else {
            Ok(())
        }
    }
    fn complete(&self, _now: SystemTime) {
        self.sh.borrow_mut().log.push(format!("c~C~{:x}~{}", self.toi, self.n));
    }
    fn error(&self, _now: SystemTime) {
        self.sh.borrow_mut().log.push(format!("c~E~{:x}~{}", self.toi, self.n));
    }
    fn interrupted(&self, _now: SystemTime) {
        self.sh.borrow_mut().log.push(format!("c~I~{:x}~{}", self.toi, self.n));
    }
    fn enable_md5_check(&self) -> bool {
        self.md5
    }
}

#[allow(clippy::too_many_arguments)]
fn meta_desc(
    cl: &str,
    ctype: Option<&str>,
    clen: Option<u64>,
    tlen: Option<u64>,
    md5: Option<&str>,
    groups: Option<&[String]>,
    etag: Option<&str>,
    cache: &str,
) -> String {
    let h = |o: Option<&str>| o.map(|x| hex(x.as_bytes())).unwrap_or("-".into());
    format!(
        "{}~{}~{}~{}~{}~{}~{}~{}",
        hex(cl.as_bytes()),
        h(ctype),
        clen.map(|x| format!("{:x}", x)).unwrap_or("-".into()),
        tlen.map(|x| format!("{:x}", x)).unwrap_or("-".into()),
        h(md5),
        groups.map(|g| if g.is_empty() { "-".to_string() } else { g.iter().map(|x| hex(x.as_bytes())).collect::<Vec<_>>().join(".") }).unwrap_or("-".into()),
        h(etag),
        cache
    )
}

fn kv<'a>(toks: &'a [&'a str]) -> HashMap<&'a str, &'a str> {
    toks.iter().filter_map(|t| t.split_once('=')).collect()
}

fn cenc_of(s: &str) -> Cenc {
    match s {
        "zlib" => Cenc::Zlib,
        "deflate" => Cenc::Deflate,
        "gzip" => Cenc::Gzip,
        _ => Cenc::Null,
    }
}
fn cenc_name(c: &Cenc) -> &'static str {
    match c {
        Cenc::Null => "null",
        Cenc::Zlib => "zlib",
        Cenc::Deflate => "deflate",
        Cenc::Gzip => "gzip",
    }
}

fn oti_desc(o: &Oti) -> String {
    use flute::verif_hooks::oti::SchemeSpecific;
    let scheme = match &o.scheme_specific {
        Some(SchemeSpecific::RaptorQ(s)) => format!("{:x}.{:x}.{:x}", s.source_blocks_length, s.sub_blocks_length, s.symbol_alignment),
        Some(SchemeSpecific::Raptor(s)) => format!("{:x}.{:x}.{:x}", s.source_blocks_length, s.sub_blocks_length, s.symbol_alignment),
        Some(SchemeSpecific::ReedSolomon(_)) => "rs".to_string(),
        None => "-".to_string(),
    };
    format!("{:x},{:x},{:x},{:x},{}", o.fec_encoding_id as u8, o.encoding_symbol_length, o.maximum_source_block_length, o.max_number_of_parity_symbols, scheme)
}

fn describe_datagram(data: &[u8], tsi: u64) -> Option<String> {
    let pkt = flute::core::alc::parse_alc_pkt(data).ok()?;
    if pkt.lct.tsi != tsi {
        return None;
    }
    let flags = (if pkt.lct.close_object { 1 } else { 0 }) + (if pkt.lct.close_session { 2 } else { 0 });
    let fdtid = pkt.fdt_info.as_ref().map(|f| format!("{:x}", f.fdt_instance_id)).unwrap_or("-".into());
    let oti = match (&pkt.oti, pkt.transfer_length) {
        (Some(o), Some(l)) => format!("{},{:x}", oti_desc(o), l),
        _ => "-".into(),
    };
    let cenc = pkt.cenc.as_ref().map(|c| cenc_name(c).to_string()).unwrap_or("-".into());
    let sct = match flute::core::alc::get_sender_current_time(&pkt) {
        Ok(Some(t)) => format!("{}", t.duration_since(UNIX_EPOCH).map(|d| d.as_nanos() as i128).unwrap_or(-1)),
        _ => "-".into(),
    };
    Some(format!(
        "{:x}~{}~{}~{:x}~{}~{}~{}~{}~{}~{:x}",
        pkt.lct.toi,
        flags,
        fdtid,
        pkt.lct.cp,
        oti,
        cenc,
        sct,
        hex(&data[pkt.data_alc_header_offset..pkt.data_payload_offset]),
        // the payload of a flood datagram (tens of kB of zeros, never decoded) is not spelled out:
        // the model accounts the datagram by its length
        // (above 20000 bytes: nothing; above 4096 bytes: z<length>, the model gets that many zero bytes)
        if data.len() - pkt.data_payload_offset > 20000 {
            String::new()
        } else if data.len() - pkt.data_payload_offset > 4096 {
            format!("z{:x}", data.len() - pkt.data_payload_offset)
        } else {
            hex(&data[pkt.data_payload_offset..])
        },
        data.len()
    ))
}

/// a copy of an FDT packet carrying instance id `id`, WITHOUT its EXT_FTI and with `len` payload bytes:
/// the receiver can only cache it (no OTI), per instance id, up to the 1 MiB limit of the FDT object
fn fdt_flood_pkt(template: &[u8], id: u32, len: usize) -> Option<Vec<u8>> {
    let c = ((template[0] >> 2) & 3) as usize;
    let s = ((template[1] >> 7) & 1) as usize;
    let o = ((template[1] >> 5) & 3) as usize;
    let h = ((template[1] >> 4) & 1) as usize;
    let ext_off = 4 + (c + 1) * 4 + s * 4 + h * 2 + o * 4 + h * 2;
    let hdr_len = (template[2] as usize) * 4;
    if ext_off > hdr_len || hdr_len > template.len() {
        return None;
    }
    let mut out = template[..ext_off].to_vec();
    let mut p = ext_off;
    let mut has_fdt = false;
    while p + 4 <= hdr_len {
        let het = template[p];
        let l = if het >= 128 { 4 } else { (template[p + 1] as usize) * 4 };
        if l == 0 || p + l > hdr_len {
            return None;
        }
        if het == 192 {
            // EXT_FDT: version nibble kept, 20-bit instance id replaced
            out.extend_from_slice(&[192, (template[p + 1] & 0xF0) | ((id >> 16) & 0x0F) as u8, (id >> 8) as u8, id as u8]);
            has_fdt = true;
        } else if het != 64 {
            out.extend_from_slice(&template[p..p + l]);
        }
        p += l;
    }
    if !has_fdt {
        return None;
    }
    out[2] = (out.len() / 4) as u8;
    out.extend_from_slice(&[0, 0, 0, 0]); // FEC payload id (sbn 0, esi 0)
    out.extend(std::iter::repeat(0u8).take(len));
    flute::core::alc::parse_alc_pkt(&out).ok().filter(|q| q.lct.toi == 0 && q.oti.is_none())?;
    Some(out)
}

/// a copy of an FDT packet with its 20-bit FDT instance id replaced (everything else kept)
fn fdt_reid_pkt(template: &[u8], id: u32) -> Option<Vec<u8>> {
    let c = ((template[0] >> 2) & 3) as usize;
    let s = ((template[1] >> 7) & 1) as usize;
    let o = ((template[1] >> 5) & 3) as usize;
    let h = ((template[1] >> 4) & 1) as usize;
    let ext_off = 4 + (c + 1) * 4 + s * 4 + h * 2 + o * 4 + h * 2;
    let hdr_len = (template[2] as usize) * 4;
    if ext_off > hdr_len || hdr_len > template.len() {
        return None;
    }
    let mut out = template.to_vec();
    let mut p = ext_off;
    while p + 4 <= hdr_len {
        let het = template[p];
        let l = if het >= 128 { 4 } else { (template[p + 1] as usize) * 4 };
        if l == 0 || p + l > hdr_len {
            return None;
        }
        if het == 192 {
            out[p + 1] = (template[p + 1] & 0xF0) | ((id >> 16) & 0x0F) as u8;
            out[p + 2] = (id >> 8) as u8;
            out[p + 3] = id as u8;
            return Some(out);
        }
        p += l;
    }
    None
}

fn instance_desc(xml: &[u8]) -> String {
    use flute::verif_hooks::fdtinstance::FdtInstance;
    match catch(|| FdtInstance::parse(xml)) {
        None => "PANIC".into(),
        Some(Err(_)) => "ERR".into(),
        Some(Ok(inst)) => {
            let r = catch(|| {
                let exp = match inst.expires.parse::<u32>() {
                    Ok(s) if (s as u64) >= 2208988800 => format!("{}", ((s as u64) - 2208988800) as i128 * 1_000_000_000),
                    _ => "-".to_string(),
                };
                let ioti = inst.get_oti().map(|o| oti_desc(&o)).unwrap_or("-".into());
                let fdt_exp = inst.get_expiration_date();
                let files: Vec<String> = inst
                    .file
                    .as_ref()
                    .map(|v| v.as_slice())
                    .unwrap_or(&[])
                    .iter()
                    .map(|f| {
                        let cenc: Cenc = match &f.content_encoding {
                            Some(s) => s.as_str().try_into().unwrap_or(Cenc::Null),
                            None => Cenc::Null,
                        };
                        let nocache = f.get_object_cache_control(fdt_exp) == flute::receiver::writer::ObjectCacheControl::NoCache;
                        format!(
                            "{}:{}:{}:{:x}:{}:{}:{}",
                            f.toi.parse::<u128>().map(|t| format!("{:x}", t)).unwrap_or("bad".into()),
                            cenc_name(&cenc),
                            f.get_oti().map(|o| oti_desc(&o)).unwrap_or("-".into()),
                            f.get_transfer_length(),
                            f.content_md5.as_ref().map(|m| hex(m.as_bytes())).unwrap_or("-".into()),
                            f.content_length.map(|c| format!("{:x}", c)).unwrap_or("-".into()),
                            if nocache { 1 } else { 0 }
                        )
                    })
                    .collect();
                format!("{}/{}/{}", exp, ioti, if files.is_empty() { "-".to_string() } else { files.join("+") })
            });
            r.unwrap_or("PANIC".into())
        }
    }
}

pub struct Session {
    pub genuine: Vec<Vec<u8>>,
    pub tables: Vec<String>,
    pub tois: Vec<u128>,
    pub contents: Vec<Vec<u8>>,
}

pub fn make_oti(c: &HashMap<&str, &str>) -> Option<Oti> {
    let e: u16 = c.get("e").and_then(|x| x.parse().ok()).unwrap_or(16);
    let b: u32 = c.get("b").and_then(|x| x.parse().ok()).unwrap_or(4);
    let par: u32 = c.get("par").and_then(|x| x.parse().ok()).unwrap_or(0);
    let mut oti = crate::c08::make_oti(c.get("fec").copied().unwrap_or("nocode"), e, b, par)?;
    oti.inband_fti = c.get("fti").copied().unwrap_or("1") == "1";
    Some(oti)
}

/// Build the genuine packet list of a session with the real sender.
pub fn build_session(c: &HashMap<&str, &str>, objs: &[Vec<&str>]) -> Option<Session> {
    let obj_oti = make_oti(c)?;
    let mut scfg = SConfig::default();
    scfg.fdt_publish_mode = if c.get("mode").copied().unwrap_or("full") == "full" { FDTPublishMode::FullFDT } else { FDTPublishMode::ObjectsBeingTransferred };
    scfg.interleave_blocks = c.get("il").and_then(|x| x.parse().ok()).unwrap_or(1);
    scfg.toi_max_length = flute::sender::TOIMaxLength::ToiMax32;
    scfg.toi_initial_value = Some(1);
    scfg.fdt_inband_sct = c.get("sct").copied().unwrap_or("1") == "1";
    scfg.fdt_duration = Duration::from_secs(c.get("fdtdur").and_then(|x| x.parse().ok()).unwrap_or(3600));
    scfg.fdt_carousel_mode = flute::sender::CarouselRepeatMode::DelayBetweenTransfers(Duration::from_secs(3600));
    // the FDT always travels with a roomy No-Code OTI so that tiny object OTIs do not explode it
    let fdte: u16 = c.get("fdte").and_then(|x| x.parse().ok()).unwrap_or(1400);
    let session_oti = Oti::new_no_code(fdte, 64);
    let ep = UDPEndpoint::new(None, "224.0.0.1".to_string(), 1234);
    if let Some(pq) = c.get("pq") {
        scfg.priority_queues.clear();
        for item in pq.split(',') {
            let kvp: Vec<&str> = item.split(':').collect();
            scfg.priority_queues.insert(kvp[0].parse().ok()?, flute::sender::PriorityQueue::new(kvp.get(1).and_then(|x| x.parse().ok()).unwrap_or(1)));
        }
    }
    if let Some(g) = c.get("sgroups") {
        scfg.groups = Some(g.split(',').map(|x| x.to_string()).collect());
    }
    if let Some(fc) = c.get("fcar") {
        scfg.fdt_carousel_mode = flute::sender::CarouselRepeatMode::DelayBetweenTransfers(Duration::from_millis(fc.parse().ok()?));
    }
    let mut sender = Sender::new(ep, 1, &session_oti, &scfg);
    let tc_count: u32 = c.get("tc").and_then(|x| x.parse().ok()).unwrap_or(1);
    let cenc = cenc_of(c.get("cenc").copied().unwrap_or("null"));
    let car = c.get("car").copied().unwrap_or("n");
    let src = c.get("src").copied().unwrap_or("buf");
    let mut tois = Vec::new();
    let mut contents = Vec::new();
    let mut tables = Vec::new();
    let mut tmpfiles: Vec<std::path::PathBuf> = Vec::new();
    for (i, o) in objs.iter().enumerate() {
        let len: usize = o[1].parse().ok()?;
        let pat: usize = o[2].parse().ok()?;
        let content: Vec<u8> = (0..len).map(|k| ((k * 7 + pat * 13 + (k / 5)) % 251) as u8).collect();
        let mut tc = TransferConfig::default();
        tc.max_transfer_count = tc_count;
        tc.cenc = cenc;
        tc.inband_cenc = c.get("icenc").copied().unwrap_or("0") == "1";
        tc.oti = Some(obj_oti.clone());
        tc.carousel_mode = match &car[0..1] {
            "d" => Some(flute::sender::CarouselRepeatMode::DelayBetweenTransfers(Duration::from_millis(car[1..].parse().ok()?))),
            "i" => Some(flute::sender::CarouselRepeatMode::IntervalBetweenStartTimes(Duration::from_millis(car[1..].parse().ok()?))),
            _ => None,
        };
        let nocache = o.get(3).copied().unwrap_or("0") == "1";
        let md5 = o.get(4).copied().unwrap_or("1") == "1";
        let prio: u32 = o.get(5).and_then(|x| x.parse().ok()).unwrap_or(0);
        let variant: usize = o.get(6).and_then(|x| x.parse().ok()).unwrap_or(0);
        // metadata variants (content type, groups, ETag, cache directive)
        let ctype = ["a/b", "text/plain; charset=utf-8", "application/x-\u{e9}t\u{e9}", "x/&<>\"'"][variant % 4];
        if variant / 4 % 2 == 1 {
            tc.groups = Some(vec!["g1".to_string(), format!("grp&{}", i)]);
        }
        if variant / 8 % 2 == 1 {
            tc.e_tag = Some(format!("\"etag-{}\"", pat));
        }
        let cache_desc = if nocache {
            tc.cache_control = Some(CacheControl::NoCache);
            "N".to_string()
        } else {
            match variant / 16 % 3 {
                1 => {
                    tc.cache_control = Some(CacheControl::MaxStale);
                    "S".to_string()
                }
                2 => {
                    let at = UNIX_EPOCH + Duration::from_secs(BASE_S + 5000 + i as u64);
                    tc.cache_control = Some(CacheControl::ExpiresAt(at));
                    format!("E{}", BASE_S + 5000 + i as u64)
                }
                _ => "H".to_string(),
            }
        };
        let groups_given = tc.groups.clone();
        let etag_given = tc.e_tag.clone();
        let url = url::Url::parse(&format!("file:///dir%20{}/obj{}?q=a&b=<{}>", variant, i, pat)).unwrap();
        let obj = match src {
            "stream" => {
                // (a content encoding on a stream source: D45 - refused when the object is created since the fix)
                let cs = Box::new(crate::c08::ChunkStream { data: content.clone(), pos: 0, sched: vec![3, 1, 7, 2, 5], i: 0, armed: true });
                ObjectDesc::create_from_stream(cs, ctype, &url, md5, tc).ok()?
            }
            "file" => {
                if cenc != Cenc::Null {
                    return None;
                }
                let path = std::env::temp_dir().join(format!("fluteh-c01-{}-{}-{}.bin", std::process::id(), i, pat));
                std::fs::write(&path, &content).ok()?;
                tmpfiles.push(path.clone());
                ObjectDesc::create_from_file(&path, Some(&url), ctype, false, md5, tc).ok()?
            }
            _ => ObjectDesc::create_from_buffer(content.clone(), ctype, &url, md5, tc).ok()?,
        };
        let transfer = match &obj.source {
            flute::sender::ObjectDataSource::Buffer(b) => b.clone(),
            _ => content.clone(),
        };
        let md5_given = obj.md5.clone();
        let (clen_given, tlen_given) = (obj.content_length, obj.transfer_length);
        match sender.add_object(prio, obj) {
            Ok(toi) => {
                tables.push(format!("G~{:x}~{}~{}~{}", toi, cenc_name(&cenc), hex(&transfer), hex(&content)));
                // what the sender was given, in the vocabulary of the writer's metadata
                let all_groups: Option<Vec<String>> = {
                    let mut g: Vec<String> = c.get("sgroups").map(|x| x.split(',').map(|y| y.to_string()).collect()).unwrap_or_default();
                    if let Some(gg) = &groups_given {
                        g.extend(gg.iter().cloned());
                    }
                    if g.is_empty() { None } else { Some(g) }
                };
                tables.push(format!(
                    "A~{:x}~{}~{}",
                    toi,
                    tc_count,
                    meta_desc(url.as_str(), Some(ctype), Some(clen_given), Some(tlen_given), md5_given.as_deref(), all_groups.as_deref(), etag_given.as_deref(), &cache_desc)
                ));
                tois.push(toi);
                contents.push(content);
            }
            Err(_) => {
                tables.push(format!("R~{}~{:x}", i, tlen_given));
            }
        }
    }
    let mut now = 0u64;
    sender.publish(t_ms(now)).ok()?;
    let mut genuine: Vec<Vec<u8>> = Vec::new();
    let mut idle = 0;
    let maxpk: usize = c.get("maxpk").and_then(|x| x.parse().ok()).unwrap_or(20000);
    let idle_max: u64 = c.get("idlems").and_then(|x| x.parse::<u64>().ok()).map(|ms| ms / 10 + 3).unwrap_or(3);
    while idle < idle_max {
        match sender.read(t_ms(now)) {
            Some(d) => {
                genuine.push(d);
                idle = 0;
                if genuine.len() >= maxpk {
                    break;
                }
            }
            None => {
                idle += 1;
                now += 10;
            }
        }
    }
    for p in tmpfiles {
        let _ = std::fs::remove_file(p);
    }
    // optional rewrite of the FDT instances (a foreign sender): fdtmut=nooti strips every FEC-OTI
    // attribute, fdtmut=notl strips Transfer-Length; the instance is re-packetised with flute's own
    // new_alc_pkt in place of its first packet
    let fdtmut = c.get("fdtmut").copied().unwrap_or("-");
    if fdtmut == "clmd5" {
        // payload altered in transit under a content encoding: what the packets inflate to (the object the
        // harness gave the sender) is the announced content FOLLOWED BY extra bytes; the FDT describes only
        // its first half (Content-Length, Content-MD5).  Only the MD5 can tell: the object must end in error.
        if let (Some(toi), Some(full)) = (tois.first(), contents.first()) {
            let x = full[..full.len() / 2].to_vec();
            let d = ObjectDesc::create_from_buffer(x.clone(), "a/b", &url::Url::parse("file:///x").unwrap(), true, Default::default()).ok()?;
            let how = format!("clmd5:{}:{}", x.len(), d.md5.clone().unwrap_or_default());
            genuine = rewrite_fdt(&genuine, &session_oti, &how);
            tables.push(format!("C~{:x}~{}", toi, hex(&x)));
        }
    } else if fdtmut != "-" {
        genuine = rewrite_fdt(&genuine, &session_oti, fdtmut);
    }
    // optional rewrite of the object packets (a foreign sender): pktmut=ftilast re-encodes every
    // object packet WITHOUT EXT_FTI and appends a copy of the last one WITH EXT_FTI whose source
    // block number is out of range
    if c.get("pktmut").copied().unwrap_or("-") == "ftilast" {
        genuine = rewrite_pkts_ftilast(&genuine, &obj_oti);
    }
    // FDT oracle table: reassemble every instance from the genuine TOI-0 packets
    let mut parts: HashMap<u32, std::collections::BTreeMap<(u32, u32), Vec<u8>>> = HashMap::new();
    for d in &genuine {
        if let Ok(p) = flute::core::alc::parse_alc_pkt(d) {
            if p.lct.toi == 0 {
                if let (Some(fi), Ok(pid)) = (p.fdt_info.as_ref(), flute::core::alc::parse_payload_id(&p, &session_oti)) {
                    parts.entry(fi.fdt_instance_id).or_default().insert((pid.sbn, pid.esi), d[p.data_payload_offset..].to_vec());
                }
            }
        }
    }
    for (id, m) in parts {
        let xml: Vec<u8> = m.values().flat_map(|v| v.iter().copied()).collect();
        tables.push(format!("F~{}~{}~{:x}~{:x}", hex(&xml), instance_desc(&xml), id, m.len()));
    }
    Some(Session { genuine, tables, tois, contents })
}

fn strip_attrs(xml: &str, prefix: &str) -> String {
    let mut out = String::new();
    let mut rest = xml;
    let pat = format!(" {}", prefix);
    while let Some(i) = rest.find(&pat) {
        out.push_str(&rest[..i]);
        let after = &rest[i + 1..];
        // skip  name="value"
        match after.find('"') {
            Some(q1) => match after[q1 + 1..].find('"') {
                Some(q2) => rest = &after[q1 + 1 + q2 + 1..],
                None => {
                    rest = "";
                }
            },
            None => {
                rest = "";
            }
        }
    }
    out.push_str(rest);
    out
}

fn rewrite_pkts_ftilast(g: &[Vec<u8>], obj_oti: &Oti) -> Vec<Vec<u8>> {
    use flute::verif_hooks::{alc, pkt};
    let mut no_fti = obj_oti.clone();
    no_fti.inband_fti = false;
    let mut with_fti = obj_oti.clone();
    with_fti.inband_fti = true;
    let mut out = Vec::new();
    let mut last: Option<pkt::Pkt> = None;
    for d in g {
        let p = match flute::core::alc::parse_alc_pkt(d) {
            Ok(p) => p,
            Err(_) => {
                out.push(d.clone());
                continue;
            }
        };
        if p.lct.toi == 0 {
            out.push(d.clone());
            continue;
        }
        let pid = match flute::core::alc::parse_payload_id(&p, obj_oti) {
            Ok(x) => x,
            Err(_) => {
                out.push(d.clone());
                continue;
            }
        };
        let tl = p.transfer_length.unwrap_or(0);
        let mk = |sbn: u32, esi: u32| pkt::Pkt {
            payload: d[p.data_payload_offset..].to_vec(),
            transfer_length: tl,
            esi,
            sbn,
            toi: p.lct.toi,
            fdt_id: None,
            cenc: p.cenc.unwrap_or(Cenc::Null),
            inband_cenc: p.cenc.is_some(),
            close_object: false,
            source_block_length: pid.source_block_length.unwrap_or(0),
            sender_current_time: false,
        };
        out.push(alc::new_alc_pkt(&no_fti, &0u128, 1, &mk(pid.sbn, pid.esi), flute::sender::Profile::RFC6726, t_ms(0)));
        last = Some(mk(0xFFFF, 0));
    }
    if let Some(l) = last {
        out.push(alc::new_alc_pkt(&with_fti, &0u128, 1, &l, flute::sender::Profile::RFC6726, t_ms(0)));
    }
    out
}

/// every attribute `name="..."` of the document gets the value `val`
fn set_attr(xml: &str, name: &str, val: &str) -> String {
    let mut out = String::new();
    let mut rest = xml;
    let pat = format!(" {}=\"", name);
    while let Some(i) = rest.find(&pat) {
        out.push_str(&rest[..i + pat.len()]);
        out.push_str(val);
        let after = &rest[i + pat.len()..];
        match after.find('"') {
            Some(q) => rest = &after[q..],
            None => rest = "",
        }
    }
    out.push_str(rest);
    out
}

fn rewrite_fdt(g: &[Vec<u8>], session_oti: &Oti, how: &str) -> Vec<Vec<u8>> {
    use flute::verif_hooks::{alc, pkt};
    let mut parts: HashMap<u32, std::collections::BTreeMap<(u32, u32), Vec<u8>>> = HashMap::new();
    for d in g {
        if let Ok(p) = flute::core::alc::parse_alc_pkt(d) {
            if p.lct.toi == 0 {
                if let (Some(fi), Ok(pid)) = (p.fdt_info.as_ref(), flute::core::alc::parse_payload_id(&p, session_oti)) {
                    parts.entry(fi.fdt_instance_id).or_default().insert((pid.sbn, pid.esi), d[p.data_payload_offset..].to_vec());
                }
            }
        }
    }
    let mut done: std::collections::HashSet<u32> = Default::default();
    let mut out = Vec::new();
    for d in g {
        let p = match flute::core::alc::parse_alc_pkt(d) {
            Ok(p) => p,
            Err(_) => {
                out.push(d.clone());
                continue;
            }
        };
        if p.lct.toi != 0 {
            out.push(d.clone());
            continue;
        }
        let id = match p.fdt_info.as_ref() {
            Some(f) => f.fdt_instance_id,
            None => {
                out.push(d.clone());
                continue;
            }
        };
        if !done.insert(id) {
            continue; // later packets (and transfers) of an instance already re-emitted
        }
        let xml: Vec<u8> = parts[&id].values().flat_map(|v| v.iter().copied()).collect();
        let text = String::from_utf8_lossy(&xml).to_string();
        let text = match how {
            "nooti" => strip_attrs(&text, "FEC-OTI-"),
            "notl" => strip_attrs(&text, "Transfer-Length"),
            // clmd5:<content length>:<base64 md5>: the instance describes another (shorter) content
            h if h.starts_with("clmd5:") => {
                let f: Vec<&str> = h.splitn(3, ':').collect();
                set_attr(&set_attr(&text, "Content-Length", f[1]), "Content-MD5", f[2])
            }
            _ => text,
        };
        let bytes = text.into_bytes();
        let e = session_oti.encoding_symbol_length as usize;
        let nsym = (bytes.len() + e - 1) / e;
        for (i, chunk) in bytes.chunks(e).enumerate() {
            let pk = pkt::Pkt {
                payload: chunk.to_vec(),
                transfer_length: bytes.len() as u64,
                esi: i as u32,
                sbn: 0,
                toi: 0,
                fdt_id: Some(id),
                cenc: Cenc::Null,
                inband_cenc: false,
                close_object: false,
                source_block_length: nsym as u32,
                sender_current_time: false,
            };
            out.push(alc::new_alc_pkt(session_oti, &0u128, 1, &pk, flute::sender::Profile::RFC6726, t_ms(0)));
        }
    }
    out
}

fn channel(kind: &str, seed: u64, arg: u64, g: &[Vec<u8>]) -> Vec<Vec<u8>> {
    let mut rng = Rng::new(seed);
    let mut v: Vec<Vec<u8>> = g.to_vec();
    let shuffle = |v: &mut Vec<Vec<u8>>, rng: &mut Rng| {
        for i in (1..v.len()).rev() {
            let j = rng.below(i as u64 + 1) as usize;
            v.swap(i, j);
        }
    };
    match kind {
        "all" => {}
        "perm" => shuffle(&mut v, &mut rng),
        "sub" => v.retain(|_| rng.below(100) < arg),
        "dup" => {
            let mut w = Vec::new();
            for p in v {
                w.push(p.clone());
                if rng.chance(1, 3) {
                    w.push(p);
                }
            }
            v = w;
        }
        "lossdup" => {
            let mut w = Vec::new();
            for p in v {
                if rng.below(100) < arg {
                    w.push(p.clone());
                    if rng.chance(1, 4) {
                        w.push(p);
                    }
                }
            }
            v = w;
        }
        "permdup" => {
            let mut w = Vec::new();
            for p in v {
                w.push(p.clone());
                if rng.chance(1, 3) {
                    w.push(p);
                }
            }
            v = w;
            shuffle(&mut v, &mut rng);
        }
        "flip" | "trunc" => {
            // alter payload bytes of object packets only (never the headers, never TOI 0)
            let mut done = 0;
            let mut tries = 0;
            while done < arg && tries < 1000 && !v.is_empty() {
                tries += 1;
                let i = rng.below(v.len() as u64) as usize;
                let (toi, off) = match flute::core::alc::parse_alc_pkt(&v[i]) {
                    Ok(p) => (p.lct.toi, p.data_payload_offset),
                    Err(_) => continue,
                };
                if toi == 0 || v[i].len() <= off {
                    continue;
                }
                if kind == "flip" {
                    let j = off + rng.below((v[i].len() - off) as u64) as usize;
                    v[i][j] ^= 1 << rng.below(8);
                } else {
                    let keep = off + rng.below((v[i].len() - off) as u64) as usize;
                    v[i].truncate(keep);
                }
                done += 1;
            }
        }
        "late" => {
            let skip = (arg as usize).min(v.len());
            v = v[skip..].to_vec();
        }
        "mask" => {
            // bit i of arg set = packet i is delivered
            v = v.into_iter().enumerate().filter(|(i, _)| *i < 64 && (arg >> i) & 1 == 1).map(|(_, p)| p).collect();
        }
        "fdtflood" => {
            // after the genuine packets: `arg` FDT instance ids, each flooded with 19 FTI-less datagrams of
            // 60 kB (more than the 1 MiB the FDT object may cache): every one of these instances fails
            if let Some(t) = v.iter().find(|p| matches!(flute::core::alc::parse_alc_pkt(p), Ok(ref q) if q.lct.toi == 0 && q.fdt_info.is_some())).cloned() {
                for k in 0..arg {
                    for _ in 0..19 {
                        if let Some(d) = fdt_flood_pkt(&t, 0x400 + k as u32, 60000) {
                            v.push(d);
                        }
                    }
                }
            }
        }
        "fdthalf" => {
            // after the genuine packets: `arg` further FDT instance ids, each receiving every packet of the first
            // (multi-packet) instance but its first one: instances that stay unfinished, each holding nearly a
            // whole instance, until the time-out has elapsed and cleanup ran
            let first: Vec<Vec<u8>> = {
                let mut id0 = None;
                v.iter()
                    .filter(|p| match flute::core::alc::parse_alc_pkt(p) {
                        Ok(q) if q.lct.toi == 0 => match q.fdt_info.as_ref() {
                            Some(fi) => {
                                if id0.is_none() {
                                    id0 = Some(fi.fdt_instance_id);
                                }
                                id0 == Some(fi.fdt_instance_id)
                            }
                            None => false,
                        },
                        _ => false,
                    })
                    .cloned()
                    .collect()
            };
            if first.len() >= 3 {
                for k in 0..arg {
                    for t in first.iter().skip(1) {
                        if let Some(d) = fdt_reid_pkt(t, 0x800 + k as u32) {
                            v.push(d);
                        }
                    }
                }
            }
        }
        "fdtmany" => {
            // after the genuine packets: `arg` further COMPLETE FDT instances (copies of the first, single-packet
            // instance under new instance ids): the receiver keeps only the newest few of them
            let first = v.iter().find(|p| matches!(flute::core::alc::parse_alc_pkt(p), Ok(ref q) if q.lct.toi == 0 && q.fdt_info.is_some())).cloned();
            if let Some(t) = first {
                for k in 0..arg {
                    if let Some(d) = fdt_reid_pkt(&t, 0x1000 + k as u32) {
                        v.push(d);
                    }
                }
            }
        }
        "fatsym" => {
            // every object packet but the first symbol of each block (the blocks never complete), its symbol
            // padded to `arg` bytes: far longer than the encoding symbol length the blocks are accounted with
            let mut w = Vec::new();
            for p in v {
                match flute::core::alc::parse_alc_pkt(&p) {
                    Ok(pk) if pk.lct.toi != 0 => {
                        let pid = &p[pk.data_alc_header_offset..pk.data_payload_offset];
                        if pid.len() == 4 && u16::from_be_bytes([pid[2], pid[3]]) == 0 {
                            continue;
                        }
                        let mut q = p.clone();
                        let have = p.len() - pk.data_payload_offset;
                        if (arg as usize) > have {
                            q.extend(std::iter::repeat(0u8).take(arg as usize - have));
                        }
                        w.push(q);
                    }
                    _ => w.push(p),
                }
            }
            v = w;
        }
        "tinyflood" => {
            // no FDT at all; after the genuine object packets (no in-band FTI: all cached), `arg` copies of the
            // first one cut after its FEC payload id: datagrams with an EMPTY symbol, which cost the receiver
            // far more to keep than the bytes they count for in the cache limit
            let mut w: Vec<Vec<u8>> = v
                .into_iter()
                .filter(|p| !matches!(flute::core::alc::parse_alc_pkt(p), Ok(ref q) if q.lct.toi == 0))
                .collect();
            let cut = w.first().and_then(|t| flute::core::alc::parse_alc_pkt(t).ok().map(|pk| t[..pk.data_payload_offset].to_vec()));
            if let Some(cut) = cut {
                for _ in 0..arg {
                    w.push(cut.clone());
                }
            }
            v = w;
        }
        "nofdt" | "holes" | "holesb" | "halffdt" => {
            // nofdt: no TOI-0 packet at all; holes: the symbol with ESI = arg of every block is lost
            // (holesb: and the packet carrying the close-object flag, so that the object stalls);
            // halffdt: every second packet of every FDT instance is lost (instances never complete)
            let mut w = Vec::new();
            let mut fdt_seen = 0u64;
            for p in v {
                let keep = match flute::core::alc::parse_alc_pkt(&p) {
                    Ok(pk) => {
                        if pk.lct.toi == 0 {
                            fdt_seen += 1;
                            match kind {
                                "nofdt" => false,
                                "halffdt" => fdt_seen % 2 == 0,
                                _ => true,
                            }
                        } else if kind == "holes" || kind == "holesb" {
                            // payload id of No-Code / Raptor: sbn 16 bits, esi 16 bits
                            let pid = &p[pk.data_alc_header_offset..pk.data_payload_offset];
                            !(pid.len() == 4 && (u16::from_be_bytes([pid[2], pid[3]]) as u64) == arg)
                                && !(kind == "holesb" && pk.lct.close_object)
                        } else {
                            true
                        }
                    }
                    Err(_) => true,
                };
                if keep {
                    w.push(p);
                }
            }
            v = w;
        }
        _ => {}
    }
    v
}

pub fn eval(input: &str) -> String {
    let secs: Vec<Vec<&str>> = input.split(';').map(|s| s.split_whitespace().collect::<Vec<&str>>()).filter(|v| !v.is_empty()).collect();
    let v = match secs.iter().find(|s| s[0] == "V") {
        Some(v) => v,
        None => return "BAD".into(),
    };
    let c = kv(&v[1..]);
    let objs: Vec<Vec<&str>> = secs.iter().filter(|s| s[0] == "O").cloned().collect();
    let sess = match catch(|| build_session(&c, &objs)) {
        Some(Some(s)) => s,
        Some(None) => return "NOSESSION".into(),
        None => return "SENDERPANIC".into(),
    };
    let x = secs.iter().find(|s| s[0] == "X").cloned().unwrap_or(vec!["X", "all", "1"]);
    let seed: u64 = x.get(2).and_then(|s| s.parse().ok()).unwrap_or(1);
    let arg: u64 = x.get(3).and_then(|s| s.parse().ok()).unwrap_or(80);
    let seq = channel(x[1], seed, arg, &sess.genuine);
    let mut cleanup_at: Vec<usize> = Vec::new();
    let mut sleep_at: Vec<(usize, u64)> = Vec::new();
    // sleepfdt@j:ms = sleep before the first datagram of the j-th distinct FDT instance id (0-based)
    let mut sleep_fdt: Vec<(usize, u64)> = Vec::new();
    let mut drop_at: Option<usize> = None;
    if let Some(e) = secs.iter().find(|s| s[0] == "E") {
        for it in e[1..].iter().flat_map(|s| s.split(',')) {
            if it == "cleanup@end" {
                cleanup_at.push(usize::MAX);
            } else if let Some(ms) = it.strip_prefix("sleepend:") {
                sleep_at.push((usize::MAX, ms.parse().unwrap_or(50)));
            } else if let Some(i) = it.strip_prefix("sleepfdt@") {
                let kv: Vec<&str> = i.split(':').collect();
                sleep_fdt.push((kv[0].parse().unwrap_or(0), kv.get(1).and_then(|x| x.parse().ok()).unwrap_or(50)));
            } else if let Some(i) = it.strip_prefix("cleanup@") {
                cleanup_at.push(i.parse().unwrap_or(0));
            } else if let Some(i) = it.strip_prefix("drop@") {
                drop_at = Some(i.parse().unwrap_or(0));
            } else if let Some(i) = it.strip_prefix("sleep@") {
                let kv: Vec<&str> = i.split(':').collect();
                sleep_at.push((kv[0].parse().unwrap_or(0), kv.get(1).and_then(|x| x.parse().ok()).unwrap_or(50)));
            }
        }
    }
    let script = Script {
        builder: c.get("bld").copied().unwrap_or("S").chars().collect(),
        open: c.get("opn").copied().unwrap_or("1").chars().map(|ch| ch == '1').collect(),
        write_fail_at: c.get("wrf").and_then(|s| s.parse().ok()),
        md5: c.get("md5").copied().unwrap_or("1") == "1",
    };
    let sh = Rc::new(RefCell::new(Shared { log: Vec::new(), created: HashMap::new(), script }));
    let builder = Rc::new(MonBuilder { sh: sh.clone() });
    let mut rcfg = RConfig::default();
    rcfg.object_receive_once = c.get("once").copied().unwrap_or("1") == "1";
    rcfg.max_objects_error = c.get("maxerr").and_then(|s| s.parse().ok()).unwrap_or(0);
    rcfg.object_max_cache_size = c.get("cache").and_then(|s| s.parse().ok());
    rcfg.enable_fdt_expiration_check = c.get("exp").copied().unwrap_or("1") == "1";
    rcfg.object_timeout = c.get("otimeout").and_then(|s| s.parse().ok()).map(Duration::from_millis);
    let ep = UDPEndpoint::new(None, "224.0.0.1".to_string(), 1234);
    let mut out: Vec<String> = sess.tables.clone();
    // heap attributed to the receiver: net allocation inside its calls, minus what the monitoring
    // writers logged meanwhile (freed later, outside the calls)
    let mut recv_heap: isize = 0;
    sh.borrow_mut().log.reserve(4096);
    let h0 = crate::live_bytes();
    let mut receiver = Some(Receiver::new(&ep, 1, builder, Some(rcfg)));
    recv_heap += crate::live_bytes() - h0;
    let now = t_ms(1000);
    let mut dead = false;
    // wall-clock bookkeeping mirroring the receiver's Instant-based time-outs (oracle for the model)
    // per TOI / FDT instance id: instants taken before and after the last push (the receiver's own
    // Instant::now() lies between them)
    let mut last_seen_obj: HashMap<u128, (std::time::Instant, std::time::Instant)> = HashMap::new();
    let mut last_seen_fdt: HashMap<u32, (std::time::Instant, std::time::Instant)> = HashMap::new();
    let mut fdt_ids_seen: Vec<u32> = Vec::new();
    let otimeout = c.get("otimeout").and_then(|s| s.parse::<u64>().ok()).map(Duration::from_millis);
    // a trailing cleanup (index = number of datagrams) is allowed
    let nseq = seq.len();
    for i in 0..=nseq {
        if dead {
            break;
        }
        for (at, ms) in &sleep_at {
            if *at == i || (*at == usize::MAX && i == nseq) {
                std::thread::sleep(Duration::from_millis(*ms));
            }
        }
        if cleanup_at.contains(&i) || (i == nseq && cleanup_at.contains(&usize::MAX)) {
            if let Some(r) = receiver.as_mut() {
                let t0 = std::time::Instant::now();
                let h0 = crate::live_bytes();
                let ok = catch(std::panic::AssertUnwindSafe(|| r.cleanup(now))).is_some();
                recv_heap += crate::live_bytes() - h0 - sh.borrow().log.iter().map(|s| s.capacity() as isize).sum::<isize>();
                let t1 = std::time::Instant::now();
                // idle time as the receiver measured it lies in [t0 - after_push, t1 - before_push]:
                // certainly expired, certainly not, or (marked '?') undecidable from outside
                let (mut eo, mut ef): (Vec<String>, Vec<String>) = (Vec::new(), Vec::new());
                if let Some(to) = otimeout {
                    for (t, (tb, ta)) in &last_seen_obj {
                        if t0.saturating_duration_since(*ta) > to {
                            eo.push(format!("{:x}", t));
                        } else if t1.saturating_duration_since(*tb) > to {
                            eo.push(format!("{:x}?", t));
                        }
                    }
                    for (t, (tb, ta)) in &last_seen_fdt {
                        if t0.saturating_duration_since(*ta) > to {
                            ef.push(format!("{:x}", t));
                        } else if t1.saturating_duration_since(*tb) > to {
                            ef.push(format!("{:x}?", t));
                        }
                    }
                }
                eo.sort();
                ef.sort();
                out.push(format!(
                    "K~{}~{}~{}~{}",
                    1000,
                    if eo.is_empty() { "-".to_string() } else { eo.join(",") },
                    if ef.is_empty() { "-".to_string() } else { ef.join(",") },
                    if ok { "Ok" } else { "PANIC" }
                ));
                out.extend(sh.borrow_mut().log.drain(..));
                out.push(format!("Q~{}~{}", r.nb_objects(), r.nb_objects_error()));
                out.push(format!("H~{}", recv_heap));
            }
        }
        if i == nseq {
            break;
        }
        let d = &seq[i];
        if drop_at == Some(i) {
            let r = receiver.take();
            let ok = catch(std::panic::AssertUnwindSafe(move || drop(r))).is_some();
            out.push(format!("Z~{}", if ok { "Ok" } else { "PANIC" }));
            out.extend(sh.borrow_mut().log.drain(..));
            break;
        }
        let r = match receiver.as_mut() {
            Some(r) => r,
            None => break,
        };
        let desc = describe_datagram(d, 1);
        let parsed = flute::core::alc::parse_alc_pkt(d).ok().map(|pk| (pk.lct.toi, pk.fdt_info.as_ref().map(|f| f.fdt_instance_id)));
        if let Some((0, Some(id))) = parsed {
            if !fdt_ids_seen.contains(&id) {
                for (j, ms) in &sleep_fdt {
                    if *j == fdt_ids_seen.len() {
                        std::thread::sleep(Duration::from_millis(*ms));
                    }
                }
                fdt_ids_seen.push(id);
            }
        }
        let tb = std::time::Instant::now();
        let h0 = crate::live_bytes();
        let res = catch(std::panic::AssertUnwindSafe(|| r.push_data(d, now)));
        recv_heap += crate::live_bytes() - h0 - sh.borrow().log.iter().map(|s| s.capacity() as isize).sum::<isize>();
        let ta = std::time::Instant::now();
        match parsed {
            Some((0, Some(id))) => {
                last_seen_fdt.insert(id, (tb, ta));
            }
            Some((toi, _)) if toi != 0 => {
                last_seen_obj.insert(toi, (tb, ta));
            }
            _ => {}
        }
        let rs = match res {
            Some(Ok(_)) => "Ok",
            Some(Err(_)) => "Err",
            None => {
                dead = true;
                "PANIC"
            }
        };
        match desc {
            Some(dsc) => out.push(format!("D~{}~{}", dsc, rs)),
            None => out.push(format!("U~{}", rs)),
        }
        out.extend(sh.borrow_mut().log.drain(..));
        if !dead {
            out.push(format!("Q~{}~{}", r.nb_objects(), r.nb_objects_error()));
            out.push(format!("H~{}", recv_heap));
        }
    }
    if !dead {
        if let Some(r) = receiver.take() {
            let ok = catch(std::panic::AssertUnwindSafe(move || drop(r))).is_some();
            out.push(format!("Z~{}", if ok { "Ok" } else { "PANIC" }));
            out.extend(sh.borrow_mut().log.drain(..));
        }
    }
    out.join(" ")
}

fn gen(args: &Args, emit: &mut dyn FnMut(String)) {
    let thorough = args.tier == "thorough";
    let mut rng = Rng::new(args.seed.wrapping_mul(7919).wrapping_add(args.shard.0 * 31 + 5));
    let count = if thorough { 24000 } else { 2400 } / args.shard.1;
    let fecs = ["nocode", "nocode", "rs28", "rs28us", "raptorq", "raptor"];
    for i in 0..count {
        let fec = *rng.pick(&fecs);
        let e = *rng.pick(&[4u32, 8, 16]);
        let b = if fec == "raptor" { *rng.pick(&[4u32, 5, 6]) } else { *rng.pick(&[1u32, 2, 3, 4]) };
        let par = if fec == "nocode" { 0 } else { rng.range(1, 2) };
        let cenc = if rng.chance(1, 6) { *rng.pick(&["zlib", "deflate", "gzip"]) } else { "null" };
        let nobj = rng.range(1, 3);
        let mut osecs = Vec::new();
        for k in 0..nobj {
            let len = match rng.below(8) {
                0 => 0,
                1 => 1,
                2 => e as u64,
                3 => (e * b) as u64 + 1,
                _ => rng.range(1, (e * b) as u64 * 3 + 2),
            };
            // Raptor cannot carry blocks of 2 or 3 symbols: keep lengths where add_object accepts
            osecs.push(format!("O {} {} {} {}", len, k + i % 17, if rng.chance(1, 8) { 1 } else { 0 }, if rng.chance(3, 4) { 1 } else { 0 }));
        }
        let bld = *rng.pick(&["S", "S", "S", "S", "S", "A", "X", "XS", "AS"]);
        let opn = *rng.pick(&["1", "1", "1", "1", "1", "0", "01"]);
        let wrf = if cenc == "null" && rng.chance(1, 8) { format!(" wrf={}", rng.below(4)) } else { String::new() };
        let (xk, xa): (&str, u64) = if fec == "raptorq" || fec == "raptor" {
            match rng.below(4) {
                0 => ("dup", 0),
                1 => ("late", rng.below(6)),
                _ => ("all", 0),
            }
        } else {
            match rng.below(12) {
                0 | 1 | 2 => ("all", 0),
                3 | 4 => ("perm", 0),
                5 => ("sub", rng.range(40, 95)),
                6 => ("dup", 0),
                7 => ("lossdup", rng.range(50, 95)),
                8 => ("permdup", 0),
                9 => ("flip", rng.range(1, 3)),
                10 => ("trunc", 1),
                _ => ("late", rng.below(8)),
            }
        };
        let ev = match rng.below(6) {
            0 => format!(" ; E drop@{}", rng.below(12)),
            1 => format!(" ; E cleanup@{}", rng.below(12)),
            _ => String::new(),
        };
        let fti = rng.below(2);
        let fdtmut = if fti == 1 && rng.chance(1, 6) { " fdtmut=nooti" } else if rng.chance(1, 30) { " fdtmut=notl" } else { "" };
        // content-encoded object whose FDT describes only a prefix of what the packets inflate to (MD5 announced)
        if i % 40 == 7 && fec != "raptor" {
            let ce = *rng.pick(&["zlib", "deflate", "gzip"]);
            emit(format!(
                "V fec={} e={} b={} par={} cenc={} fti={} icenc={} mode=full il=1 once=1 maxerr=0 cache=10485760 md5={} tc=1 bld=S opn=1 fdtmut=clmd5 ; O {} {} 0 1 ; X {} 1 0",
                fec, e, b, par, ce, fti, rng.below(2), if rng.chance(1, 5) { 0 } else { 1 }, rng.range(2, (e * b) as u64 * 3 + 2), i % 17,
                *rng.pick(&["all", "all", "perm", "dup"])
            ));
        }
        emit(format!(
            "V fec={} e={} b={} par={} cenc={} fti={} icenc={} mode={} il={} once={} maxerr={} cache={} md5={} tc={} bld={} opn={}{}{} ; {} ; X {} {} {}{}",
            fec,
            e,
            b,
            par,
            cenc,
            fti,
            rng.below(2),
            if rng.chance(1, 2) { "full" } else { "bt" },
            rng.range(1, 3),
            rng.below(2),
            *rng.pick(&[0u32, 0, 1, 3]),
            *rng.pick(&[10485760u64, 10485760, 64, 200]),
            rng.below(2),
            *rng.pick(&[1u32, 1, 2]),
            bld,
            opn,
            wrf,
            fdtmut,
            osecs.join(" ; "),
            xk,
            rng.below(1 << 30),
            xa,
            ev
        ));
    }
}

/// traffic that keeps objects undecodable (C17): no FDT, FDT-only OTI, missing symbols, many TOIs,
/// FDT instances that never complete, small cache limits, time-outs with real (short) sleeps
// symbols far longer than the encoding symbol length (D47 was found there)
const FATSYM: bool = true;

fn gen_mem(args: &Args, emit: &mut dyn FnMut(String)) {
    let thorough = args.tier == "thorough";
    let mut rng = Rng::new(args.seed.wrapping_mul(104729).wrapping_add(args.shard.0 * 17 + 3));
    let count = if thorough { 4000 } else { 480 } / args.shard.1;
    for i in 0..count {
        let e = *rng.pick(&[8u32, 16, 32]);
        let b = *rng.pick(&[2u32, 3, 4]);
        let nobj = rng.range(1, 6);
        let mut osecs = Vec::new();
        for k in 0..nobj {
            // mostly a few blocks, sometimes a long object (hundreds of packets)
            let len = if rng.chance(1, 4) { rng.range((e * b) as u64 * 20, (e * b) as u64 * 60) } else if rng.chance(1, 12) { rng.range((e * b) as u64 * 150, (e * b) as u64 * 300) } else { rng.range((e * b) as u64, (e * b) as u64 * 6) };
            osecs.push(format!("O {} {} 0 0", len, k + i % 13));
        }
        let cache = *rng.pick(&[64u64, 256, 1024, 4096, 10485760]);
        let maxerr = *rng.pick(&[0u32, 1, 3]);
        let (fec, par) = if rng.chance(1, 3) { ("rs28", 1) } else { ("nocode", 0) };
        let scenario = if i % 60 == 59 { 7 } else if i % 60 == 29 { 8 } else if i % 60 == 44 { 9 } else if i % 60 == 14 { 10 } else if FATSYM && i % 60 == 51 { 11 } else if nobj >= 3 { rng.below(7) } else { rng.below(6) };
        // scenario 8: one small object, a small cache, thousands of empty-symbol datagrams
        let (nobj, osecs, cache, fec, par) = if scenario == 8 {
            (1u64, vec![format!("O {} {} 0 0", (e * b) as u64 * 2, i % 13)], *rng.pick(&[64u64, 256]), "nocode", 0)
        } else if scenario == 11 {
            // one long object: more blocks than the cache limit accounts for
            (1u64, vec![format!("O {} {} 0 0", (e * b) as u64 * 160, i % 13)], 4096u64, if rng.chance(1, 2) { "rs28" } else { "nocode" }, 1)
        } else {
            (nobj, osecs, cache, fec, par)
        };
        let _ = nobj;
        let (fti, xk, xa, extra, ev): (u32, &str, u64, String, String) = match scenario {
            // packets without FTI and no FDT: everything is cached
            0 => (0, "nofdt", 0, String::new(), String::new()),
            // FDT-only OTI arriving late
            1 => (0, "late", rng.range(1, 30), String::new(), String::new()),
            // a symbol of every block is missing: blocks accumulate
            2 => (1, "holes", rng.below(2), String::new(), String::new()),
            // FDT instances that never complete (many packets per instance, every second one lost)
            3 => (1, "halffdt", 0, format!(" fdte={} mode=bt", rng.pick(&[16u32, 32])), String::new()),
            // stalled objects and unfinished FDT instances released by cleanup after the time-out
            4 => {
                let n = rng.range(5, 40);
                (1, "holes", 0, format!(" otimeout=25 fdte={} mode=bt{}", rng.pick(&[32u32, 1400]), if rng.chance(1, 2) { " exp=0" } else { "" }), format!(" ; E sleep@{}:60,cleanup@{}", n, n))
            }
            5 => {
                let n = rng.range(5, 60);
                (0, "nofdt", 0, " otimeout=25".to_string(), format!(" ; E sleep@{}:60,cleanup@{}", n, n))
            }
            // FDT instances that fail WITHOUT ever getting a writer (no EXT_FTI, cache overflow) must be
            // released by the cleanup after the time-out like the others
            // (with and without the FDT expiry check: releasing unfinished instances does not depend on it)
            7 => (1, "fdtflood", 70, format!(" otimeout=25{}", if (i / 60 + args.shard.0) % 2 == 0 { " exp=0" } else { "" }), " ; E sleepend:60,cleanup@end".to_string()),
            // many FDT instances that stay unfinished (one packet of each missing), released by cleanup after the
            // time-out whether or not the FDT expiry check is enabled
            9 => (1, "fdthalf", 30, format!(" otimeout=25 fdte=32{}", if (i / 60 + args.shard.0) % 2 == 0 { " exp=0" } else { "" }), " ; E sleepend:60,cleanup@end".to_string()),
            // symbols far longer than the announced encoding symbol length, blocks that never complete
            11 => (1, "fatsym", 8000, String::new(), String::new()),
            // hundreds of complete FDT instances: only the newest few are kept
            10 => (1, "fdtmany", 300, String::new(), String::new()),
            // empty-symbol datagrams of an object whose OTI never arrives: the cache limit must still bound what is kept
            8 => (0, "tinyflood", 3000, String::new(), String::new()),
            // an object stalls, later objects bring new FDT instances at intervals shorter than the
            // time-out: the stalled ones must still be released (only their own packets are activity)
            _ => {
                let j = 2; // instances 0 and 1 precede the first object
                (1, "holesb", 0, " otimeout=200 fdte=1400 mode=bt pq=0:1".to_string(), format!(" ; E sleepfdt@{}:120,sleepfdt@{}:120,sleepend:120,cleanup@end", j, j + 1))
            }
        };
        emit(format!(
            "V fec={} e={} b={} par={} cenc=null fti={} icenc=0 il={} once=1 maxerr={} cache={} md5=0 tc={} bld=S opn=1{} ; {} ; X {} {} {}{}",
            fec,
            e,
            b,
            par,
            fti,
            rng.range(1, 3),
            maxerr,
            cache,
            rng.range(1, 2),
            extra,
            osecs.join(" ; "),
            xk,
            rng.below(1 << 30),
            xa,
            ev
        ));
    }
}

/// C01: clean channel, every emitted packet in order, writers that always store
fn gen_session(args: &Args, emit: &mut dyn FnMut(String)) {
    let thorough = args.tier == "thorough";
    let mut rng = Rng::new(args.seed.wrapping_mul(31337).wrapping_add(args.shard.0 * 101 + 7));
    let count = if thorough { 20000 } else { 2000 } / args.shard.1;
    let fecs = ["nocode", "rs28", "rs28us", "raptorq", "raptor"];
    for i in 0..count {
        let fec = *rng.pick(&fecs);
        let e = *rng.pick(&[4u32, 8, 16, 64]);
        let b = if fec == "raptor" { *rng.pick(&[4u32, 5, 6, 10]) } else { *rng.pick(&[1u32, 2, 3, 4, 8]) };
        let par = if fec == "nocode" { 0 } else { rng.range(1, 3) };
        let cenc = if rng.chance(1, 4) { *rng.pick(&["zlib", "deflate", "gzip"]) } else { "null" };
        let src = if cenc == "null" { *rng.pick(&["buf", "buf", "stream", "file"]) } else { "buf" };
        let nobj = rng.range(1, 4);
        let two_queues = rng.chance(1, 3);
        let mut osecs = Vec::new();
        for k in 0..nobj {
            let eb = (e * b) as u64;
            // sizes at and around symbol, block and a_large/a_small boundaries, and (rarely) above the scheme's maximum
            let len = match rng.below(12) {
                0 => 0,
                1 => 1,
                2 => e as u64 - 1,
                3 => e as u64,
                4 => e as u64 + 1,
                5 => eb,
                6 => eb + 1,
                7 => eb * 2 + rng.below(e as u64 + 1),
                // at / just above the 255 blocks of the scheme's maximum, and well above it (the 8-bit block number wraps)
                8 if fec == "rs28" || fec == "raptorq" => eb * 255 + if rng.chance(1, 3) { eb * 2 + rng.below(3) } else { rng.below(3) },
                _ => rng.range(1, eb * 4 + 2),
            };
            let prio = if two_queues && rng.chance(1, 2) { 3 } else { 0 };
            osecs.push(format!("O {} {} {} {} {} {}", len, k + i % 17, if rng.chance(1, 8) { 1 } else { 0 }, rng.below(2), prio, rng.below(48)));
        }
        emit(format!(
            "V fec={} e={} b={} par={} cenc={} fti={} icenc={} mode={} il={} once={} maxerr=0 cache=10485760 md5={} tc={} bld=S opn=1 pq={} src={}{} ; {} ; X all 1 0",
            fec,
            e,
            b,
            par,
            cenc,
            rng.below(2),
            rng.below(2),
            if rng.chance(1, 2) { "full" } else { "bt" },
            rng.range(1, 4),
            rng.below(2),
            rng.below(2),
            *rng.pick(&[1u32, 1, 2, 3]),
            if two_queues { format!("0:{},3:{}", rng.below(3), rng.below(3)) } else { format!("0:{}", rng.below(4)) },
            src,
            if rng.chance(1, 5) { " sgroups=sg1,sg2" } else { "" },
            osecs.join(" ; ")
        ));
    }
}

/// C02: order-preserving loss and duplication; every subset of small sessions
// sessions whose FDT instance is repeated after the last transfer, with in-band FTI (D44 was found there)
const FDT_REPEAT_INBAND: bool = true;

fn gen_loss(args: &Args, emit: &mut dyn FnMut(String)) {
    let thorough = args.tier == "thorough";
    let mut rng = Rng::new(args.seed.wrapping_mul(271).wrapping_add(11));
    let fecs = ["nocode", "rs28", "rs28us", "raptorq"];
    let mut n = 0u64;
    // exhaustive: all subsets of sessions of at most 12 (quick) / 13 (thorough) packets
    let maxbits = if thorough { 13 } else { 11 };
    for fec in fecs.iter() {
        for (e, b, len, par, il, tc, fti) in [(4u32, 2u32, 14u64, 1u32, 1u32, 1u32, 1u32), (4, 3, 20, 2, 2, 1, 0), (8, 2, 30, 1, 2, 1, 1), (4, 2, 8, 1, 1, 2, 1)] {
            let par = if *fec == "nocode" { 0 } else { par };
            let head = format!(
                "V fec={} e={} b={} par={} cenc=null fti={} icenc=0 mode=full il={} once=1 maxerr=0 cache=10485760 md5=1 tc={} bld=S opn=1 ; O {} 3 0 1",
                fec, e, b, par, fti, il, tc, len
            );
            // the number of packets of the session is not known here: enumerate masks up to maxbits,
            // packets beyond that index are dropped (the mask channel keeps only indices < 64 with their bit set)
            for mask in 0u64..(1u64 << maxbits) {
                n += 1;
                if n % args.shard.1 != args.shard.0 {
                    continue;
                }
                emit(format!("{} ; X mask 1 {}", head, mask));
            }
        }
        // the FDT instance keeps being repeated (FDT carousel) after the object's last, close-flagged
        // packet: a receiver that lost the first copy gets the whole transfer BEFORE an FDT (D43);
        // OTI only in the FDT (packets cached) and in-band
        for fti in [0u32, 1] {
            if !FDT_REPEAT_INBAND && fti == 1 {
                continue;
            }
            let par = if *fec == "nocode" { 0 } else { 1 };
            let head = format!(
                "V fec={} e=4 b=3 par={} cenc=null fti={} icenc=0 mode=full il=1 once=1 maxerr=0 cache=10485760 md5=1 tc=1 bld=S opn=1 fcar=20 idlems=30 maxpk=10 ; O 20 3 0 1",
                fec, par, fti
            );
            for mask in 0u64..(1u64 << 10) {
                n += 1;
                if n % args.shard.1 != args.shard.0 {
                    continue;
                }
                emit(format!("{} ; X mask 1 {}", head, mask));
            }
        }
    }
    // sampled loss / duplication on larger sessions, all schemes, cenc, signalling modes, interleave, transfer counts
    let count = if thorough { 20000 } else { 1500 };
    for i in 0..count {
        if (i as u64) % args.shard.1 != args.shard.0 {
            for _ in 0..12 {
                rng.next();
            }
            continue;
        }
        let fec = *rng.pick(&["nocode", "rs28", "rs28us", "raptorq", "raptor"]);
        let e = *rng.pick(&[4u32, 8, 16]);
        let b = if fec == "raptor" { *rng.pick(&[4u32, 5, 6]) } else { *rng.pick(&[2u32, 3, 4, 6]) };
        let par = if fec == "nocode" { 0 } else { rng.range(1, 3) };
        let eb = (e * b) as u64;
        let len = if rng.chance(1, 25) { 0 } else { rng.range(1, eb * 5 + 3) };
        let (xk, xa) = match rng.below(3) {
            0 => ("sub", rng.range(60, 97)),
            1 => ("lossdup", rng.range(70, 97)),
            _ => ("dup", 0),
        };
        // a third of the sessions keep repeating the FDT instance after the last transfer
        let tail = if FDT_REPEAT_INBAND && i % 3 == 1 { " fcar=20 idlems=30 maxpk=160" } else { "" };
        emit(format!(
            "V fec={} e={} b={} par={} cenc={} fti={} icenc={} mode={} il={} once=1 maxerr=0 cache=10485760 md5=1 tc={} bld=S opn=1{} ; O {} {} 0 1 ; X {} {} {}",
            fec, e, b, par,
            if rng.chance(1, 6) { "zlib" } else { "null" },
            rng.below(2), rng.below(2),
            if rng.chance(1, 2) { "full" } else { "bt" },
            rng.range(1, 4),
            rng.range(1, 3),
            tail,
            len, i % 19, xk, rng.below(1 << 30), xa
        ));
    }
}

/// C16: carousel sessions, the receiver joins at every packet offset of the first cycle
fn gen_carousel(args: &Args, emit: &mut dyn FnMut(String)) {
    let thorough = args.tier == "thorough";
    let mut rng = Rng::new(args.seed.wrapping_mul(911).wrapping_add(5));
    let configs = if thorough { 60 } else { 12 };
    let mut n = 0u64;
    for ci in 0..configs {
        let fec = *rng.pick(&["nocode", "rs28", "rs28us", "raptorq", "raptor"]);
        let e = *rng.pick(&[8u32, 16]);
        let b = if fec == "raptor" { 5 } else { *rng.pick(&[2u32, 3, 4]) };
        let par = if fec == "nocode" { 0 } else { 1 };
        let nobj = rng.range(1, 3);
        let car = *rng.pick(&["d0", "d50", "i100"]);
        let mut osecs = Vec::new();
        for k in 0..nobj {
            osecs.push(format!("O {} {} 0 {}", if rng.chance(1, 10) { 0 } else { rng.range(1, (e * b) as u64 * 3) }, k + ci, rng.below(2)));
        }
        // content encodings too: announced in-band or only in the FDT, with or without a Content-MD5
        let cenc = if ci % 3 == 2 { *rng.pick(&["zlib", "gzip", "deflate"]) } else { "null" };
        let head = format!(
            "V fec={} e={} b={} par={} cenc={} fti={} icenc={} mode={} il={} once=1 maxerr=0 cache=10485760 md5=1 tc=1 bld=S opn=1 car={} fcar={} idlems=300 maxpk={}{} ; {}",
            fec, e, b, par, cenc, rng.below(2), rng.below(2),
            if rng.chance(1, 2) { "full" } else { "bt" },
            rng.range(1, 3), car, *rng.pick(&[0u32, 40, 100]), if thorough { 400 } else { 260 },
            // one object at a time in half of the configurations (transfers that never overlap)
            if ci % 2 == 1 { " pq=0:1" } else { "" },
            osecs.join(" ; ")
        );
        // join offsets: every packet index of (roughly) the first cycle
        for off in 0..(if thorough { 80 } else { 50 }) {
            n += 1;
            if n % args.shard.1 != args.shard.0 {
                continue;
            }
            emit(format!("{} ; X late 1 {}", head, off));
        }
        // and joins in LATER cycles (a sender that announces an object only during its first
        // transfer is invisible to the joins above): a longer recording, sparser offsets
        let head_long = head.replace(&format!("maxpk={}", if thorough { 400 } else { 260 }), "maxpk=700");
        let mut off = if thorough { 80 } else { 50 };
        while off < 260 {
            n += 1;
            if n % args.shard.1 == args.shard.0 {
                emit(format!("{} ; X late 1 {}", head_long, off));
            }
            off += if thorough { 5 } else { 13 };
        }
    }
}

pub fn run(args: &Args, kind: &str) {
    if args.worker {
        worker_loop(eval, 2048);
        return;
    }
    let mem = kind == "memrecv";
    let mut tr = Trace::new(args.out.as_deref());
    let mut pool = WorkerPool::new(kind, 20);
    if let Some(rp) = &args.replay {
        for line in std::fs::read_to_string(rp).unwrap().lines() {
            let input = line.split('|').next().unwrap().trim();
            if input.is_empty() || input.starts_with('#') {
                continue;
            }
            let out = pool.eval(input);
            tr.line(&format!("{} | {}", input, out));
        }
    } else if mem || kind == "session" || kind == "loss" || kind == "carousel" {
        let g: fn(&Args, &mut dyn FnMut(String)) = match kind {
            "session" => gen_session,
            "loss" => gen_loss,
            "carousel" => gen_carousel,
            _ => gen_mem,
        };
        g(args, &mut |input: String| {
            let out = pool.eval(&input);
            tr.line(&format!("{} | {}", input, out));
        });
    } else {
        gen(args, &mut |input: String| {
            let out = pool.eval(&input);
            tr.line(&format!("{} | {}", input, out));
        });
    }
    tr.finish();
}
