//! C06: ALC/LCT wire format.  Lines (numbers hex, '-' = absent; see ocaml/c06_driver.ml):
//!   BL psi cci tsi toi cp co cs | hex                         core::lct::push_lct_header
//!   NT now_ns | Ok ntp us|ERR / ERR                           tools::system_time_to_ntp + ntp_to_system_time
//!   BP fec inst B E parity ss inband cci tsi toi fdtid cenc ibcenc co sbn esi sbl sct L prof now payload
//!      | Ok hex / PANIC                                       alc::new_alc_pkt
//!   R  m v c psi s o h res a b cp cci tsi toi n ext*n sbn.esi.sbl payload | Ok ... / ERR / PANIC
//!      the bytes are produced by the extracted Gallina RFC encoder (ocaml/build/c06_driver --encode)
//!      and fed to core::alc::parse_alc_pkt / parse_payload_id / get_sender_current_time
//!   M  m hex | Ok ... / ERR / PANIC                           the parser on raw (mutated) bytes
use crate::util::*;
use flute::core::alc::{get_sender_current_time, parse_alc_pkt, parse_payload_id};
use flute::core::{FECEncodingID, Oti};
use flute::verif_hooks::oti::{
    RaptorQSchemeSpecific, RaptorSchemeSpecific, ReedSolomonGF2MSchemeSpecific, SchemeSpecific,
};
use std::time::{Duration, SystemTime, UNIX_EPOCH};

fn hx128(s: &str) -> u128 {
    u128::from_str_radix(s, 16).unwrap()
}
fn hx64(s: &str) -> u64 {
    u64::from_str_radix(s, 16).unwrap()
}
fn hx32(s: &str) -> u32 {
    u32::from_str_radix(s, 16).unwrap()
}

fn fec_of(code: u64) -> Option<FECEncodingID> {
    match code {
        0 => Some(FECEncodingID::NoCode),
        1 => Some(FECEncodingID::Raptor),
        2 => Some(FECEncodingID::ReedSolomonGF2M),
        5 => Some(FECEncodingID::ReedSolomonGF28),
        6 => Some(FECEncodingID::RaptorQ),
        129 => Some(FECEncodingID::ReedSolomonGF28UnderSpecified),
        _ => None,
    }
}

fn ss_of(s: &str) -> Option<SchemeSpecific> {
    let t: Vec<&str> = s.split('.').collect();
    match t[0] {
        "-" => None,
        "R" => Some(SchemeSpecific::ReedSolomon(ReedSolomonGF2MSchemeSpecific {
            m: hx32(t[1]) as u8,
            g: hx32(t[2]) as u8,
        })),
        "Q" => Some(SchemeSpecific::RaptorQ(RaptorQSchemeSpecific {
            source_blocks_length: hx32(t[1]) as u8,
            sub_blocks_length: hx32(t[2]) as u16,
            symbol_alignment: hx32(t[3]) as u8,
        })),
        "P" => Some(SchemeSpecific::Raptor(RaptorSchemeSpecific {
            source_blocks_length: hx32(t[1]) as u16,
            sub_blocks_length: hx32(t[2]) as u8,
            symbol_alignment: hx32(t[3]) as u8,
        })),
        _ => panic!("bad ss"),
    }
}

fn time_of(s: &str) -> SystemTime {
    if let Some(r) = s.strip_prefix('-') {
        let ns = hx128(r);
        UNIX_EPOCH - Duration::new((ns / 1_000_000_000) as u64, (ns % 1_000_000_000) as u32)
    } else {
        let ns = hx128(s);
        UNIX_EPOCH + Duration::new((ns / 1_000_000_000) as u64, (ns % 1_000_000_000) as u32)
    }
}

fn show_ss(s: &Option<SchemeSpecific>) -> String {
    match s {
        None => "-".into(),
        Some(SchemeSpecific::ReedSolomon(r)) => format!("0:{:x}:{:x}:0", r.m, r.g),
        Some(SchemeSpecific::RaptorQ(r)) => format!(
            "1:{:x}:{:x}:{:x}",
            r.source_blocks_length, r.sub_blocks_length, r.symbol_alignment
        ),
        Some(SchemeSpecific::Raptor(r)) => format!(
            "2:{:x}:{:x}:{:x}",
            r.source_blocks_length, r.sub_blocks_length, r.symbol_alignment
        ),
    }
}

/// Observation of flute's parser on one datagram.
fn observe(m_session: u8, data: &[u8]) -> String {
    let r = catch(|| {
        let pkt = match parse_alc_pkt(data) {
            Ok(p) => p,
            Err(_) => return "ERR".to_string(),
        };
        let fec = fec_of(pkt.lct.cp as u64).unwrap();
        let oti = match &pkt.oti {
            Some(o) => o.clone(),
            None => Oti {
                fec_encoding_id: fec,
                fec_instance_id: 0,
                maximum_source_block_length: 64,
                encoding_symbol_length: 1024,
                max_number_of_parity_symbols: 0,
                scheme_specific: match fec {
                    FECEncodingID::ReedSolomonGF2M => {
                        Some(SchemeSpecific::ReedSolomon(ReedSolomonGF2MSchemeSpecific { m: m_session, g: 1 }))
                    }
                    _ => None,
                },
                inband_fti: false,
            },
        };
        let fdt = match &pkt.fdt_info {
            Some(f) => format!("{:x}.{:x}", f.version, f.fdt_instance_id),
            None => "-".into(),
        };
        let cenc = match pkt.cenc {
            Some(c) => format!("{:x}", c as u8),
            None => "-".into(),
        };
        let fti = match (&pkt.oti, pkt.transfer_length) {
            (Some(o), Some(l)) => format!(
                "{:x}.{:x}.{:x}.{:x}.{:x}.{}.{:x}",
                o.fec_encoding_id as u8,
                o.fec_instance_id,
                o.maximum_source_block_length,
                o.encoding_symbol_length,
                o.max_number_of_parity_symbols,
                show_ss(&o.scheme_specific),
                l
            ),
            _ => "-".into(),
        };
        let sct = match catch(|| get_sender_current_time(&pkt)) {
            None => "PANIC".to_string(),
            Some(Err(_)) => "ERR".into(),
            Some(Ok(None)) => "-".into(),
            Some(Ok(Some(t))) => match t.duration_since(UNIX_EPOCH) {
                Ok(d) => format!("{:x}", d.as_micros()),
                Err(_) => "ERR".into(),
            },
        };
        let pid = match catch(|| parse_payload_id(&pkt, &oti)) {
            None => "PANIC".to_string(),
            Some(Err(_)) => "ERR".into(),
            Some(Ok(p)) => format!(
                "{:x}.{:x}.{}",
                p.sbn,
                p.esi,
                match p.source_block_length {
                    Some(v) => format!("{:x}", v),
                    None => "-".into(),
                }
            ),
        };
        format!(
            "Ok {:x} {:x} {:x} {:x} {} {} fdt={} cenc={} fti={} sct={} pid={} off={:x}",
            pkt.lct.cci,
            pkt.lct.tsi,
            pkt.lct.toi,
            pkt.lct.cp,
            pkt.lct.close_object as u8,
            pkt.lct.close_session as u8,
            fdt,
            cenc,
            fti,
            sct,
            pid,
            pkt.data_payload_offset
        )
    });
    r.unwrap_or_else(|| "PANIC".into())
}

/// BP tokens: 0 BP 1 fec 2 inst 3 B 4 E 5 parity 6 ss 7 inband 8 cci 9 tsi 10 toi 11 fdtid 12 cenc
/// 13 ibcenc 14 co 15 sbn 16 esi 17 sbl 18 sct 19 L 20 prof 21 now 22 payload
fn build_pkt(t: &[&str]) -> Option<Vec<u8>> {
    let fec = fec_of(hx64(t[1])).unwrap();
    let oti = Oti {
        fec_encoding_id: fec,
        fec_instance_id: hx32(t[2]) as u16,
        maximum_source_block_length: hx32(t[3]),
        encoding_symbol_length: hx32(t[4]) as u16,
        max_number_of_parity_symbols: hx32(t[5]),
        scheme_specific: ss_of(t[6]),
        inband_fti: t[7] == "1",
    };
    let cci = hx128(t[8]);
    let tsi = hx64(t[9]);
    let pkt = flute::verif_hooks::pkt::Pkt {
        payload: unhex(t[22]),
        transfer_length: hx64(t[19]),
        esi: hx32(t[16]),
        sbn: hx32(t[15]),
        toi: hx128(t[10]),
        fdt_id: if t[11] == "-" { None } else { Some(hx32(t[11])) },
        cenc: (hx32(t[12]) as u8).try_into().unwrap(),
        inband_cenc: t[13] == "1",
        close_object: t[14] == "1",
        source_block_length: hx32(t[17]),
        sender_current_time: t[18] == "1",
    };
    let prof = if t[20] == "2" { flute::sender::Profile::RFC6726 } else { flute::sender::Profile::RFC3926 };
    let now = time_of(t[21]);
    catch(|| flute::verif_hooks::alc::new_alc_pkt(&oti, &cci, tsi, &pkt, prof, now))
}

/// Evaluate one input line that needs no external bytes (BL, NT, BP, M).
pub fn eval(input: &str) -> String {
    let t: Vec<&str> = input.split_whitespace().collect();
    match t[0] {
        "BL" => {
            let (psi, cci, tsi, toi, cp) = (hx32(t[1]) as u8, hx128(t[2]), hx64(t[3]), hx128(t[4]), hx32(t[5]) as u8);
            let (co, cs) = (t[6] == "1", t[7] == "1");
            match catch(|| {
                let mut v = Vec::new();
                flute::core::lct::push_lct_header(&mut v, psi, &cci, tsi, &toi, cp, co, cs);
                v
            }) {
                Some(v) => hex(&v),
                None => "PANIC".into(),
            }
        }
        "NT" => {
            let now = time_of(t[1]);
            match catch(|| flute::verif_hooks::tools::system_time_to_ntp(now)) {
                None => "PANIC".into(),
                Some(Err(_)) => "ERR".into(),
                Some(Ok(ntp)) => match catch(|| flute::verif_hooks::tools::ntp_to_system_time(ntp)) {
                    Some(Ok(st)) => match st.duration_since(UNIX_EPOCH) {
                        Ok(d) => format!("Ok {:x} {:x}", ntp, d.as_micros()),
                        Err(_) => format!("Ok {:x} ERR", ntp),
                    },
                    _ => format!("Ok {:x} ERR", ntp),
                },
            }
        }
        "BP" => match build_pkt(&t) {
            Some(v) => format!("Ok {}", hex(&v)),
            None => "PANIC".into(),
        },
        "M" => observe(hx32(t[1]) as u8, &unhex(t[2])),
        _ => "BAD".into(),
    }
}

// ------------------------------------------------------------------------------------------
// generators
fn below128(rng: &mut Rng, bits: u32) -> u128 {
    if bits == 0 {
        return 0;
    }
    let v = ((rng.next() as u128) << 64) | rng.next() as u128;
    if bits >= 128 {
        v
    } else {
        v & ((1u128 << bits) - 1)
    }
}
/// a value of exactly the class "needs `bits` bits rounded up to 16" : boundary or random
fn in_class(rng: &mut Rng, lo_bits: u32, hi_bits: u32) -> u128 {
    // values v with 2^lo_bits <= v < 2^hi_bits (or 0 when hi_bits = 0)
    if hi_bits == 0 {
        return 0;
    }
    let lo: u128 = if lo_bits == 0 { 1 } else { 1u128 << lo_bits };
    let hi: u128 = if hi_bits >= 128 { u128::MAX } else { (1u128 << hi_bits) - 1 };
    match rng.below(4) {
        0 => lo,
        1 => hi,
        _ => lo + below128(rng, 127) % (hi - lo + 1),
    }
}
fn boundary(rng: &mut Rng, bits: u32) -> u64 {
    // a value below 2^bits, biased to the boundaries
    let max: u64 = if bits >= 64 { u64::MAX } else { (1u64 << bits) - 1 };
    match rng.below(6) {
        0 => 0,
        1 => 1,
        2 => max,
        3 => max - max.min(1),
        _ => rng.next() & max,
    }
}

fn gen_bl(args: &Args, rng: &mut Rng, emit: &mut dyn FnMut(String)) {
    let reps = if args.tier == "thorough" { 6 } else { 1 };
    // exhaustive over the width classes flute can select: CCI 0 + 8 groups, TSI 0..3 groups, TOI 0..7 groups
    for cg in 0..=8u32 {
        for tg in 0..=3u32 {
            for og in 0..=7u32 {
                for flags in 0..4u32 {
                    for psi in 0..4u32 {
                        for _ in 0..reps {
                            let cci = if cg == 0 { 0 } else { in_class(rng, 16 * (cg - 1), 16 * cg) };
                            let tsi = if tg == 0 { 0 } else { in_class(rng, 16 * (tg - 1), 16 * tg) } as u64;
                            let toi = if og == 0 { 0 } else { in_class(rng, 16 * (og - 1), 16 * og) };
                            let cp = rng.below(256);
                            emit(format!(
                                "BL {:x} {:x} {:x} {:x} {:x} {} {}",
                                psi, cci, tsi, toi, cp, flags & 1, flags >> 1
                            ));
                        }
                    }
                }
            }
        }
    }
    // bit sweep: every single bit, every all-ones prefix, every nibble position and bit-plus-one of each
    // field (a width selected by a mask that is off by a nibble shows only on values such as 2^76)
    for (field, bits) in [(0u32, 128u32), (1, 48), (2, 112)] {
        for k in 0..bits {
            let one: u128 = 1u128 << k;
            let pats = [one, one.wrapping_sub(1), (0xFu128 << k) & if bits >= 128 { u128::MAX } else { (1u128 << bits) - 1 }, one | 1];
            for v in pats {
                let (cci, tsi, toi) = match field {
                    0 => (v, 1u128, 1u128),
                    1 => (0u128, v, 1u128),
                    _ => (0u128, 1u128, v),
                };
                emit(format!("BL 0 {:x} {:x} {:x} 0 0 0", cci, tsi, toi));
            }
        }
    }
    // outside the property's ranges (TSI >= 2^48, TOI >= 2^112, PSI >= 4): model correspondence only
    for _ in 0..200 {
        let cci = below128(rng, 128);
        let tsi = rng.next() | (1 << (48 + rng.below(16)));
        let toi = below128(rng, 128) | (1u128 << (112 + rng.below(16) as u32));
        emit(format!("BL {:x} {:x} {:x} {:x} {:x} 0 1", rng.below(256), cci, tsi, toi, rng.below(256)));
    }
}

const ERA_END_S: u64 = 4294967296 - 2208988800; // first second that no longer fits NTP era 0

fn gen_time(rng: &mut Rng) -> String {
    // nanoseconds since the epoch, 1970 .. NTP era end, biased to boundaries; a few outside
    let s = match rng.below(8) {
        0 => 0,
        1 => ERA_END_S - 1,
        2 => rng.below(3),
        3 => ERA_END_S - 1 - rng.below(3),
        _ => rng.below(ERA_END_S),
    };
    let ns = match rng.below(8) {
        0 => 0,
        1 => 999_999_999,
        2 => 1000 * rng.below(1_000_000),
        3 => 1000 * rng.below(1_000_000) + 999,
        4 => 1000,
        5 => 999_999_000,
        _ => rng.below(1_000_000_000),
    };
    format!("{:x}", s as u128 * 1_000_000_000 + ns as u128)
}

fn gen_nt(args: &Args, rng: &mut Rng, emit: &mut dyn FnMut(String)) {
    let n = if args.tier == "thorough" { 200_000 } else { 4000 };
    for us in [0u64, 1, 2, 3, 999_999, 1_000_000, 1_000_001] {
        emit(format!("NT {:x}", us as u128 * 1000));
    }
    for _ in 0..n {
        emit(format!("NT {}", gen_time(rng)));
    }
    // outside: before the epoch, after the era end
    for _ in 0..50 {
        emit(format!("NT -{:x}", rng.below(1 << 40)));
        emit(format!("NT {:x}", (ERA_END_S + rng.below(1 << 20)) as u128 * 1_000_000_000 + rng.below(1_000_000_000) as u128));
    }
}

struct Scheme {
    fec: u64,
    l_bits: u32,
}
const SCHEMES: [Scheme; 6] = [
    Scheme { fec: 0, l_bits: 48 },
    Scheme { fec: 5, l_bits: 48 },
    Scheme { fec: 129, l_bits: 48 },
    Scheme { fec: 2, l_bits: 48 },
    Scheme { fec: 6, l_bits: 40 },
    Scheme { fec: 1, l_bits: 48 },
];

/// (inst, B, parity, ss, m) within the scheme's ranges
fn gen_oti(rng: &mut Rng, fec: u64, in_range: bool) -> (u64, u64, u64, String, u32) {
    match fec {
        0 => (0, boundary(rng, 32), 0, "-".into(), 8),
        5 => {
            let n = if in_range { boundary(rng, 8) } else { rng.range(256, 70000) };
            let b = rng.below(n + 1);
            (0, b, n - b, "-".into(), 8)
        }
        129 => {
            let n = if in_range { boundary(rng, 16) } else { rng.range(65536, 1 << 33) };
            let b = rng.below(n.min(u32::MAX as u64) + 1);
            (boundary(rng, 16), b, (n - b).min(u32::MAX as u64), "-".into(), 8)
        }
        2 => {
            let n = if in_range { boundary(rng, 16) } else { rng.range(65536, 1 << 20) };
            let b = rng.below(n + 1);
            let m = if rng.chance(1, 2) { 8 } else { rng.range(1, if in_range { 31 } else { 40 }) as u32 };
            (0, b, n - b, format!("R.{:x}.{:x}", m, rng.below(256)), m)
        }
        6 => (
            0,
            boundary(rng, 16),
            boundary(rng, 16),
            format!("Q.{:x}.{:x}.{:x}", boundary(rng, 8), boundary(rng, 16), boundary(rng, 8)),
            8,
        ),
        _ => (
            0,
            boundary(rng, 16),
            boundary(rng, 16),
            format!("P.{:x}.{:x}.{:x}", boundary(rng, 16), boundary(rng, 8), boundary(rng, 8)),
            8,
        ),
    }
}

fn gen_pid(rng: &mut Rng, fec: u64, m: u32, in_range: bool) -> (u64, u64, u64) {
    if !in_range {
        return (rng.next() & 0xFFFF_FFFF, rng.next() & 0xFFFF_FFFF, rng.next() & 0xFFFF_FFFF);
    }
    match fec {
        0 | 1 => (boundary(rng, 16), boundary(rng, 16), boundary(rng, 32)),
        5 => (boundary(rng, 24), boundary(rng, 8), boundary(rng, 32)),
        129 => (boundary(rng, 32), boundary(rng, 16), boundary(rng, 16)),
        6 => (boundary(rng, 8), boundary(rng, 24), boundary(rng, 32)),
        _ => (boundary(rng, 32 - m.min(31)), boundary(rng, m.min(8)), boundary(rng, 32)),
    }
}

fn gen_l(rng: &mut Rng, bits: u32, in_range: bool) -> u64 {
    if !in_range {
        return (1u64 << bits) + (rng.next() >> (64 - (63 - bits))) % (u64::MAX - (1u64 << bits));
    }
    match rng.below(8) {
        0 => 0,
        1 => 1,
        2 => (1u64 << bits) - 1,
        3 => (1u64 << bits) - 2,
        4 => (1u64 << 40) - 1,
        5 => ((1u64 << 40) + rng.below(3)).min((1u64 << bits) - 1),
        _ => rng.next() & ((1u64 << bits) - 1),
    }
}

fn gen_bp_line(rng: &mut Rng, sc: &Scheme, toi_kind: u64, opts: u64, in_range: bool) -> String {
    // opts bits: 0 inband_fti, 1 inband_cenc, 2 sct, 3 close_object, 4 profile, 5.. cenc (0..3)
    let r1 = in_range || rng.chance(1, 2);
    let (inst, b, parity, ss, m) = gen_oti(rng, sc.fec, r1);
    let e = boundary(rng, 16);
    let cg = rng.below(9) as u32;
    let cci = if cg == 0 { 0 } else { in_class(rng, 16 * (cg - 1), 16 * cg) };
    let tg = rng.range(0, 3) as u32;
    let tsi = if !in_range && rng.chance(1, 3) {
        rng.next() | (1 << 50)
    } else if tg == 0 {
        0
    } else {
        in_class(rng, 16 * (tg - 1), 16 * tg) as u64
    };
    let toi: u128 = match toi_kind {
        0 => 0,
        _ => {
            let og = if toi_kind == 1 { 1 } else { rng.range(1, 7) as u32 };
            in_class(rng, 16 * (og - 1), 16 * og)
        }
    };
    let fdtid = if toi == 0 {
        format!("{:x}", if in_range || rng.chance(1, 2) { boundary(rng, 20) } else { boundary(rng, 32) | (1 << 20) })
    } else if rng.chance(1, 4) {
        format!("{:x}", boundary(rng, 20))
    } else {
        "-".into()
    };
    let r2 = in_range || rng.chance(1, 2);
    let (sbn, esi, sbl) = gen_pid(rng, sc.fec, m, r2);
    let r3 = in_range || rng.chance(1, 2);
    let l = gen_l(rng, sc.l_bits, r3);
    let plen = match rng.below(4) {
        0 => 0,
        1 => 1,
        _ => rng.below(40),
    } as usize;
    let now = if !in_range && rng.chance(1, 3) {
        format!("{:x}", (ERA_END_S + rng.below(1000)) as u128 * 1_000_000_000)
    } else {
        gen_time(rng)
    };
    format!(
        "BP {:x} {:x} {:x} {:x} {:x} {} {} {:x} {:x} {:x} {} {:x} {} {} {:x} {:x} {:x} {} {:x} {} {} {}",
        sc.fec,
        inst,
        b,
        e,
        parity,
        ss,
        opts & 1,
        cci,
        tsi,
        toi,
        fdtid,
        (opts >> 5) & 3,
        (opts >> 1) & 1,
        (opts >> 3) & 1,
        sbn,
        esi,
        sbl,
        (opts >> 2) & 1,
        l,
        if (opts >> 4) & 1 == 1 { 2 } else { 1 },
        now,
        hex(&rng.bytes(plen))
    )
}

fn gen_bp(args: &Args, rng: &mut Rng, emit: &mut dyn FnMut(String)) {
    let reps = if args.tier == "thorough" { 8 } else { 1 };
    // exhaustive: scheme x {FDT, 16-bit TOI, wide TOI} x all 128 option combinations
    for sc in SCHEMES.iter() {
        for toi_kind in 0..3 {
            for opts in 0..128u64 {
                for _ in 0..reps {
                    emit(gen_bp_line(rng, sc, toi_kind, opts, true));
                }
            }
        }
    }
    // values outside the property's ranges (model correspondence, panics of checked arithmetic)
    let n = if args.tier == "thorough" { 6000 } else { 600 };
    for _ in 0..n {
        let sc = &SCHEMES[rng.below(6) as usize];
        let (tk, op) = (rng.below(3), rng.below(128));
        emit(gen_bp_line(rng, sc, tk, op, false));
    }
}

// ---------- R lines: abstract RFC packets, encoded by the Gallina RFC encoder ----------
const CPS: [u64; 8] = [0, 5, 129, 2, 6, 1, 3, 255];

fn gen_fti_ext(rng: &mut Rng, cp: u64) -> (String, u32) {
    // (token, m); mostly values a receiver must accept, sometimes any field values
    let any = rng.chance(1, 8);
    let l48 = gen_l(rng, 48, true);
    let e = if any { boundary(rng, 16) } else { boundary(rng, 16).max(1) };
    match cp {
        0 => (format!("I0.{:x}.{:x}.{:x}.{:x}", l48, if rng.chance(1, 3) { boundary(rng, 16) } else { 0 }, e, boundary(rng, 32)), 8),
        5 => {
            let n = boundary(rng, 8);
            let b = if any { boundary(rng, 8) } else { rng.below(n + 1) };
            (format!("I5.{:x}.{:x}.{:x}.{:x}", l48, e, b, n), 8)
        }
        129 => {
            let n = boundary(rng, 16);
            let b = if any { boundary(rng, 16) } else { rng.below(n + 1) };
            (format!("I129.{:x}.{:x}.{:x}.{:x}.{:x}", l48, boundary(rng, 16), e, b, n), 8)
        }
        2 => {
            let n = boundary(rng, 16);
            let b = if any { boundary(rng, 16) } else { rng.below(n + 1) };
            let m = match rng.below(4) {
                0 => 0,
                1 => 8,
                2 => 16,
                _ => rng.range(1, 31),
            };
            (format!("I2.{:x}.{:x}.{:x}.{:x}.{:x}.{:x}", l48, m, boundary(rng, 8), e, b, n), if m == 0 { 8 } else { m as u32 })
        }
        6 | 1 => {
            let al = if any { boundary(rng, 8) } else { *rng.pick(&[1u64, 2, 4, 8]) };
            let t = if any { boundary(rng, 16) } else { (al * rng.range(1, 65535 / al)).max(al) };
            if cp == 6 {
                let z = if any { boundary(rng, 8) } else { boundary(rng, 8).max(1) };
                (
                    format!(
                        "I6.{:x}.{:x}.{:x}.{:x}.{:x}.{:x}.{:x}",
                        gen_l(rng, 40, true),
                        if rng.chance(1, 3) { boundary(rng, 8) } else { 0 },
                        t,
                        z,
                        boundary(rng, 16),
                        al,
                        if rng.chance(1, 3) { boundary(rng, 16) } else { 0 }
                    ),
                    8,
                )
            } else {
                let z = if any { boundary(rng, 16) } else { boundary(rng, 16).max(1) };
                (
                    format!(
                        "I1.{:x}.{:x}.{:x}.{:x}.{:x}.{:x}",
                        l48,
                        if rng.chance(1, 3) { boundary(rng, 16) } else { 0 },
                        t,
                        z,
                        boundary(rng, 8),
                        al
                    ),
                    8,
                )
            }
        }
        _ => (format!("U.40.1.{}", hex(&rng.bytes(2))), 8),
    }
}

fn gen_unknown_var(rng: &mut Rng, long: bool) -> String {
    let het = loop {
        let h = rng.below(128);
        if h != 2 && h != 64 {
            break h;
        }
    };
    let hel = if long { *rng.pick(&[63u64, 64, 65, 66, 127, 128, 129, 191, 192, 193, 254, 255]) } else { rng.range(1, 5) };
    format!("U.{:x}.{:x}.{}", het, hel, hex(&rng.bytes((4 * hel - 2) as usize)))
}
fn gen_unknown_fix(rng: &mut Rng) -> String {
    let het = loop {
        let h = rng.range(128, 255);
        if h != 192 && h != 193 {
            break h;
        }
    };
    format!("X.{:x}.{}", het, hex(&rng.bytes(3)))
}

fn gen_time_ext(rng: &mut Rng) -> String {
    let (shi, slo) = match rng.below(8) {
        0 => (0, 0),
        1 => (1, 0),
        2 => (0, 1),
        _ => (1, 1),
    };
    let ert = rng.chance(1, 4) as u64;
    let slc = rng.chance(1, 4) as u64;
    let hi = match rng.below(6) {
        0 => 2208988800u64,
        1 => 0xFFFF_FFFF,
        2 => 2208988799,
        3 => rng.below(2208988800),
        _ => rng.range(2208988800, 0xFFFF_FFFF),
    };
    let lo = match rng.below(5) {
        0 => 0,
        1 => 0xFFFF_FFFF,
        2 => 4295, // just above one microsecond
        _ => rng.next() & 0xFFFF_FFFF,
    };
    format!(
        "T.{}.{}.{}.{}.{:x}.{:x}.{:x}.{:x}.{:x}.{:x}",
        shi,
        slo,
        ert,
        slc,
        if rng.chance(1, 3) { rng.below(16) } else { 0 },
        if rng.chance(1, 3) { rng.below(256) } else { 0 },
        hi,
        lo,
        rng.next() & 0xFFFF_FFFF,
        rng.next() & 0xFFFF_FFFF
    )
}

/// one R descriptor: width class (c,s,o,h), codepoint, subset of extensions (bit mask:
/// 1 FDT, 2 CENC, 4 TIME, 8 FTI, 16 unknown short, 32 unknown long)
fn gen_r_line(rng: &mut Rng, c: u32, s: u32, o: u32, h: u32, cp: u64, subset: u32, odd: bool) -> String {
    let v = if odd && rng.chance(1, 2) { *rng.pick(&[0u64, 3, 15]) } else { rng.range(1, 2) };
    let psi = if rng.chance(1, 2) { 0 } else { rng.below(4) };
    let res = if rng.chance(1, 2) { 0 } else { rng.below(4) };
    let cci_bits = 32 * (c + 1);
    let tsi_bits = 32 * s + 16 * h;
    let toi_bits = 32 * o + 16 * h;
    let pick = |rng: &mut Rng, bits: u32| -> u128 {
        if bits == 0 {
            0
        } else {
            match rng.below(4) {
                0 => 0,
                1 => (if bits >= 128 { u128::MAX } else { (1u128 << bits) - 1 }),
                2 => below128(rng, bits.min(16)), // much narrower than the field
                _ => below128(rng, bits),
            }
        }
    };
    let cci = pick(rng, cci_bits);
    let tsi = pick(rng, tsi_bits);
    let toi = if subset & 1 == 1 && rng.chance(3, 4) { 0 } else { pick(rng, toi_bits) };
    let mut exts: Vec<String> = Vec::new();
    let mut m = 8u32;
    if subset & 1 != 0 {
        exts.push(format!("F.{:x}.{:x}", rng.below(16), boundary(rng, 20)));
    }
    if subset & 2 != 0 {
        exts.push(format!(
            "C.{:x}.{:x}",
            if rng.chance(1, 8) { rng.below(256) } else { rng.below(4) },
            if rng.chance(1, 3) { boundary(rng, 16) } else { 0 }
        ));
    }
    if subset & 4 != 0 {
        exts.push(gen_time_ext(rng));
    }
    if subset & 8 != 0 {
        let (t, mm) = gen_fti_ext(rng, cp);
        m = mm;
        exts.push(t);
    }
    if subset & 16 != 0 {
        exts.push(if rng.chance(1, 2) { gen_unknown_var(rng, false) } else { gen_unknown_fix(rng) });
    }
    if subset & 32 != 0 {
        exts.push(gen_unknown_var(rng, true));
    }
    // an RFC sender may order extensions freely
    for i in (1..exts.len()).rev() {
        let j = rng.below(i as u64 + 1) as usize;
        exts.swap(i, j);
    }
    // total header length must fit HDR_LEN (8 bits, in words): drop the long one otherwise (cannot be encoded)
    let m_session = if subset & 8 == 0 && cp == 2 { *rng.pick(&[8u32, 16, 4, 1, 31]) } else { m };
    let (sbn, esi, sbl) = gen_pid(rng, cp, if cp == 2 { m_session } else { 8 }, true);
    let plen = match rng.below(4) {
        0 => 0,
        _ => rng.below(24),
    } as usize;
    format!(
        "R {:x} {:x} {:x} {:x} {:x} {:x} {:x} {:x} {:x} {:x} {:x} {:x} {:x} {:x} {:x} {} {:x}.{:x}.{:x} {}",
        m_session,
        v,
        c,
        psi,
        s,
        o,
        h,
        res,
        rng.below(2),
        rng.below(2),
        cp,
        cci,
        tsi,
        toi,
        exts.len(),
        exts.join(" "),
        sbn,
        esi,
        sbl,
        hex(&rng.bytes(plen))
    )
    .replace("  ", " ")
}

fn ext_words(tok: &str) -> u64 {
    let t: Vec<&str> = tok.split('.').collect();
    match t[0] {
        "U" => u64::from_str_radix(t[2], 16).unwrap(),
        "T" => 1 + t[1..5].iter().filter(|x| **x == "1").count() as u64,
        "I5" => 3,
        "F" | "C" | "X" => 1,
        _ => 4,
    }
}

fn gen_r(args: &Args, rng: &mut Rng, out: &mut Vec<String>) {
    let thorough = args.tier == "thorough";
    let mut k = 0usize;
    let mut push = |line: String, out: &mut Vec<String>| {
        // HDR_LEN is an 8-bit field: skip shapes whose header would exceed 255 words
        let t: Vec<&str> = line.split_whitespace().collect();
        let n = usize::from_str_radix(t[15], 16).unwrap();
        let fixed = 2 + hx64(t[3]) + hx64(t[5]) + hx64(t[6]) + hx64(t[7]);
        let words: u64 = fixed + t[16..16 + n].iter().map(|x| ext_words(x)).sum::<u64>();
        if words <= 255 {
            out.push(line);
        }
    };
    // exhaustive: 64 width classes x 64 extension subsets (x 8 codepoints in the thorough tier)
    for c in 0..4 {
        for s in 0..2 {
            for o in 0..4 {
                for h in 0..2 {
                    for subset in 0..64u32 {
                        if thorough {
                            for cp in CPS.iter() {
                                for _ in 0..2 {
                                    push(gen_r_line(rng, c, s, o, h, *cp, subset, false), out);
                                }
                            }
                        } else {
                            let cp = CPS[k % 8];
                            k += 1;
                            if k % 64 == 0 {
                                k += 1; // rotate so that every (subset, codepoint) pair occurs
                            }
                            push(gen_r_line(rng, c, s, o, h, cp, subset, false), out);
                        }
                    }
                }
            }
        }
    }
    // every (codepoint, subset) pair at least a few times in the quick tier, random classes
    let extra = if thorough { 20000 } else { 3000 };
    for i in 0..extra {
        let cp = CPS[i % 8];
        let subset = ((i / 8) % 64) as u32;
        let (c, s_, o, h) = (rng.below(4) as u32, rng.below(2) as u32, rng.below(4) as u32, rng.below(2) as u32);
        push(gen_r_line(rng, c, s_, o, h, cp, subset, i % 10 == 0), out);
    }
}

fn mutate(rng: &mut Rng, data: &[u8]) -> Vec<u8> {
    let mut v = data.to_vec();
    match rng.below(7) {
        0 => {
            let n = rng.below(v.len() as u64 + 1) as usize;
            v.truncate(n)
        }
        1 if !v.is_empty() => {
            let i = rng.below(v.len() as u64) as usize;
            v[i] ^= 1 << rng.below(8)
        }
        2 if v.len() > 2 => v[2] = rng.next() as u8,
        3 if v.len() > 1 => v[1] = rng.next() as u8,
        4 if !v.is_empty() => {
            let i = rng.below(v.len().min(24) as u64) as usize;
            v[i] = rng.next() as u8
        }
        5 => {
            let n = rng.below(8) as usize;
            v.extend(rng.bytes(n))
        }
        _ => {
            let n = rng.below(6) as usize;
            v = rng.bytes(n)
        }
    }
    v
}

/// Packets of real sender sessions (Sender::read, read_close_session): one small object per FEC scheme
/// the sender supports, in-band SCT, both profiles, 16/32/48-bit TSI.  They are emitted as M lines
/// (parser correspondence on what the sender really puts on the wire).
fn sender_packets(rng: &mut Rng, k: u64) -> Vec<Vec<u8>> {
    use flute::core::UDPEndpoint;
    use flute::sender::{Config, ObjectDesc, Sender};
    let e: u16 = 16 * rng.range(1, 8) as u16;
    let oti = match k % 5 {
        0 => Oti::new_no_code(e, 8),
        1 => Oti::new_reed_solomon_rs28(e, 8, 2).unwrap(),
        2 => Oti::new_reed_solomon_rs28_under_specified(e, 8, 2).unwrap(),
        3 => Oti::new_raptorq(e, 8, 2, 1, 4).unwrap(),
        _ => Oti::new_raptor(e, 8, 2, 1, 4).unwrap(),
    };
    let mut cfg = Config::default();
    cfg.fdt_inband_sct = true;
    cfg.profile = if rng.chance(1, 2) { flute::sender::Profile::RFC6726 } else { flute::sender::Profile::RFC3926 };
    cfg.fdt_start_id = rng.below(1 << 20) as u32;
    let tsi = *rng.pick(&[1u64, 0xFFFF, 0x1_0000, 0xFFFF_FFFF, 0x1_0000_0000, 0xFFFF_FFFF_FFFF]);
    let ep = UDPEndpoint::new(None, "224.0.0.1".to_string(), 1234);
    let mut sender = Sender::new(ep, tsi, &oti, &cfg);
    let len = rng.range(1, 8 * e as u64 * 2) as usize;
    let obj = ObjectDesc::create_from_buffer(
        rng.bytes(len),
        "application/octet-stream",
        &url::Url::parse("file:///o").unwrap(),
        false,
        Default::default(),
    )
    .unwrap();
    let mut out = Vec::new();
    if sender.add_object(0, obj).is_err() {
        return out;
    }
    let now = UNIX_EPOCH + Duration::new(rng.below(ERA_END_S), rng.below(1_000_000_000) as u32);
    if sender.publish(now).is_err() {
        return out;
    }
    let mut guard = 0;
    while let Some(data) = sender.read(now) {
        guard += 1;
        if guard > 2000 {
            break;
        }
        out.push(data);
    }
    out.push(sender.read_close_session(now));
    out
}

fn encoder_path() -> std::path::PathBuf {
    if let Ok(p) = std::env::var("C06_ENCODER") {
        return p.into();
    }
    let exe = std::env::current_exe().unwrap();
    // <verif>/harness/target/<profile>/fluteh -> <verif>/ocaml/build/c06_driver
    exe.parent().unwrap().parent().unwrap().parent().unwrap().parent().unwrap().join("ocaml/build/c06_driver")
}

/// bytes of R descriptors through the extracted Gallina RFC encoder
fn encode_all(lines: &[String], tag: &str) -> Vec<Option<Vec<u8>>> {
    if lines.is_empty() {
        return vec![];
    }
    let dir = std::env::temp_dir();
    let inp = dir.join(format!("c06_enc_in_{}_{}.txt", std::process::id(), tag));
    let outp = dir.join(format!("c06_enc_out_{}_{}.txt", std::process::id(), tag));
    std::fs::write(&inp, lines.join("
") + "
").unwrap();
    let st = std::process::Command::new(encoder_path())
        .arg("--encode")
        .arg(&inp)
        .arg(&outp)
        .status()
        .expect("run the RFC encoder (ocaml/build/c06_driver --encode)");
    assert!(st.success(), "RFC encoder failed");
    let res: Vec<Option<Vec<u8>>> = std::fs::read_to_string(&outp)
        .unwrap()
        .lines()
        .map(|l| if l.starts_with('!') { None } else { Some(unhex(l)) })
        .collect();
    let _ = std::fs::remove_file(&inp);
    let _ = std::fs::remove_file(&outp);
    assert_eq!(res.len(), lines.len());
    res
}

fn eval_r(line: &str, bytes: &Option<Vec<u8>>) -> String {
    match bytes {
        None => "BAD".into(),
        Some(b) => {
            let m = hx32(line.split_whitespace().nth(1).unwrap()) as u8;
            observe(m, b)
        }
    }
}

pub fn run(args: &Args) {
    let mut tr = Trace::new(args.out.as_deref());
    if let Some(rp) = &args.replay {
        let lines: Vec<String> = std::fs::read_to_string(rp)
            .unwrap()
            .lines()
            .map(|l| l.split('|').next().unwrap().trim().to_string())
            .filter(|l| !l.is_empty() && !l.starts_with('#'))
            .collect();
        let rs: Vec<String> = lines.iter().filter(|l| l.starts_with("R ")).cloned().collect();
        let enc = encode_all(&rs, "replay");
        let mut k = 0;
        for l in lines.iter() {
            if l.starts_with("R ") {
                tr.line(&format!("{} | {}", l, eval_r(l, &enc[k])));
                k += 1;
            } else {
                tr.line(&format!("{} | {}", l, eval(l)));
            }
        }
        tr.finish();
        return;
    }
    let mut rng = Rng::new(args.seed);
    let mut lines: Vec<String> = Vec::new();
    {
        let mut emit = |s: String| lines.push(s);
        gen_bl(args, &mut rng, &mut emit);
        gen_nt(args, &mut rng, &mut emit);
        gen_bp(args, &mut rng, &mut emit);
    }
    gen_r(args, &mut rng, &mut lines);
    // shard: every line index i with i % n == shard
    let mine: Vec<String> = lines
        .into_iter()
        .enumerate()
        .filter(|(i, _)| *i as u64 % args.shard.1 == args.shard.0)
        .map(|(_, l)| l)
        .collect();
    let rs: Vec<String> = mine.iter().filter(|l| l.starts_with("R ")).cloned().collect();
    let enc = encode_all(&rs, &format!("{}", args.shard.0));
    let mut k = 0;
    let mut built: Vec<Vec<u8>> = Vec::new();
    for l in mine.iter() {
        if l.starts_with("R ") {
            tr.line(&format!("{} | {}", l, eval_r(l, &enc[k])));
            if let Some(b) = &enc[k] {
                if built.len() < 4000 {
                    built.push(b.clone());
                }
            }
            k += 1;
        } else {
            let out = eval(l);
            if l.starts_with("BP ") && out.starts_with("Ok ") && built.len() < 8000 {
                built.push(unhex(&out[3..]));
            }
            tr.line(&format!("{} | {}", l, out));
        }
    }
    // malformed stream: mutations of the valid packets above
    let mut mrng = Rng::new(args.seed ^ (0xC06 + args.shard.0));
    // real sender sessions (shard 0 only): Sender::read output, unmodified
    if args.shard.0 == 0 {
        let ns = if args.tier == "thorough" { 60 } else { 15 };
        for k in 0..ns {
            if let Some(pkts) = catch(|| sender_packets(&mut mrng, k)) {
                for pk in pkts {
                    let l = format!("M 8 {}", hex(&pk));
                    tr.line(&format!("{} | {}", l, eval(&l)));
                }
            }
        }
    }
    let nm = if args.tier == "thorough" { 40000 } else { 4000 } / args.shard.1.max(1);
    for _ in 0..nm {
        if built.is_empty() {
            break;
        }
        let base = &built[mrng.below(built.len() as u64) as usize];
        let mut v = mutate(&mut mrng, base);
        if mrng.chance(1, 4) {
            v = mutate(&mut mrng, &v);
        }
        let l = format!("M {:x} {}", *mrng.pick(&[8u32, 8, 16, 1, 31]), hex(&v));
        tr.line(&format!("{} | {}", l, eval(&l)));
    }
    tr.finish();
}
