//! C05: the filesystem writer never touches anything outside its destination directory.
//!
//! One case = one real FLUTE session: flute `Sender` -> ALC packets -> (the FDT instance of TOI 0 is
//! re-packetised with flute's own `new_alc_pkt` after its Content-Location attribute has been replaced
//! by the string under test - the sender API only accepts absolute `url::Url`s) -> flute `Receiver`
//! with `ObjectWriterFSBuilder` on a destination directory inside a fresh sandbox tree with canary
//! files around it.  The whole sandbox lives under a unique temporary directory which the harness
//! creates and removes itself; the worker process `chroot`s into it so that *every* path the process
//! can name (absolute paths, any number of `..`) is inside the observed tree.  Without
//! CAP_SYS_CHROOT the worker runs unconfined in the same tree and skips locations that could leave it.
//!
//! Line format (all strings hex encoded, `-` = empty):
//!   W <destform> <outcome> <loc template> | cl=<loc received by the writer|NONE> url=<ok:path|rel|cab|err>
//!        dest=<dest as given to the builder> destreal=<the directory it is, canonical> cwd=<cwd>
//!        calls=<n (new writer) o+|o- (open) w c e i ...> pre=<d:path,f:path,..>
//!        diff=<D:path (dir created) | F:path (file created or content changed) | X:path (removed)>
//!   W ... | SKIP        (unconfined mode only: location could leave the sandbox)
//! destform: A absolute, R relative "dest", D "./dest", S trailing slash, U ".." (cwd = dest/sub),
//!           V "<dest>/sub/../"
//! outcome : C complete (FDT first), L complete (FDT after the first five object packets), M wrong
//!           Content-MD5 in the FDT (error at the end), I one source packet of the last block lost and
//!           the close-object flag seen (interrupted), P receiver dropped after five object packets
//!           (error on drop)
//! The object (700 bytes) has its own OTI (E=100, B=2: four blocks) so that blocks are written to the
//! file before the object ends; the FDT travels with the session OTI (E=1400).
//! In the template `{ABS}` stands for the absolute path of the sandbox directory `abs` (it contains
//! the canary file `abs/x`), so that replay files do not depend on the temporary directory's name.
use crate::util::*;
use flute::receiver::writer::{
    ObjectMetadata, ObjectWriter, ObjectWriterBuilder, ObjectWriterBuilderResult, ObjectWriterFSBuilder,
};
use std::cell::RefCell;
use std::collections::BTreeMap;
use std::path::{Path, PathBuf};
use std::rc::Rc;
use std::time::SystemTime;

const PLACEHOLDER: &str = "file:///CL-PLACEHOLDER";
const OBJ_LEN: usize = 700;
const SYMBOL: u16 = 1400;
const OBJ_SYMBOL: u16 = 100;

// ------------------------------------------------------------------ spy around the real FS writer
struct SpyLog {
    cl: Option<String>,
    calls: String,
}
struct SpyBuilder {
    inner: ObjectWriterFSBuilder,
    log: Rc<RefCell<SpyLog>>,
}
struct SpyWriter {
    inner: Box<dyn ObjectWriter>,
    log: Rc<RefCell<SpyLog>>,
}
impl SpyWriter {
    fn call(&self, c: &str) {
        let mut l = self.log.borrow_mut();
        // chunking of writes is not part of the property: consecutive writes are merged
        if c == "w" && l.calls.ends_with('w') {
            return;
        }
        l.calls.push_str(c);
    }
}
impl ObjectWriterBuilder for SpyBuilder {
    fn new_object_writer(
        &self,
        endpoint: &flute::core::UDPEndpoint,
        tsi: &u64,
        toi: &u128,
        meta: &ObjectMetadata,
        now: SystemTime,
    ) -> ObjectWriterBuilderResult {
        {
            let mut l = self.log.borrow_mut();
            l.cl = Some(meta.content_location.clone());
            l.calls.push('n');
        }
        match self.inner.new_object_writer(endpoint, tsi, toi, meta, now) {
            ObjectWriterBuilderResult::StoreObject(w) => ObjectWriterBuilderResult::StoreObject(Box::new(SpyWriter {
                inner: w,
                log: self.log.clone(),
            })),
            other => other,
        }
    }
    fn update_cache_control(&self, e: &flute::core::UDPEndpoint, tsi: &u64, toi: &u128, meta: &ObjectMetadata, now: SystemTime) {
        self.inner.update_cache_control(e, tsi, toi, meta, now)
    }
    fn fdt_received(
        &self,
        e: &flute::core::UDPEndpoint,
        tsi: &u64,
        xml: &str,
        expires: SystemTime,
        meta: &ObjectMetadata,
        d: std::time::Duration,
        now: SystemTime,
        ext: Option<SystemTime>,
    ) {
        self.inner.fdt_received(e, tsi, xml, expires, meta, d, now, ext)
    }
}
impl ObjectWriter for SpyWriter {
    fn open(&self, now: SystemTime) -> flute::error::Result<()> {
        let r = self.inner.open(now);
        self.call(if r.is_ok() { "o+" } else { "o-" });
        r
    }
    fn write(&self, sbn: u32, data: &[u8], now: SystemTime) -> flute::error::Result<()> {
        self.call("w");
        self.inner.write(sbn, data, now)
    }
    fn complete(&self, now: SystemTime) {
        self.call("c");
        self.inner.complete(now)
    }
    fn error(&self, now: SystemTime) {
        self.call("e");
        self.inner.error(now)
    }
    fn interrupted(&self, now: SystemTime) {
        self.call("i");
        self.inner.interrupted(now)
    }
    fn enable_md5_check(&self) -> bool {
        self.inner.enable_md5_check()
    }
}

// ------------------------------------------------------------------ session
fn content() -> Vec<u8> {
    (0..OBJ_LEN).map(|i| (i * 11 + 5) as u8).collect()
}

fn xml_escape_attr(s: &str) -> String {
    let mut o = String::new();
    for c in s.chars() {
        match c {
            '&' => o.push_str("&amp;"),
            '<' => o.push_str("&lt;"),
            '>' => o.push_str("&gt;"),
            '"' => o.push_str("&quot;"),
            '\'' => o.push_str("&apos;"),
            c if (c as u32) < 0x20 => o.push_str(&format!("&#x{:x};", c as u32)),
            c => o.push(c),
        }
    }
    o
}

struct Wire {
    fdt: Vec<Vec<u8>>,
    obj: Vec<Vec<u8>>,
}

/// Run the real sender for one object and rewrite the FDT instance so that it carries `loc`.
fn make_wire(loc: &str, wrong_md5: bool) -> Wire {
    use flute::core::{Oti, UDPEndpoint};
    use flute::sender::{Config, ObjectDesc, Sender};
    use flute::verif_hooks::{alc, lct, pkt::Pkt};
    // session OTI (used by the FDT) and a per-object OTI with small blocks, so that data is written
    // block by block before the object ends
    let oti = Oti::new_no_code(SYMBOL, 64);
    let obj_oti = Oti::new_no_code(OBJ_SYMBOL, 2);
    let cfg = Config::default();
    let ep = UDPEndpoint::new(None, "224.0.0.1".to_string(), 3400);
    let tsi = 1u64;
    let mut sender = Sender::new(ep, tsi, &oti, &cfg);
    let mut tc = flute::sender::TransferConfig::default();
    tc.oti = Some(obj_oti);
    let obj = ObjectDesc::create_from_buffer(
        content(),
        "application/octet-stream",
        &url::Url::parse(PLACEHOLDER).unwrap(),
        true,
        tc,
    )
    .unwrap();
    let toi = sender.add_object(0, obj).unwrap();
    let now = SystemTime::now();
    sender.publish(now).unwrap();
    let mut fdt_syms: BTreeMap<u32, Vec<u8>> = BTreeMap::new();
    let mut fdt_len = 0usize;
    let mut fdt_id = 0u32;
    let mut objp = Vec::new();
    let mut guard = 0;
    while let Some(data) = sender.read(now) {
        guard += 1;
        assert!(guard < 100_000, "sender does not quiesce");
        let p = alc::parse_alc_pkt(&data).unwrap();
        if p.lct.toi == lct::TOI_FDT {
            let pid = alc::parse_payload_id(&p, &oti).unwrap();
            fdt_len = p.transfer_length.unwrap() as usize;
            fdt_id = p.fdt_info.as_ref().unwrap().fdt_instance_id;
            fdt_syms.entry(pid.esi).or_insert_with(|| data[p.data_payload_offset..].to_vec());
        } else if p.lct.toi == toi {
            objp.push(data);
        }
    }
    let mut xml = Vec::new();
    for (_, s) in fdt_syms {
        xml.extend(s);
    }
    xml.truncate(fdt_len);
    let xml = String::from_utf8(xml).unwrap();
    assert!(xml.contains(PLACEHOLDER), "placeholder not in FDT: {}", xml);
    let mut xml2 = xml.replace(PLACEHOLDER, &xml_escape_attr(loc));
    if wrong_md5 {
        let k = "Content-MD5=\"";
        let i = xml2.find(k).expect("no Content-MD5 in FDT") + k.len();
        let c = if &xml2[i..i + 1] == "A" { "B" } else { "A" };
        xml2.replace_range(i..i + 1, c);
    }
    let bytes = xml2.into_bytes();
    let e = SYMBOL as usize;
    let nsym = (bytes.len() + e - 1) / e;
    let mut fdt = Vec::new();
    for (i, chunk) in bytes.chunks(e).enumerate() {
        let pkt = Pkt {
            payload: chunk.to_vec(),
            transfer_length: bytes.len() as u64,
            esi: i as u32,
            sbn: 0,
            toi: lct::TOI_FDT,
            fdt_id: Some(fdt_id),
            cenc: lct::Cenc::Null,
            inband_cenc: false,
            close_object: false,
            source_block_length: nsym as u32,
            sender_current_time: false,
        };
        fdt.push(alc::new_alc_pkt(&oti, &0u128, tsi, &pkt, flute::sender::Profile::RFC6726, now));
    }
    Wire { fdt, obj: objp }
}

/// Deliver the packets to a real receiver writing under `dest`; returns (content-location seen by
/// the writer, canonical call trace of the writer).
fn deliver(wire: &Wire, outcome: &str, dest: &Path) -> (Option<String>, String) {
    let log = Rc::new(RefCell::new(SpyLog { cl: None, calls: String::new() }));
    let fsb = ObjectWriterFSBuilder::new(dest, true).expect("destination directory");
    let builder = Rc::new(SpyBuilder { inner: fsb, log: log.clone() });
    let ep = flute::core::UDPEndpoint::new(None, "224.0.0.1".to_string(), 3400);
    let mut rcv = flute::receiver::Receiver::new(&ep, 1, builder, None);
    let now = SystemTime::now();
    let mut seq: Vec<&Vec<u8>> = Vec::new();
    match outcome {
        "C" | "M" => {
            seq.extend(wire.fdt.iter());
            seq.extend(wire.obj.iter());
        }
        "L" => {
            seq.extend(wire.obj.iter().take(5));
            seq.extend(wire.fdt.iter());
            seq.extend(wire.obj.iter().skip(5));
        }
        "I" => {
            seq.extend(wire.fdt.iter());
            for (i, p) in wire.obj.iter().enumerate() {
                if i + 2 != wire.obj.len() {
                    seq.push(p);
                }
            }
        }
        "P" => {
            seq.extend(wire.fdt.iter());
            seq.extend(wire.obj.iter().take(5));
        }
        _ => panic!("bad outcome"),
    }
    for p in seq {
        let _ = rcv.push_data(p, now);
        rcv.cleanup(now);
    }
    drop(rcv);
    let l = log.borrow();
    (l.cl.clone(), l.calls.clone())
}

// ------------------------------------------------------------------ sandbox
#[derive(Clone, PartialEq, Debug)]
enum Node {
    Dir,
    File(Vec<u8>),
    Other,
}

fn snapshot(root: &Path) -> BTreeMap<PathBuf, Node> {
    fn rec(p: &Path, m: &mut BTreeMap<PathBuf, Node>) {
        let rd = match std::fs::read_dir(p) {
            Ok(r) => r,
            Err(_) => return,
        };
        for e in rd.flatten() {
            let path = e.path();
            let md = match std::fs::symlink_metadata(&path) {
                Ok(m) => m,
                Err(_) => continue,
            };
            if md.is_dir() {
                m.insert(path.clone(), Node::Dir);
                rec(&path, m);
            } else if md.is_file() {
                m.insert(path.clone(), Node::File(std::fs::read(&path).unwrap_or_default()));
            } else {
                m.insert(path.clone(), Node::Other);
            }
        }
    }
    let mut m = BTreeMap::new();
    rec(root, &mut m);
    m
}

struct Sandbox {
    /// "" when chrooted, else the absolute temp directory
    base: String,
    chrooted: bool,
    depth: usize,
}

impl Sandbox {
    fn root(&self) -> PathBuf {
        PathBuf::from(if self.base.is_empty() { "/" } else { &self.base })
    }
    fn p(&self, rel: &str) -> String {
        format!("{}/{}", self.base, rel)
    }
    fn outer(&self) -> String {
        // directory that contains dest
        let mut s = String::new();
        for i in 1..=self.depth {
            s.push_str(&format!("/o{}", i));
        }
        format!("{}{}", self.base, s)
    }
    fn abs_dir(&self) -> String {
        self.p("abs")
    }
    /// wipe and rebuild the tree
    fn reset(&self) {
        let root = self.root();
        if let Ok(rd) = std::fs::read_dir(&root) {
            for e in rd.flatten() {
                let p = e.path();
                if std::fs::symlink_metadata(&p).map(|m| m.is_dir()).unwrap_or(false) {
                    std::fs::remove_dir_all(&p).ok();
                } else {
                    std::fs::remove_file(&p).ok();
                }
            }
        }
        let w = |p: String, c: &str| std::fs::write(p, c).expect("sandbox write");
        w(self.p("canary"), "canary-root");
        std::fs::create_dir_all(self.abs_dir()).unwrap();
        w(format!("{}/x", self.abs_dir()), "canary-abs-x");
        let mut d = self.base.clone();
        for i in 1..=self.depth {
            d.push_str(&format!("/o{}", i));
            std::fs::create_dir_all(&d).unwrap();
            w(format!("{}/canary", d), "canary-level");
        }
        let dest = format!("{}/dest", d);
        std::fs::create_dir_all(format!("{}/sub", dest)).unwrap();
        w(format!("{}/keep", dest), "keep-1");
        w(format!("{}/sub/keep", dest), "keep-2");
    }
    /// (dest string given to the builder, cwd)
    fn dest_form(&self, form: &str) -> (String, String) {
        let outer = self.outer();
        let dest = format!("{}/dest", outer);
        match form {
            "A" => (dest.clone(), self.root().to_string_lossy().to_string()),
            "R" => ("dest".into(), outer),
            "D" => ("./dest".into(), outer),
            "S" => (format!("{}/", dest), self.root().to_string_lossy().to_string()),
            "U" => ("..".into(), format!("{}/sub", dest)),
            "V" => (format!("{}/sub/../", dest), self.root().to_string_lossy().to_string()),
            _ => panic!("bad dest form"),
        }
    }
}

/// unconfined mode only: would the *unpatched* mapping (URL path or raw string, one leading '/'
/// stripped, absolute path replaces the destination, `..` walked) leave the sandbox?
fn could_leave(sb: &Sandbox, loc: &str) -> bool {
    let lower = loc.to_lowercase().replace("%2e", ".").replace("%2f", "/").replace("%5c", "/").replace('\\', "/");
    if lower.matches("..").count() > sb.depth.saturating_sub(1) {
        return true;
    }
    let mut cands: Vec<String> = vec![loc.to_string()];
    if let Ok(u) = url::Url::parse(loc) {
        cands.push(u.path().to_string());
    }
    for c in cands {
        let s = c.strip_prefix('/').unwrap_or(&c);
        if s.starts_with('/') && !s.trim_start_matches('/').starts_with(sb.base.trim_start_matches('/')) {
            return true;
        }
    }
    false
}

fn hexs(s: &str) -> String {
    hex(s.as_bytes())
}

thread_local! {
    static SANDBOX: RefCell<Option<Sandbox>> = RefCell::new(None);
}

pub fn eval(input: &str) -> String {
    SANDBOX.with(|s| eval_in(s.borrow().as_ref().expect("sandbox"), input))
}

fn eval_in(sb: &Sandbox, input: &str) -> String {
    let t: Vec<&str> = input.split_whitespace().collect();
    if t.len() != 4 || t[0] != "W" {
        return "BAD".into();
    }
    let (form, outcome) = (t[1], t[2]);
    let template = match String::from_utf8(unhex(t[3])) {
        Ok(s) => s,
        Err(_) => return "BAD".into(),
    };
    let loc = template.replace("{ABS}", &sb.abs_dir());
    if !sb.chrooted && could_leave(sb, &loc) {
        return "SKIP".into();
    }
    sb.reset();
    let (dest, cwd) = sb.dest_form(form);
    std::env::set_current_dir(&cwd).expect("chdir");
    let before = snapshot(&sb.root());
    let res = catch(|| {
        let wire = make_wire(&loc, outcome == "M");
        deliver(&wire, outcome, Path::new(&dest))
    });
    std::env::set_current_dir(sb.root()).ok();
    let after = snapshot(&sb.root());
    let (cl, calls) = match res {
        Some(r) => r,
        None => return "PANIC".into(),
    };
    // the url crate is an oracle of the model: record what it answers for the string the writer received
    let url = match url::Url::parse(cl.as_deref().unwrap_or(&loc)) {
        Ok(u) => format!("ok:{}", hexs(u.path())),
        Err(url::ParseError::RelativeUrlWithoutBase) => "rel".into(),
        Err(url::ParseError::RelativeUrlWithCannotBeABaseBase) => "cab".into(),
        Err(_) => "err".into(),
    };
    let mut pre = Vec::new();
    for a in sb.root().ancestors() {
        pre.push(format!("d:{}", hexs(&a.to_string_lossy())));
    }
    for (p, n) in &before {
        let k = match n {
            Node::Dir => "d",
            Node::File(_) => "f",
            Node::Other => "o",
        };
        pre.push(format!("{}:{}", k, hexs(&p.to_string_lossy())));
    }
    let mut diff = Vec::new();
    for (p, n) in &after {
        match (before.get(p), n) {
            (None, Node::Dir) => diff.push(format!("D:{}", hexs(&p.to_string_lossy()))),
            (None, _) => diff.push(format!("F:{}", hexs(&p.to_string_lossy()))),
            (Some(b), a) if b != a => diff.push(format!("F:{}", hexs(&p.to_string_lossy()))),
            _ => {}
        }
    }
    for p in before.keys() {
        if !after.contains_key(p) {
            diff.push(format!("X:{}", hexs(&p.to_string_lossy())));
        }
    }
    diff.sort();
    let join = |v: Vec<String>| if v.is_empty() { "-".to_string() } else { v.join(",") };
    format!(
        "cl={} url={} dest={} destreal={} cwd={} calls={} pre={} diff={}",
        cl.map(|c| hexs(&c)).unwrap_or("NONE".into()),
        url,
        hexs(&dest),
        hexs(&format!("{}/dest", sb.outer())),
        hexs(&cwd),
        if calls.is_empty() { "-".to_string() } else { calls },
        join(pre),
        join(diff)
    )
}

// ------------------------------------------------------------------ generator
const PREFIXES: [&str; 9] = ["file:///", "file://host/", "http://h/", "x:", "x:/", "x://h/", "", "/", "//"];
const SEGMENTS: [&str; 8] = ["x", ".", "..", "", "%2e%2e", "..%2f", "a\\..\\b", "{ABS}"];
const FORMS: [&str; 6] = ["A", "R", "D", "S", "U", "V"];
const OUTCOMES: [&str; 5] = ["C", "L", "M", "I", "P"];

fn grid(depth: usize, f: &mut dyn FnMut(String)) {
    // all segment lists of length 0..=depth, every prefix
    let mut idx: Vec<usize> = Vec::new();
    loop {
        for p in PREFIXES {
            let segs: Vec<&str> = idx.iter().map(|&i| SEGMENTS[i]).collect();
            f(format!("{}{}", p, segs.join("/")));
        }
        // next index vector (length-lexicographic)
        let mut i = idx.len();
        loop {
            if i == 0 {
                idx = vec![0; idx.len() + 1];
                break;
            }
            i -= 1;
            if idx[i] + 1 < SEGMENTS.len() {
                idx[i] += 1;
                for j in i + 1..idx.len() {
                    idx[j] = 0;
                }
                break;
            }
        }
        if idx.len() > depth {
            return;
        }
    }
}

fn random_loc(rng: &mut Rng) -> String {
    const TOK: [&str; 44] = [
        "/", "/", "/", "//", ".", "..", "..", "../", "/..", "x", "keep", "sub", "canary", "dest", "o1", "abs", "a", "b",
        ":", "x:", "file:", "http:", "ftp://h", "c:", "C:\\", "\\", "\\\\", "%2e", "%2E%2e", "%2f", "%5c", "%00", "%", "?q",
        "#f", "@", " ", "\t", "&", "<\"'>", "\u{e9}", "\u{2215}", "{ABS}", "",
    ];
    let n = rng.range(0, 9);
    let mut s = String::new();
    for _ in 0..n {
        if rng.chance(1, 12) {
            // a random printable / non-ascii character
            let c = match rng.below(3) {
                0 => rng.range(0x21, 0x7e) as u32,
                1 => rng.range(0xa1, 0x2ff) as u32,
                _ => rng.range(0x4e00, 0x4eff) as u32,
            };
            s.push(char::from_u32(c).unwrap_or('z'));
        } else {
            let t: &str = *rng.pick(&TOK[..]);
            s.push_str(t);
        }
    }
    s
}

fn gen(args: &Args, emit: &mut dyn FnMut(String)) {
    let thorough = args.tier == "thorough";
    let (shard, nshards) = args.shard;
    let mut n: u64 = 0;
    let mine = |n: &mut u64| {
        *n += 1;
        (*n - 1) % nshards == shard
    };
    // D11 witnesses and the locations the existing tests use, every outcome and destination form
    let fixed = [
        "file:///hello", "a:../../x", "../x", "//{ABS}/x", "x://h/{ABS}/x", "file:////{ABS}/x", "", "/", ".", "..",
        "x", "./x", "x/", "sub", "keep", "sub/keep", "x/../../x", "http://h/a/b/c", "x:x",
    ];
    for l in fixed {
        for f in FORMS {
            for o in OUTCOMES {
                if mine(&mut n) {
                    emit(format!("W {} {} {}", f, o, hexs(l)));
                }
            }
        }
    }
    // exhaustive grid: depth 3 with every outcome (destination form rotating); thorough adds depth 5
    // (outcome and destination form rotating) and depth 2 with the full product
    let mut k: usize = 0;
    grid(3, &mut |loc: String| {
        for o in OUTCOMES {
            k += 1;
            if mine(&mut n) {
                emit(format!("W {} {} {}", FORMS[k % FORMS.len()], o, hexs(&loc)));
            }
        }
    });
    if thorough {
        grid(2, &mut |loc: String| {
            for f in FORMS {
                for o in OUTCOMES {
                    if mine(&mut n) {
                        emit(format!("W {} {} {}", f, o, hexs(&loc)));
                    }
                }
            }
        });
        let mut k: usize = 0;
        grid(5, &mut |loc: String| {
            k += 1;
            if mine(&mut n) {
                emit(format!("W {} {} {}", FORMS[k % FORMS.len()], OUTCOMES[(k / FORMS.len()) % OUTCOMES.len()], hexs(&loc)));
            }
        });
    }
    // random strings (same stream in every shard, sharded by index)
    let mut rng = Rng::new(args.seed);
    let count = if thorough { 200_000 } else { 6_000 };
    for _ in 0..count {
        let loc = random_loc(&mut rng);
        let f = *rng.pick(&FORMS[..]);
        let o = *rng.pick(&OUTCOMES[..]);
        if mine(&mut n) {
            emit(format!("W {} {} {}", f, o, hexs(&loc)));
        }
    }
}

// ------------------------------------------------------------------ process structure
fn unique_dir() -> PathBuf {
    let nanos = SystemTime::now().duration_since(std::time::UNIX_EPOCH).map(|d| d.as_nanos()).unwrap_or(0);
    std::env::temp_dir().join(format!("fluteh-c05-{}-{}", std::process::id(), nanos))
}

/// Parent: create the unique sandbox directory, run the worker (same binary, `--root <dir>`),
/// remove the directory, propagate the exit status.
pub fn run(args: &Args) {
    if let Some(i) = args.rest.iter().position(|a| a == "--root") {
        return worker(args, &args.rest[i + 1]);
    }
    let dir = unique_dir();
    std::fs::create_dir_all(&dir).expect("create sandbox");
    let exe = std::env::current_exe().expect("current_exe");
    let argv: Vec<String> = std::env::args().skip(1).collect();
    let status = std::process::Command::new(exe)
        .args(&argv)
        .arg("--root")
        .arg(&dir)
        .stdout(std::process::Stdio::null())
        .status();
    std::fs::remove_dir_all(&dir).ok();
    match status {
        Ok(s) if s.success() => {}
        Ok(s) => {
            eprintln!("c05 worker failed: {:?}", s);
            std::process::exit(s.code().unwrap_or(3));
        }
        Err(e) => {
            eprintln!("c05 worker not started: {}", e);
            std::process::exit(3);
        }
    }
}

fn worker(args: &Args, root: &str) {
    // everything that lives outside the sandbox is opened before the chroot
    let mut tr = Trace::new(args.out.as_deref());
    let replay = args.replay.as_ref().map(|rp| std::fs::read_to_string(rp).expect("replay file"));
    let chrooted = std::os::unix::fs::chroot(root).is_ok() && std::env::set_current_dir("/").is_ok();
    let sb = if chrooted {
        Sandbox { base: String::new(), chrooted: true, depth: 2 }
    } else {
        eprintln!("c05: chroot not permitted, running unconfined in {} (locations that could leave it are skipped)", root);
        Sandbox { base: root.trim_end_matches('/').to_string(), chrooted: false, depth: 7 }
    };
    SANDBOX.with(|s| *s.borrow_mut() = Some(sb));
    if let Some(text) = replay {
        for line in text.lines() {
            let input = line.split('|').next().unwrap().trim();
            if input.is_empty() || input.starts_with('#') {
                continue;
            }
            tr.line(&format!("{} | {}", input, eval(input)));
        }
    } else {
        gen(args, &mut |input: String| {
            let out = eval(&input);
            tr.line(&format!("{} | {}", input, out));
        });
    }
    // leave the sandbox empty; the parent removes the directory itself
    SANDBOX.with(|s| {
        let s = s.borrow();
        let sb = s.as_ref().unwrap();
        if let Ok(rd) = std::fs::read_dir(sb.root()) {
            for e in rd.flatten() {
                let p = e.path();
                if std::fs::symlink_metadata(&p).map(|m| m.is_dir()).unwrap_or(false) {
                    std::fs::remove_dir_all(&p).ok();
                } else {
                    std::fs::remove_file(&p).ok();
                }
            }
        }
    });
    tr.finish();
}
