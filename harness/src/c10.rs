//! C10: the FDT produced by the real `Sender` (XML snapshots, FDT packets, republication around the
//! expiry, instance-id wrap) and what a real `Receiver` makes of it, under a virtual clock.
//! The trace format is specified in harness/C10_TRACE_FORMAT.txt (driver: ocaml/c10_driver.ml).
//!
//! One scenario per line:   <input> | <output>
//!   F <mode> <dur_ms> <fcar> <startid> <fcenc> <soti> <sgroups> <mult> <sct> ; op ; op ...
//!   ops:  A <len> <ctype> <loc> <cenc> <md5> <oti|-> <cache> <etag> <groups> <max> <car> <icenc>
//!         P <now_ms> | R <add-index> | C | r <now_ms> | q <now_ms>
//! Output: one token `<head>[<view>]{<events>}@<snap>` per op, then the receiver tokens RX:D / RX:W.
use crate::util::*;
use flute::core::lct::Cenc;
use flute::core::{FECEncodingID, Oti, UDPEndpoint};
use flute::receiver::writer::{
    ObjectCacheControl, ObjectMetadata, ObjectWriter, ObjectWriterBuilder, ObjectWriterBuilderResult,
};
use flute::receiver::{Config as RConfig, Receiver};
use flute::sender::{
    CacheControl, CarouselRepeatMode, Config, Event, FDTPublishMode, ObjectDesc, PriorityQueue, Sender, Subscriber,
    TOIMaxLength, TransferConfig,
};
use flute::verif_hooks::fdtinstance::{CacheControlChoice, FdtInstance};
use flute::verif_hooks::oti::SchemeSpecific;
use flute::verif_hooks::partition::block_partitioning;
use std::cell::RefCell;
use std::collections::{BTreeMap, HashMap};
use std::rc::Rc;
use std::sync::{Arc, Mutex};
use std::time::{Duration, SystemTime, UNIX_EPOCH};

const BASE_S: u64 = 1_700_000_000;

fn t_ms(ms: u64) -> SystemTime {
    UNIX_EPOCH + Duration::from_secs(BASE_S) + Duration::from_millis(ms)
}

// ---------------- encodings ----------------

/// str: hex of the UTF-8 bytes, "_" for the empty string
fn hs(b: &[u8]) -> String {
    if b.is_empty() {
        return "_".into();
    }
    let mut s = String::with_capacity(b.len() * 2);
    for x in b {
        s.push_str(&format!("{:02x}", x));
    }
    s
}

fn hstr(s: &str) -> String {
    hs(s.as_bytes())
}

/// ostr: "N" for None, else str
fn ostr(o: Option<&str>) -> String {
    match o {
        None => "N".into(),
        Some(s) => hstr(s),
    }
}

fn onum<T: std::fmt::Display>(o: &Option<T>) -> String {
    match o {
        None => "N".into(),
        Some(v) => hstr(&v.to_string()),
    }
}

fn unhs(s: &str) -> Option<String> {
    if s == "_" {
        return Some(String::new());
    }
    if s.len() % 2 != 0 || !s.is_ascii() {
        return None;
    }
    let mut v = Vec::with_capacity(s.len() / 2);
    for i in 0..s.len() / 2 {
        v.push(u8::from_str_radix(&s[2 * i..2 * i + 2], 16).ok()?);
    }
    String::from_utf8(v).ok()
}

fn un_ostr(s: &str) -> Option<Option<String>> {
    if s == "N" {
        Some(None)
    } else {
        unhs(s).map(Some)
    }
}

/// groups: "N" | "G" item,item,...
fn un_groups(s: &str) -> Option<Option<Vec<String>>> {
    if s == "N" {
        return Some(None);
    }
    let rest = s.strip_prefix('G')?;
    if rest.is_empty() {
        return Some(Some(Vec::new()));
    }
    let mut v = Vec::new();
    for it in rest.split(',') {
        v.push(unhs(it)?);
    }
    Some(Some(v))
}

fn groups_enc(g: &Option<Vec<String>>) -> String {
    match g {
        None => "N".into(),
        Some(v) => format!("G{}", v.iter().map(|s| hstr(s)).collect::<Vec<_>>().join(",")),
    }
}

fn cenc_of(s: &str) -> Option<Cenc> {
    match s {
        "null" => Some(Cenc::Null),
        "zlib" => Some(Cenc::Zlib),
        "deflate" => Some(Cenc::Deflate),
        "gzip" => Some(Cenc::Gzip),
        _ => None,
    }
}

fn cenc_name(c: &Cenc) -> &'static str {
    match c {
        Cenc::Null => "null",
        Cenc::Zlib => "zlib",
        Cenc::Deflate => "deflate",
        Cenc::Gzip => "gzip",
    }
}

fn car(s: &str) -> Option<CarouselRepeatMode> {
    if s.len() < 2 {
        return None;
    }
    match &s[0..1] {
        "d" => Some(CarouselRepeatMode::DelayBetweenTransfers(Duration::from_millis(s[1..].parse().ok()?))),
        "i" => Some(CarouselRepeatMode::IntervalBetweenStartTimes(Duration::from_millis(s[1..].parse().ok()?))),
        _ => None,
    }
}

/// <kind>:<e>:<b>:<p>:<n>:<al>:<f>
fn parse_oti(s: &str) -> Option<Oti> {
    let f: Vec<&str> = s.split(':').collect();
    if f.len() != 7 {
        return None;
    }
    let n = |i: usize| -> Option<u64> { f[i].parse().ok() };
    let (e, b, p, nn, al, fl) = (n(1)?, n(2)?, n(3)?, n(4)?, n(5)?, n(6)?);
    let mut o = match f[0] {
        "nc" => Oti::new_no_code(e as u16, b as u16),
        "rs" => Oti::new_reed_solomon_rs28(e as u16, b as u8, p as u8).ok()?,
        "rsus" => Oti::new_reed_solomon_rs28_under_specified(e as u16, b as u16, p as u16).ok()?,
        "rq" => Oti::new_raptorq(e as u16, b as u16, p as u16, nn as u16, al as u8).ok()?,
        "rp" => Oti::new_raptor(e as u16, b as u16, p as u16, nn as u8, al as u8).ok()?,
        _ => return None,
    };
    o.inband_fti = fl == 1;
    Some(o)
}

/// packets of one complete transfer of `tlen` bytes with `oti`
fn npk_of(oti: &Oti, tlen: u64) -> u64 {
    let e = oti.encoding_symbol_length as u64;
    if tlen == 0 || e == 0 {
        return 0;
    }
    let nsym = (tlen + e - 1) / e;
    if oti.fec_encoding_id == FECEncodingID::NoCode {
        return nsym;
    }
    let (_, _, _, nb) = block_partitioning(oti.maximum_source_block_length as u64, tlen, e);
    nsym + oti.max_number_of_parity_symbols as u64 * nb
}

// ---------------- FDT XML -> field list ----------------

fn fparse(xml: &[u8]) -> String {
    let inst = match FdtInstance::parse(xml) {
        Ok(i) => i,
        Err(_) => return "ERR".into(),
    };
    let mut f: Vec<String> = Vec::new();
    f.push(hstr(&inst.expires));
    f.push(onum(&inst.complete));
    f.push(onum(&inst.full_fdt));
    f.push(onum(&inst.fec_oti_fec_encoding_id));
    f.push(onum(&inst.fec_oti_fec_instance_id));
    f.push(onum(&inst.fec_oti_maximum_source_block_length));
    f.push(onum(&inst.fec_oti_encoding_symbol_length));
    f.push(onum(&inst.fec_oti_max_number_of_encoding_symbols));
    f.push(ostr(inst.fec_oti_scheme_specific_info.as_deref()));
    let groups: &[String] = inst.group.as_ref().map(|v| v.as_slice()).unwrap_or(&[]);
    f.push(format!("{}", groups.len()));
    for g in groups {
        f.push(hstr(g));
    }
    let files = inst.file.as_ref().map(|v| v.as_slice()).unwrap_or(&[]);
    f.push(format!("{}", files.len()));
    for fl in files {
        f.push(hstr(&fl.content_location));
        f.push(hstr(&fl.toi));
        f.push(onum(&fl.content_length));
        f.push(onum(&fl.transfer_length));
        f.push(ostr(fl.content_type.as_deref()));
        f.push(ostr(fl.content_encoding.as_deref()));
        f.push(ostr(fl.content_md5.as_deref()));
        f.push(onum(&fl.fec_oti_fec_encoding_id));
        f.push(onum(&fl.fec_oti_fec_instance_id));
        f.push(onum(&fl.fec_oti_maximum_source_block_length));
        f.push(onum(&fl.fec_oti_encoding_symbol_length));
        f.push(onum(&fl.fec_oti_max_number_of_encoding_symbols));
        f.push(ostr(fl.fec_oti_scheme_specific_info.as_deref()));
        f.push(ostr(fl.file_etag.as_deref()));
        let ob = |b: &Option<bool>| match b {
            None => "_".to_string(),
            Some(v) => hstr(&v.to_string()),
        };
        match fl.cache_control.as_ref().map(|c| &c.value) {
            None => {
                f.push("-".into());
                f.push("_".into());
            }
            Some(CacheControlChoice::NoCache(b)) => {
                f.push("nc".into());
                f.push(ob(b));
            }
            Some(CacheControlChoice::MaxStale(b)) => {
                f.push("ms".into());
                f.push(ob(b));
            }
            Some(CacheControlChoice::Expires(v)) => {
                f.push("ex".into());
                f.push(hstr(&v.to_string()));
            }
        }
        let fg: &[String] = fl.group.as_ref().map(|v| v.as_slice()).unwrap_or(&[]);
        f.push(format!("{}", fg.len()));
        for g in fg {
            f.push(hstr(g));
        }
    }
    f.join(",")
}

// ---------------- sender observer ----------------

struct Obs(Mutex<Vec<String>>);
impl Subscriber for Obs {
    fn on_sender_event(&self, evt: &Event, _now: SystemTime) {
        let s = match evt {
            Event::StartTransfer(f) => format!("S{:x}", f.toi),
            Event::StopTransfer(f) => format!("E{:x}", f.toi),
        };
        self.0.lock().unwrap().push(s);
    }
}

// ---------------- recording receiver side ----------------

struct RecBuilder {
    log: Rc<RefCell<Vec<String>>>,
}
struct AcceptWriter;

fn us_since_epoch(t: SystemTime) -> u128 {
    t.duration_since(UNIX_EPOCH).map(|d| d.as_micros()).unwrap_or(0)
}

fn rx_oti(o: &Option<Oti>) -> String {
    match o {
        None => "N".into(),
        Some(o) => {
            let scheme = match &o.scheme_specific {
                None => "n".to_string(),
                Some(SchemeSpecific::ReedSolomon(s)) => format!("rs.{}.{}", s.m, s.g),
                Some(SchemeSpecific::RaptorQ(s)) => {
                    format!("rq.{}.{}.{}", s.source_blocks_length, s.sub_blocks_length, s.symbol_alignment)
                }
                Some(SchemeSpecific::Raptor(s)) => {
                    format!("rp.{}.{}.{}", s.source_blocks_length, s.sub_blocks_length, s.symbol_alignment)
                }
            };
            format!(
                "{}.{}.{}.{}.{}.{}",
                o.fec_encoding_id as u8,
                o.fec_instance_id,
                o.maximum_source_block_length,
                o.encoding_symbol_length,
                o.max_number_of_parity_symbols,
                scheme
            )
        }
    }
}

impl ObjectWriterBuilder for RecBuilder {
    fn new_object_writer(
        &self,
        _endpoint: &UDPEndpoint,
        _tsi: &u64,
        toi: &u128,
        meta: &ObjectMetadata,
        _now: SystemTime,
    ) -> ObjectWriterBuilderResult {
        let cache = match &meta.cache_control {
            ObjectCacheControl::NoCache => "nc".to_string(),
            ObjectCacheControl::MaxStale => "ms".to_string(),
            ObjectCacheControl::ExpiresAt(t) => format!("at{:x}", us_since_epoch(*t)),
            ObjectCacheControl::ExpiresAtHint(t) => format!("hint{:x}", us_since_epoch(*t)),
        };
        let onx = |v: &Option<usize>| match v {
            None => "N".to_string(),
            Some(x) => format!("{:x}", x),
        };
        self.log.borrow_mut().push(format!(
            "RX:W:{:x}:{}:{}:{}:{}:{}:{}:{}:{}:{}:{}",
            toi,
            hstr(&meta.content_location),
            onx(&meta.content_length),
            onx(&meta.transfer_length),
            ostr(meta.content_type.as_deref()),
            cache,
            groups_enc(&meta.groups),
            ostr(meta.md5.as_deref()),
            rx_oti(&meta.oti),
            meta.cenc.as_ref().map(|c| cenc_name(c)).unwrap_or("N"),
            ostr(meta.e_tag.as_deref())
        ));
        ObjectWriterBuilderResult::StoreObject(Box::new(AcceptWriter))
    }
    fn update_cache_control(&self, _e: &UDPEndpoint, _tsi: &u64, _toi: &u128, _meta: &ObjectMetadata, _now: SystemTime) {}
    fn fdt_received(
        &self,
        _e: &UDPEndpoint,
        _tsi: &u64,
        xml: &str,
        expires: SystemTime,
        _meta: &ObjectMetadata,
        _d: Duration,
        _now: SystemTime,
        _ext: Option<SystemTime>,
    ) {
        self.log.borrow_mut().push(format!("RX:D:{}:{:x}", hstr(xml), us_since_epoch(expires)));
    }
}

impl ObjectWriter for AcceptWriter {
    fn open(&self, _now: SystemTime) -> flute::error::Result<()> {
        Ok(())
    }
    fn write(&self, _sbn: u32, _data: &[u8], _now: SystemTime) -> flute::error::Result<()> {
        Ok(())
    }
    fn complete(&self, _now: SystemTime) {}
    fn error(&self, _now: SystemTime) {}
    fn interrupted(&self, _now: SystemTime) {}
    fn enable_md5_check(&self) -> bool {
        false
    }
}

// ---------------- packets ----------------

type FdtParts = HashMap<u32, BTreeMap<(u32, u32), Vec<u8>>>;

/// F<id>:<close>:<npk>[:X<hexxml>]  |  O<toi>:<close>
fn describe_pkt(data: &[u8], soti: &Oti, with_x: bool, fdt_parts: &mut FdtParts) -> String {
    // a datagram of the sender that flute's own parser rejects (not part of the fixed format: the
    // generator avoids the one known class, empty Raptor/RaptorQ objects with in-band FTI, "Z is null")
    let pkt = match flute::core::alc::parse_alc_pkt(data) {
        Ok(p) => p,
        Err(_) => return "U".into(),
    };
    let close = if pkt.lct.close_object { 1 } else { 0 };
    if pkt.lct.toi != 0 {
        return format!("O{:x}:{}", pkt.lct.toi, close);
    }
    // the 24 bits of EXT_FDT are (version << 20) | instance id; the sender (default profile RFC 6726)
    // writes version 2.  An instance id that does not fit 20 bits spills into the version nibble: it is
    // reported as id + spill so that it cannot pass for a correctly wrapped id.
    let id = pkt
        .fdt_info
        .as_ref()
        .map(|f| ((f.version << 20) | f.fdt_instance_id).wrapping_sub(2 << 20))
        .unwrap_or(0xFFFFFFFF);
    let tl = pkt.transfer_length.unwrap_or(0);
    let npk = npk_of(soti, tl);
    let mut x = String::new();
    let e = soti.encoding_symbol_length as u64;
    if with_x && tl > 0 && e > 0 {
        let pid = flute::core::alc::parse_payload_id(&pkt, soti).unwrap();
        let (al, a_s, nal, _nb) = block_partitioning(soti.maximum_source_block_length as u64, tl, e);
        let k = if (pid.sbn as u64) < nal { al } else { a_s };
        let nsym = (tl + e - 1) / e;
        if (pid.esi as u64) < k {
            let parts = fdt_parts.entry(id).or_default();
            parts.insert((pid.sbn, pid.esi), data[pkt.data_payload_offset..].to_vec());
            if parts.len() as u64 == nsym {
                let mut xml = vec![0u8; (nsym * e) as usize];
                for ((sbn, esi), payload) in parts.iter() {
                    let sbn = *sbn as u64;
                    let start = if sbn < nal { sbn * al } else { nal * al + (sbn - nal) * a_s };
                    let off = ((start + *esi as u64) * e) as usize;
                    if off >= xml.len() {
                        continue;
                    }
                    let n = payload.len().min(e as usize).min(xml.len() - off);
                    xml[off..off + n].copy_from_slice(&payload[..n]);
                }
                xml.truncate(tl as usize);
                x = format!(":X{}", hs(&xml));
                parts.clear();
            }
        }
    }
    format!("F{:x}:{}:{:x}{}", id, close, npk, x)
}

// ---------------- evaluation ----------------

struct Head {
    cfg: Config,
    soti: Oti,
    with_x: bool,
}

fn parse_head(h: &[&str]) -> Option<Head> {
    if h.len() != 10 || h[0] != "F" {
        return None;
    }
    let mut cfg = Config::default();
    cfg.fdt_publish_mode = match h[1] {
        "full" => FDTPublishMode::FullFDT,
        "bt" => FDTPublishMode::ObjectsBeingTransferred,
        _ => return None,
    };
    cfg.fdt_duration = Duration::from_millis(h[2].parse().ok()?);
    cfg.fdt_carousel_mode = car(h[3])?;
    cfg.fdt_start_id = h[4].parse().ok()?;
    cfg.fdt_cenc = cenc_of(h[5])?;
    let soti = parse_oti(h[6])?;
    cfg.groups = un_groups(h[7])?;
    cfg.priority_queues.clear();
    cfg.priority_queues.insert(0, PriorityQueue::new(h[8].parse().ok()?));
    cfg.fdt_inband_sct = match h[9] {
        "0" => false,
        "1" => true,
        _ => return None,
    };
    cfg.toi_max_length = TOIMaxLength::ToiMax32;
    cfg.toi_initial_value = Some(1);
    cfg.interleave_blocks = 1;
    let with_x = h[5] == "null" && !h[6].starts_with("rp:");
    Some(Head { cfg, soti, with_x })
}

fn parse_cache(s: &str) -> Option<Option<CacheControl>> {
    Some(match s {
        "-" => None,
        "nc" => Some(CacheControl::NoCache),
        "ms" => Some(CacheControl::MaxStale),
        _ => {
            if let Some(ms) = s.strip_prefix("ex") {
                Some(CacheControl::Expires(Duration::from_millis(ms.parse().ok()?)))
            } else if let Some(ms) = s.strip_prefix("at") {
                Some(CacheControl::ExpiresAt(t_ms(ms.parse().ok()?)))
            } else {
                return None;
            }
        }
    })
}

pub fn eval(input: &str) -> String {
    let parts: Vec<&str> = input.split(';').map(|x| x.trim()).collect();
    let h: Vec<&str> = parts[0].split_whitespace().collect();
    let head = match catch(|| parse_head(&h)) {
        Some(Some(x)) => x,
        _ => return "BAD".into(),
    };
    let Head { cfg, soti, with_x } = head;
    let ep = UDPEndpoint::new(None, "224.0.0.1".to_string(), 1234);
    let obs = Arc::new(Obs(Mutex::new(Vec::new())));
    let rxlog: Rc<RefCell<Vec<String>>> = Rc::new(RefCell::new(Vec::new()));
    let builder = Rc::new(RecBuilder { log: rxlog.clone() });
    let mut rcfg = RConfig::default();
    // receiver time-outs are Instant based: switch them off, everything else stays at its default
    rcfg.object_timeout = None;
    rcfg.session_timeout = None;
    rcfg.enable_fdt_expiration_check = true;
    let mut toks: Vec<String> = Vec::new();
    {
        let setup = catch(|| {
            let mut sender = Sender::new(ep.clone(), 1, &soti, &cfg);
            sender.subscribe(obs.clone());
            let receiver = Receiver::new(&ep, 1, builder.clone(), Some(rcfg));
            (sender, receiver)
        });
        let (mut sender, mut receiver) = match setup {
            Some(x) => x,
            None => return "PANIC".into(),
        };
        let mut tois: Vec<Option<u128>> = Vec::new();
        let mut fdt_parts: FdtParts = Default::default();
        let mut last_t: u64 = 0;
        let mut prev_snap: Option<Vec<u8>> = None;
        for op in &parts[1..] {
            let t: Vec<&str> = op.split_whitespace().collect();
            if t.is_empty() {
                continue;
            }
            let step = catch(|| {
                let mut tok: String = match t[0] {
                    "A" => {
                        let add_index = tois.len();
                        tois.push(None);
                        let len: usize = t[1].parse().unwrap();
                        let ctype = unhs(t[2]).unwrap();
                        let loc = unhs(t[3]).unwrap();
                        let mut tc = TransferConfig::default();
                        tc.cenc = cenc_of(t[4]).unwrap();
                        let md5 = t[5] == "1";
                        tc.oti = if t[6] == "-" { None } else { Some(parse_oti(t[6]).unwrap()) };
                        tc.cache_control = parse_cache(t[7]).unwrap();
                        tc.e_tag = un_ostr(t[8]).unwrap();
                        tc.groups = un_groups(t[9]).unwrap();
                        tc.max_transfer_count = t[10].parse().unwrap();
                        tc.carousel_mode = car(t[11]);
                        tc.inband_cenc = t[12] == "1";
                        let eff_oti = tc.oti.clone().unwrap_or_else(|| soti.clone());
                        let content: Vec<u8> = (0..len).map(|i| (i.wrapping_mul(7).wrapping_add(add_index)) as u8).collect();
                        match url::Url::parse(&loc) {
                            Err(_) => "A:BADURL".to_string(),
                            Ok(url) => match ObjectDesc::create_from_buffer(content, &ctype, &url, md5, tc) {
                                Err(_) => "A:NODESC".to_string(),
                                Ok(obj) => {
                                    let tlen = obj.transfer_length;
                                    let md5s = ostr(obj.md5.as_deref());
                                    let locs = hstr(&obj.content_location.to_string());
                                    let npk = npk_of(&eff_oti, tlen);
                                    match sender.add_object(0, obj) {
                                        Ok(toi) => {
                                            tois[add_index] = Some(toi);
                                            format!("A:{:x}:{:x}:{:x}:{}:{}", toi, npk, tlen, md5s, locs)
                                        }
                                        Err(_) => format!("A:ERR:{:x}:{}:{}", tlen, md5s, locs),
                                    }
                                }
                            },
                        }
                    }
                    "P" => {
                        last_t = t[1].parse().unwrap();
                        match sender.publish(t_ms(last_t)) {
                            Ok(_) => "P:ok".into(),
                            Err(_) => "P:err".into(),
                        }
                    }
                    "R" => {
                        let i: usize = t[1].parse().unwrap();
                        match tois.get(i).copied().flatten() {
                            Some(toi) => format!("R:{}", if sender.remove_object(toi) { 1 } else { 0 }),
                            None => "R:0".into(),
                        }
                    }
                    "C" => {
                        sender.set_complete();
                        "C".into()
                    }
                    "r" => {
                        last_t = t[1].parse().unwrap();
                        let now = t_ms(last_t);
                        match sender.read(now) {
                            None => "r:N".into(),
                            Some(data) => {
                                let d = describe_pkt(&data, &soti, with_x, &mut fdt_parts);
                                let _ = receiver.push_data(&data, now);
                                format!("r:{}", d)
                            }
                        }
                    }
                    "q" => {
                        last_t = t[1].parse().unwrap();
                        let now = t_ms(last_t);
                        let mut seq: Vec<String> = Vec::new();
                        let mut hang = false;
                        while let Some(data) = sender.read(now) {
                            seq.push(describe_pkt(&data, &soti, with_x, &mut fdt_parts));
                            let _ = receiver.push_data(&data, now);
                            if seq.len() > 5000 {
                                hang = true;
                                break;
                            }
                        }
                        if hang {
                            "q=HANG".into()
                        } else {
                            format!("q={}", if seq.is_empty() { "-".to_string() } else { seq.join(",") })
                        }
                    }
                    _ => "BADOP".into(),
                };
                // files view and events
                let mut view: Vec<(u128, u64)> = Vec::new();
                let keys: Vec<u128> = sender.get_objects_in_fdt().keys().copied().collect();
                for k in keys {
                    view.push((k, sender.nb_transfers(k).unwrap_or(u64::MAX)));
                }
                view.sort();
                if view.len() != sender.nb_objects() {
                    tok.push_str("!nbobj");
                }
                tok.push('[');
                tok.push_str(&view.iter().map(|(k, v)| format!("{:x}={:x}", k, v)).collect::<Vec<_>>().join(","));
                tok.push(']');
                let evs: Vec<String> = obs.0.lock().unwrap().drain(..).collect();
                tok.push('{');
                tok.push_str(&evs.join(","));
                tok.push('}');
                // snapshot of the FDT the sender would publish now
                tok.push('@');
                match sender.fdt_xml_data(t_ms(last_t)) {
                    Err(_) => {
                        prev_snap = None;
                        tok.push_str("ERR");
                    }
                    Ok(xml) => {
                        if prev_snap.as_ref() == Some(&xml) {
                            tok.push('=');
                        } else {
                            tok.push_str(&hs(&xml));
                            tok.push('~');
                            tok.push_str(&fparse(&xml));
                            prev_snap = Some(xml);
                        }
                    }
                }
                tok
            });
            match step {
                Some(tk) => toks.push(tk),
                None => {
                    toks.push("PANIC".into());
                    break;
                }
            }
        }
        let _ = catch(move || drop(receiver));
        let _ = catch(move || drop(sender));
    }
    toks.extend(rxlog.borrow_mut().drain(..));
    toks.join(" ")
}

// ---------------- generator ----------------

struct G<'a> {
    rng: &'a mut Rng,
    long_used: bool,
    long_max: u64,
    ctrl_pending: bool,
}

const WORDS: [&str; 8] = ["abc", "text", "plain", "Group1", "x-y_z.9", "a/b", "Tag", "v2"];

impl<'a> G<'a> {
    fn piece(&mut self) -> String {
        match self.rng.below(27) {
            0 => "\"".into(),
            1 => "'".into(),
            2 => "&".into(),
            3 => "<".into(),
            4 => ">".into(),
            5 => "&amp;".into(),
            6 => "&lt;".into(),
            7 => "&#10;".into(),
            8 => "]]>".into(),
            9 => "<!--".into(),
            10 => "?>".into(),
            11 => "=".into(),
            12 => "/".into(),
            13 => "%41".into(),
            14 => ";".into(),
            15 => " ".into(),
            16 => "  ".into(),
            17 => "é".into(),
            18 => "€".into(),
            19 => "𝄞".into(),
            20 => "日本".into(),
            21 => String::new(),
            22 => {
                if !self.long_used && self.rng.chance(1, 6) {
                    self.long_used = true;
                    let n = self.rng.range(200, self.long_max);
                    "x".repeat(n as usize)
                } else {
                    "x".into()
                }
            }
            _ => self.rng.pick(&WORDS).to_string(),
        }
    }

    /// adversarial string without control characters
    fn adv(&mut self) -> String {
        if self.rng.chance(1, 25) {
            return String::new();
        }
        let n = self.rng.range(1, 6);
        let mut s = String::new();
        for _ in 0..n {
            s.push_str(&self.piece());
        }
        s
    }

    fn groups(&mut self, none_pct: u64) -> String {
        if self.rng.below(100) < none_pct {
            return "N".into();
        }
        let n = self.rng.below(4);
        let items: Vec<String> = (0..n).map(|_| hstr(&self.adv())).collect();
        format!("G{}", items.join(","))
    }

    fn cenc(&mut self, null_pct: u64) -> &'static str {
        if self.rng.below(100) < null_pct {
            "null"
        } else {
            *self.rng.pick(&["zlib", "deflate", "gzip"])
        }
    }

    fn location(&mut self, idx: usize) -> String {
        if self.rng.chance(3, 100) {
            return self.rng.pick(&["::nope", "", "http://[bad"]).to_string();
        }
        match self.rng.below(3) {
            0 => format!("file:///o{}_{}", idx, self.adv()),
            1 => {
                let (a, b, c) = (self.adv(), self.adv(), self.adv());
                format!("http://host/dir/n{}_{}?{}#{}", idx, a, b, c)
            }
            _ => format!("x:o{}_{}", idx, self.adv()),
        }
    }

    /// one A op; `skind` / `se` describe the session OTI
    fn obj(&mut self, idx: usize, skind: &str, se: u64) -> String {
        let f = self.rng.below(2);
        let (oti, kind, e): (String, String, u64) = if self.rng.below(100) < 55 {
            ("-".to_string(), skind.to_string(), se)
        } else {
            match self.rng.below(5) {
                0 => {
                    let e = *self.rng.pick(&[16u64, 64, 256]);
                    let b = *self.rng.pick(&[1u64, 2, 64]);
                    (format!("nc:{}:{}:0:0:0:{}", e, b, f), "nc".into(), e)
                }
                1 => (format!("rs:64:{}:{}:0:0:{}", self.rng.range(2, 4), self.rng.range(1, 2), f), "rs".into(), 64),
                2 => (format!("rsus:64:{}:{}:0:0:{}", self.rng.range(2, 4), self.rng.range(1, 2), f), "rsus".into(), 64),
                3 => {
                    let e = *self.rng.pick(&[64u64, 128]);
                    let b = self.rng.range(2, 8);
                    let p = self.rng.range(0, 2);
                    let al = *self.rng.pick(&[4u64, 8]);
                    (format!("rq:{}:{}:{}:1:{}:{}", e, b, p, al, f), "rq".into(), e)
                }
                _ => (format!("rp:64:{}:{}:1:4:{}", self.rng.range(4, 8), self.rng.range(0, 2), f), "rp".into(), 64),
            }
        };
        // Raptor cannot carry blocks of 2 or 3 symbols: a single uncompressed symbol only
        let nsym = if kind == "rp" { 1 } else { self.rng.range(1, 3) };
        // an empty Raptor/RaptorQ object with in-band FTI makes the sender emit a packet (Z = 0) that
        // flute's parser rejects: not generated
        let eff_f = if oti == "-" { 1 } else { f };
        let no_empty = (kind == "rp" || kind == "rq") && eff_f == 1;
        let len = if self.rng.chance(1, 10) && !no_empty { 0 } else { (nsym - 1) * e + self.rng.range(1, e) };
        let cenc = if kind == "rp" { "null" } else { self.cenc(75) };
        let md5 = self.rng.below(2);
        let cache = if self.rng.below(100) < 40 {
            "-".to_string()
        } else {
            match self.rng.below(4) {
                0 => "nc".to_string(),
                1 => "ms".to_string(),
                2 => format!("ex{}", self.rng.pick(&[0u64, 999, 5000, 86400000])),
                _ => format!("at{}", self.rng.pick(&[0u64, 1500, 10000000])),
            }
        };
        let mut ctype = self.adv();
        let mut etag: Option<String> = if self.rng.below(100) < 60 { None } else { Some(self.adv()) };
        if self.ctrl_pending {
            // the known class: one content type or etag of the scenario carries a TAB, LF or CR
            self.ctrl_pending = false;
            let c = *self.rng.pick(&["\t", "\n", "\r"]);
            let w = self.rng.pick(&WORDS).to_string();
            if self.rng.chance(1, 2) {
                ctype = format!("{}{}{}", ctype, c, w);
            } else {
                etag = Some(format!("{}{}{}", etag.unwrap_or_default(), c, w));
            }
        }
        let loc = self.location(idx);
        let groups = self.groups(60);
        let max = self.rng.range(1, 2);
        let car = if self.rng.below(100) < 85 {
            "n".to_string()
        } else if self.rng.chance(1, 2) {
            format!("d{}", self.rng.range(100, 500))
        } else {
            format!("i{}", self.rng.range(100, 800))
        };
        let icenc = self.rng.below(2);
        format!(
            "A {} {} {} {} {} {} {} {} {} {} {} {}",
            len,
            hstr(&ctype),
            hstr(&loc),
            cenc,
            md5,
            oti,
            cache,
            ostr(etag.as_deref()),
            groups,
            max,
            car,
            icenc
        )
    }
}

fn gen_scenario(rng: &mut Rng, big: bool, long_max: u64) -> String {
    let mut g = G { rng, long_used: false, long_max, ctrl_pending: false };
    g.ctrl_pending = g.rng.chance(2, 100);
    let full = g.rng.chance(1, 2);
    let dur = *g.rng.pick(&[
        1000u64, 2000, 2500, 5000, 9000, 10000, 10500, 12000, 30000, 31000, 40000, 3_600_000, 86_400_000, 259_200_000,
    ]);
    let fcar = match g.rng.below(3) {
        0 => "d0".to_string(),
        1 => format!("d{}", g.rng.range(500, 2000)),
        _ => format!("i{}", g.rng.range(700, 2800)),
    };
    let startid = match g.rng.below(6) {
        0 => 0,
        1 => 1,
        2 => 77,
        3 => 1048574,
        4 => 1048575,
        _ => g.rng.below(1048576),
    };
    let fcenc = g.cenc(70);
    let r = g.rng.below(100);
    // Raptor is not generated as the SESSION OTI: the FDT itself is then a Raptor object and its
    // publication is refused whenever its size gives a source block of 2 or 3 symbols (D26/D29);
    // the corpus keeps a Raptor-session witness (D31)
    let (soti, skind, se): (String, &str, u64) = if r < 63 {
        let e = *g.rng.pick(&[1400u64, 512, 128]);
        (format!("nc:{}:64:0:0:0:1", e), "nc", e)
    } else if r < 76 {
        ("rs:256:8:2:0:0:1".into(), "rs", 256)
    } else if r < 88 {
        ("rsus:256:8:2:0:0:1".into(), "rsus", 256)
    } else {
        ("rq:128:8:2:1:4:1".into(), "rq", 128)
    };
    let sgroups = g.groups(50);
    let mult = g.rng.below(4);
    let sct = g.rng.below(2);

    let mut ops: Vec<String> = Vec::new();
    let nops = if big { g.rng.range(20, 60) } else { g.rng.range(6, 28) };
    let horizon = (*g.rng.pick(&[50u64, 400, 3000, dur, 2 * dur])).min(400_000);
    let mut now = 0u64;
    let mut nadd = 0usize;
    let nobj0 = g.rng.range(0, 3);
    for _ in 0..nobj0 {
        ops.push(g.obj(nadd, skind, se));
        nadd += 1;
    }
    if full || g.rng.chance(1, 4) {
        ops.push(format!("P {}", now));
    }
    for _ in 0..nops {
        // time advances by a fine or a coarse step
        now += match g.rng.below(6) {
            0 => 0,
            1 => 0,
            2 => g.rng.range(0, 3),
            3 => g.rng.range(1, 50),
            4 => g.rng.range(50, horizon / 2 + 50),
            _ => 1,
        };
        if g.rng.chance(1, 40) {
            ops.push("C".into());
            continue;
        }
        match g.rng.below(24) {
            0 | 1 => {
                ops.push(g.obj(nadd, skind, se));
                nadd += 1;
                if full && g.rng.chance(2, 3) {
                    ops.push(format!("P {}", now));
                }
            }
            2 => ops.push(format!("P {}", now)),
            3 => {
                if nadd > 0 {
                    ops.push(format!("R {}", g.rng.below(nadd as u64)));
                    if full && g.rng.chance(1, 2) {
                        ops.push(format!("P {}", now));
                    }
                }
            }
            4 | 5 => ops.push(format!("q {}", now)),
            _ => {
                // a burst of reads at one instant
                let k = g.rng.range(1, 6);
                for _ in 0..k {
                    ops.push(format!("r {}", now));
                }
            }
        }
    }
    format!(
        "F {} {} {} {} {} {} {} {} {} ; {}",
        if full { "full" } else { "bt" },
        dur,
        fcar,
        startid,
        fcenc,
        soti,
        sgroups,
        mult,
        sct,
        ops.join(" ; ")
    )
}

/// deterministic grid: the FDT is republished around its expiry, the instance id wraps
fn grid(emit: &mut dyn FnMut(String)) {
    for mode in ["full", "bt"] {
        for startid in [0u64, 1, 1048574, 1048575] {
            for dur in [1000u64, 5000, 10000, 12000, 31000, 3_600_000] {
                let end = dur + 3000;
                let mut times: Vec<u64> = vec![0, 300, 700, 1000, 1300, 1700, 2000];
                for back in [5000u64, 4999, 1000, 999, 0] {
                    if dur >= back {
                        times.push(dur - back);
                    }
                }
                for fwd in [1u64, 300, 1000, 2000, 2500, 3000] {
                    times.push(dur + fwd);
                }
                if dur > 12000 {
                    times.push(dur / 3);
                    times.push(2 * (dur / 3));
                }
                times.retain(|t| *t <= end);
                times.sort();
                times.dedup();
                let mut ops: Vec<String> = Vec::new();
                ops.push(format!("A 100 {} {} null 1 - - N N 1 n 0", hstr("a/b"), hstr("file:///g0")));
                ops.push(format!("A 3000 {} {} null 0 - - N N 1 n 0", hstr("text/plain"), hstr("file:///g1")));
                ops.push("P 0".into());
                for t in times {
                    ops.push(format!("q {}", t));
                }
                emit(format!("F {} {} d500 {} null nc:1400:64:0:0:0:1 N 1 1 ; {}", mode, dur, startid, ops.join(" ; ")));
            }
        }
    }
}

fn gen(args: &Args, emit: &mut dyn FnMut(String)) {
    let thorough = args.tier == "thorough";
    let mut rng = Rng::new(args.seed.wrapping_mul(1000003).wrapping_add(args.shard.0));
    let count = if thorough { 30000 } else { 2400 } / args.shard.1;
    if args.shard.0 == 0 {
        grid(emit);
    }
    let long_max = if thorough { 20000 } else { 3000 };
    for i in 0..count {
        let s = gen_scenario(&mut rng, i % 5 == 0, long_max);
        emit(s);
    }
}

pub fn run(args: &Args) {
    let mut tr = Trace::new(args.out.as_deref());
    if let Some(rp) = &args.replay {
        // only '\n' separates scenarios (a replay file is machine written)
        for line in std::fs::read_to_string(rp).unwrap().split('\n') {
            let input = line.split('|').next().unwrap().trim();
            if input.is_empty() || input.starts_with('#') {
                continue;
            }
            tr.line(&format!("{} | {}", input, eval(input)));
        }
    } else {
        gen(args, &mut |input: String| {
            let out = eval(&input);
            tr.line(&format!("{} | {}", input, out));
        });
    }
    tr.finish();
}
