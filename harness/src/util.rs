//! Shared helpers: seeded PRNG, panic capture, trace writer.
use std::io::Write;

#[derive(Clone)]
pub struct Rng(pub u64);
impl Rng {
    pub fn new(seed: u64) -> Self {
        Rng(seed ^ 0x9E3779B97F4A7C15)
    }
    pub fn next(&mut self) -> u64 {
        self.0 = self.0.wrapping_add(0x9E3779B97F4A7C15);
        let mut z = self.0;
        z = (z ^ (z >> 30)).wrapping_mul(0xBF58476D1CE4E5B9);
        z = (z ^ (z >> 27)).wrapping_mul(0x94D049BB133111EB);
        z ^ (z >> 31)
    }
    pub fn below(&mut self, n: u64) -> u64 {
        if n == 0 {
            0
        } else {
            self.next() % n
        }
    }
    pub fn range(&mut self, lo: u64, hi: u64) -> u64 {
        lo + self.below(hi - lo + 1)
    }
    pub fn pick<'a, T>(&mut self, v: &'a [T]) -> &'a T {
        &v[self.below(v.len() as u64) as usize]
    }
    pub fn chance(&mut self, num: u64, den: u64) -> bool {
        self.below(den) < num
    }
    pub fn bytes(&mut self, n: usize) -> Vec<u8> {
        (0..n).map(|_| self.next() as u8).collect()
    }
}

/// Run `f`, mapping a panic to `None`. Panic messages are silenced by `quiet_panics`.
pub fn catch<T>(f: impl FnOnce() -> T) -> Option<T> {
    std::panic::catch_unwind(std::panic::AssertUnwindSafe(f)).ok()
}

pub fn quiet_panics() {
    std::panic::set_hook(Box::new(|_| {}));
}

pub struct Trace {
    out: std::io::BufWriter<Box<dyn Write>>,
    pub lines: u64,
}
impl Trace {
    pub fn new(path: Option<&str>) -> Self {
        let w: Box<dyn Write> = match path {
            Some(p) => Box::new(std::fs::File::create(p).expect("create trace")),
            None => Box::new(std::io::stdout()),
        };
        Trace {
            out: std::io::BufWriter::with_capacity(1 << 20, w),
            lines: 0,
        }
    }
    pub fn line(&mut self, s: &str) {
        self.out.write_all(s.as_bytes()).unwrap();
        self.out.write_all(b"\n").unwrap();
        self.lines += 1;
    }
    pub fn finish(mut self) {
        self.out.flush().unwrap();
    }
}

pub fn hex(data: &[u8]) -> String {
    let mut s = String::with_capacity(data.len() * 2);
    for b in data {
        s.push_str(&format!("{:02x}", b));
    }
    if s.is_empty() {
        s.push('-');
    }
    s
}

pub fn unhex(s: &str) -> Vec<u8> {
    if s == "-" {
        return Vec::new();
    }
    (0..s.len() / 2)
        .map(|i| u8::from_str_radix(&s[2 * i..2 * i + 2], 16).unwrap())
        .collect()
}

pub struct Args {
    pub worker: bool,
    pub tier: String,
    pub seed: u64,
    pub out: Option<String>,
    pub replay: Option<String>,
    pub shard: (u64, u64),
    pub rest: Vec<String>,
}

pub fn parse_args(argv: &[String]) -> Args {
    let mut a = Args {
        worker: false,
        tier: "quick".into(),
        seed: 1,
        out: None,
        replay: None,
        shard: (0, 1),
        rest: vec![],
    };
    let mut i = 0;
    while i < argv.len() {
        match argv[i].as_str() {
            "--worker" => a.worker = true,
            "--tier" => {
                a.tier = argv[i + 1].clone();
                i += 1
            }
            "--seed" => {
                a.seed = argv[i + 1].parse().unwrap_or(1);
                i += 1
            }
            "--out" => {
                a.out = Some(argv[i + 1].clone());
                i += 1
            }
            "--replay" => {
                a.replay = Some(argv[i + 1].clone());
                i += 1
            }
            "--shard" => {
                let p: Vec<u64> = argv[i + 1].split('/').map(|x| x.parse().unwrap()).collect();
                a.shard = (p[0], p[1]);
                i += 1
            }
            other => a.rest.push(other.to_string()),
        }
        i += 1;
    }
    a
}

/// Evaluate inputs in child worker processes (`fluteh <subcmd> --worker`): a case that does not
/// answer within `timeout_s` is reported as HANG (the worker is killed and replaced), a worker
/// that dies (abort on allocation failure, stack overflow) as CRASH.  The worker's address space
/// is limited to `mem_mb`.
pub fn worker_loop(eval: fn(&str) -> String, mem_mb: u64) {
    unsafe {
        let lim = libc::rlimit { rlim_cur: mem_mb * 1024 * 1024, rlim_max: mem_mb * 1024 * 1024 };
        libc::setrlimit(libc::RLIMIT_AS, &lim);
    }
    let stdin = std::io::stdin();
    let mut line = String::new();
    loop {
        line.clear();
        match stdin.read_line(&mut line) {
            Ok(0) | Err(_) => break,
            Ok(_) => {}
        }
        let out = eval(line.trim_end());
        let mut so = std::io::stdout().lock();
        let _ = so.write_all(out.replace('\n', " ").as_bytes());
        let _ = so.write_all(b"\n");
        let _ = so.flush();
    }
}

pub struct WorkerPool {
    subcmd: String,
    timeout: std::time::Duration,
    child: Option<(std::process::Child, std::sync::mpsc::Receiver<String>)>,
}
impl WorkerPool {
    pub fn new(subcmd: &str, timeout_s: u64) -> Self {
        WorkerPool { subcmd: subcmd.to_string(), timeout: std::time::Duration::from_secs(timeout_s), child: None }
    }
    fn spawn(&mut self) {
        let exe = std::env::current_exe().unwrap();
        // a few attempts: the binary may be in the middle of being replaced by a concurrent build
        let mut tries = 0;
        let mut ch = loop {
            match std::process::Command::new(&exe)
                .arg(&self.subcmd)
                .arg("--worker")
                .stdin(std::process::Stdio::piped())
                .stdout(std::process::Stdio::piped())
                .stderr(std::process::Stdio::null())
                .spawn()
            {
                Ok(ch) => break ch,
                Err(e) => {
                    tries += 1;
                    if tries >= 10 {
                        panic!("spawn worker: {}", e);
                    }
                    std::thread::sleep(std::time::Duration::from_millis(300));
                }
            }
        };
        let out = ch.stdout.take().unwrap();
        let (tx, rx) = std::sync::mpsc::channel();
        std::thread::spawn(move || {
            use std::io::BufRead;
            let rd = std::io::BufReader::new(out);
            for l in rd.lines() {
                match l {
                    Ok(l) => {
                        if tx.send(l).is_err() {
                            break;
                        }
                    }
                    Err(_) => break,
                }
            }
        });
        self.child = Some((ch, rx));
    }
    pub fn eval(&mut self, input: &str) -> String {
        if self.child.is_none() {
            self.spawn();
        }
        let (ch, rx) = self.child.as_mut().unwrap();
        let ok = {
            let si = ch.stdin.as_mut().unwrap();
            si.write_all(input.as_bytes()).is_ok() && si.write_all(b"\n").is_ok() && si.flush().is_ok()
        };
        if !ok {
            self.kill();
            return "CRASH".into();
        }
        match rx.recv_timeout(self.timeout) {
            Ok(l) => l,
            Err(std::sync::mpsc::RecvTimeoutError::Timeout) => {
                self.kill();
                "HANG".into()
            }
            Err(_) => {
                self.kill();
                "CRASH".into()
            }
        }
    }
    fn kill(&mut self) {
        if let Some((mut ch, _)) = self.child.take() {
            let _ = ch.kill();
            let _ = ch.wait();
        }
    }
}
impl Drop for WorkerPool {
    fn drop(&mut self) {
        // let an idle worker end by itself (end of input), so that it runs its exit handlers
        if let Some((ch, _)) = self.child.as_mut() {
            drop(ch.stdin.take());
            for _ in 0..100 {
                match ch.try_wait() {
                    Ok(None) => std::thread::sleep(std::time::Duration::from_millis(20)),
                    _ => break,
                }
            }
        }
        self.kill();
    }
}
