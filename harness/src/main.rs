//! fluteh - harness running the implementation (/repo working tree) and writing traces
//! that the extracted Coq models recompute.  One subcommand per property family.
mod c07;
mod c08;
mod c09;
mod c11;
mod c05;
mod c18;
mod c15;
mod c06;
mod c19;
mod c10;
mod c04;
mod util;

/// Counting allocator: live heap bytes of the process (C17 measures the receiver with it).
pub struct Counting;
pub static LIVE: std::sync::atomic::AtomicIsize = std::sync::atomic::AtomicIsize::new(0);
unsafe impl std::alloc::GlobalAlloc for Counting {
    unsafe fn alloc(&self, l: std::alloc::Layout) -> *mut u8 {
        let p = std::alloc::System.alloc(l);
        if !p.is_null() {
            LIVE.fetch_add(l.size() as isize, std::sync::atomic::Ordering::Relaxed);
        }
        p
    }
    unsafe fn dealloc(&self, p: *mut u8, l: std::alloc::Layout) {
        LIVE.fetch_sub(l.size() as isize, std::sync::atomic::Ordering::Relaxed);
        std::alloc::System.dealloc(p, l)
    }
    unsafe fn realloc(&self, p: *mut u8, l: std::alloc::Layout, new_size: usize) -> *mut u8 {
        let q = std::alloc::System.realloc(p, l, new_size);
        if !q.is_null() {
            LIVE.fetch_add(new_size as isize - l.size() as isize, std::sync::atomic::Ordering::Relaxed);
        }
        q
    }
}
#[global_allocator]
static GLOBAL: Counting = Counting;
pub fn live_bytes() -> isize {
    LIVE.load(std::sync::atomic::Ordering::Relaxed)
}

fn main() {
    let argv: Vec<String> = std::env::args().collect();
    if argv.len() < 2 {
        eprintln!("usage: fluteh <subcommand> [--tier quick|thorough] [--seed N] [--out file] [--replay file]");
        std::process::exit(2);
    }
    util::quiet_panics();
    let mut args = util::parse_args(&argv[2..]);
    if argv[1] == "toi-light" {
        // second C15 run entry of the thorough tier: quick sizes on both build profiles
        args.rest.push("light".into());
    }
    match argv[1].as_str() {
        "part" => c07::run(&args),
        "encode" => c08::run(&args, false),
        "source" => c08::run(&args, true),
        "sender" => c11::run(&args),
        "recv" | "memrecv" | "session" | "loss" | "carousel" => c09::run(&args, argv[1].as_str()),
        "path" => c05::run(&args),
        "multi" => c18::run(&args),
        "toi" | "toi-light" => c15::run(&args),
        "wire" => c06::run(&args),
        "expiry" => c19::run(&args),
        "fdt" => c10::run(&args),
        "fuzzrecv" => c04::run(&args),
        other => {
            eprintln!("unknown subcommand {}", other);
            std::process::exit(2);
        }
    }
}
