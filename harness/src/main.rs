//! fluteh - harness running the implementation (/repo working tree) and writing traces
//! that the extracted Coq models recompute.  One subcommand per property family.
mod c07;
mod c08;
mod c09;
mod c11;
mod c05;
mod c18;
mod util;

fn main() {
    let argv: Vec<String> = std::env::args().collect();
    if argv.len() < 2 {
        eprintln!("usage: fluteh <subcommand> [--tier quick|thorough] [--seed N] [--out file] [--replay file]");
        std::process::exit(2);
    }
    util::quiet_panics();
    let args = util::parse_args(&argv[2..]);
    match argv[1].as_str() {
        "part" => c07::run(&args),
        "encode" => c08::run(&args, false),
        "source" => c08::run(&args, true),
        "sender" => c11::run(&args),
        "recv" => c09::run(&args),
        "path" => c05::run(&args),
        "multi" => c18::run(&args),
        other => {
            eprintln!("unknown subcommand {}", other);
            std::process::exit(2);
        }
    }
}
