//! Untrusted input (C04): byte strings, substituted, mutated and crafted datagrams pushed into a
//! real `Receiver` AND a real `MultiReceiver`, each sequence followed by a valid session on a fresh
//! TOI range / fresh FDT instance ids which must still be delivered byte-exact.
//!
//! Input lines (`;`-separated sections, the session sections are those of c09.rs):
//!   B <n> <prefixhex|->                  every datagram of length n that starts with the n-1 prefix bytes
//!                                        (n = 0: the empty datagram), pushed one after the other
//!   Y <pkt> <off> <val|*> ; V .. ; O ..  the session with byte <off> of packet <pkt> replaced by <val>
//!                                        (`*`: all 256 values, one fresh receiver pair per value)
//!   S <pkt|all> <len> ; V .. ; O ..      the session with the symbol of one / every object packet resized to <len> bytes
//!   W <n> <k>                            k copies of the follow-up's own FDT packet with its last n bytes damaged; no cleanup() before the follow-up
//!   U <j> <bump>                         the follow-up's FDT packet, then its j-th object packet with the source block number raised by <bump>
//!                                        (out of range: rejected, the object fails); receivers keep a list of failed objects
//!                                        (max_objects_error = 8); no cleanup() before the follow-up
//!   X <cp> <keep> ; V .. ; O ..          after every object packet a copy with Codepoint <cp>, cut <keep> bytes after the header
//!   Z <seed> <nmut> ; V .. ; O ..        seeded field-aware mutation sequence applied to the session
//!   G <hex> <hex> ...                    explicit datagram sequence (replays, minimised failures)
//! Output tokens:
//!   prof=dev|rel  n=<datagrams>  bytes=<sum of lengths>  touched=0|1 (garbage parsed onto the follow-up's TOIs / FDT ids)
//!   A=<O|E|P per datagram>   flute's parse_alc_pkt called directly
//!   S=<-|N|T|E|P>            get_sender_current_time on the parsed packet
//!   I=<-|O|E|P>              parse_payload_id with the packet's own OTI (EXT_FTI), `-` without one
//!   R=<O|E|P per datagram>   Receiver::push_data       Rx=<cleanup><drop>  Rh=<live heap>  Rt=<max us per call>
//!   Rf=<O|E|P per follow-up datagram>  Rd=0|1 follow-up objects complete and byte-exact
//!   M=.. Mx=.. Mh=.. Mt=.. Mf=.. Md=..  the same through MultiReceiver::push
//!   D=<hex|=>,..             the datagrams (`=`: unmutated genuine packet)   base=<hex> (Y lines)   m=<mutations>
//!   for `Y .. *`: A/S/I have 256 entries (index = substituted value) and V=<o|t|P|F per value>
//!   (o: every call returned and the follow-up was delivered, t: touched, P: a call panicked, F: follow-up lost)
//! A case that does not answer within the watchdog is `HANG`, a worker that dies (allocation beyond
//! the address-space limit, abort, stack overflow) is `CRASH`.
use crate::c09;
use crate::util::*;
use flute::core::lct::Cenc;
use flute::core::{Oti, UDPEndpoint};
use flute::receiver::writer::{ObjectMetadata, ObjectWriter, ObjectWriterBuilder, ObjectWriterBuilderResult};
use flute::receiver::{MultiReceiver, Receiver};
use flute::sender::{Config as SConfig, FDTPublishMode, ObjectDesc, Sender, TransferConfig};
use std::cell::RefCell;
use std::collections::HashMap;
use std::rc::Rc;
use std::time::{Duration, SystemTime, UNIX_EPOCH};

const BASE_S: u64 = 1_700_000_000;
const MEM_MB: u64 = 1024;
const WATCHDOG_S: u64 = 20;
const WATCHDOG_BATCH_S: u64 = 90;
/// a shard that has seen this many cases hang or crash stops: the verdict is settled, and every
/// further such case would cost a whole watchdog period
const MAX_DEAD_CASES: usize = 3;
const FU_TOI0: u128 = 70000;
const FU_FDT0: u32 = 5000;

thread_local! {
    static SITES: RefCell<Vec<String>> = RefCell::new(Vec::new());
}
/// panic hook of the worker: remember where each panic came from (file:line of the panicking code)
fn record_panics() {
    std::panic::set_hook(Box::new(|info| {
        let site = match info.location() {
            Some(l) => {
                let f = l.file();
                let short = match f.rfind("/src/") {
                    Some(i) => {
                        let head = &f[..i];
                        let krate = head.rsplit('/').next().unwrap_or("");
                        format!("{}{}", krate, &f[i..])
                    }
                    None => f.to_string(),
                };
                format!("{}:{}", short, l.line())
            }
            None => "?".to_string(),
        };
        if std::env::var("FLUTEH_BT").is_ok() {
            eprintln!("panic at {}: {}\n{}", site, info, std::backtrace::Backtrace::force_capture());
        }
        SITES.with(|s| {
            let mut s = s.borrow_mut();
            if !s.contains(&site) && s.len() < 8 {
                s.push(site);
            }
        });
    }));
}
fn take_sites() -> String {
    SITES.with(|s| {
        let v: Vec<String> = s.borrow_mut().drain(..).collect();
        if v.is_empty() {
            "-".to_string()
        } else {
            v.join(",")
        }
    })
}

fn t_ms(ms: u64) -> SystemTime {
    UNIX_EPOCH + Duration::from_secs(BASE_S) + Duration::from_millis(ms)
}

// ---------------------------------------------------------------- collecting writer
#[derive(Default)]
struct Col {
    objs: HashMap<u128, (Vec<u8>, u8)>, // bytes, 0 open / 1 complete / 2 error
}
struct ColBuilder {
    sh: Rc<RefCell<Col>>,
}
struct ColWriter {
    sh: Rc<RefCell<Col>>,
    toi: u128,
}
impl std::fmt::Debug for ColWriter {
    fn fmt(&self, f: &mut std::fmt::Formatter<'_>) -> std::fmt::Result {
        write!(f, "ColWriter")
    }
}
impl ObjectWriterBuilder for ColBuilder {
    fn new_object_writer(&self, _e: &UDPEndpoint, _tsi: &u64, toi: &u128, _m: &ObjectMetadata, _now: SystemTime) -> ObjectWriterBuilderResult {
        self.sh.borrow_mut().objs.insert(*toi, (Vec::new(), 0));
        ObjectWriterBuilderResult::StoreObject(Box::new(ColWriter { sh: self.sh.clone(), toi: *toi }))
    }
    fn update_cache_control(&self, _e: &UDPEndpoint, _tsi: &u64, _toi: &u128, _m: &ObjectMetadata, _now: SystemTime) {}
    fn fdt_received(&self, _e: &UDPEndpoint, _tsi: &u64, _xml: &str, _exp: SystemTime, _m: &ObjectMetadata, _d: Duration, _now: SystemTime, _x: Option<SystemTime>) {}
}
impl ObjectWriter for ColWriter {
    fn open(&self, _now: SystemTime) -> flute::error::Result<()> {
        Ok(())
    }
    fn write(&self, _sbn: u32, data: &[u8], _now: SystemTime) -> flute::error::Result<()> {
        if let Some(o) = self.sh.borrow_mut().objs.get_mut(&self.toi) {
            // garbage may announce gigabytes: keep what a follow-up object can need
            if o.0.len() < (1 << 20) {
                o.0.extend_from_slice(data);
            }
        }
        Ok(())
    }
    fn complete(&self, _now: SystemTime) {
        if let Some(o) = self.sh.borrow_mut().objs.get_mut(&self.toi) {
            o.1 = 1;
        }
    }
    fn error(&self, _now: SystemTime) {
        if let Some(o) = self.sh.borrow_mut().objs.get_mut(&self.toi) {
            o.1 = 2;
        }
    }
    fn interrupted(&self, _now: SystemTime) {
        if let Some(o) = self.sh.borrow_mut().objs.get_mut(&self.toi) {
            o.1 = 2;
        }
    }
    fn enable_md5_check(&self) -> bool {
        true
    }
}

// ---------------------------------------------------------------- the valid follow-up session
struct FollowUp {
    pkts: Vec<Vec<u8>>,
    objs: Vec<(u128, Vec<u8>)>,
    fdt_ids: Vec<u32>,
}
fn build_followup() -> FollowUp {
    let mut scfg = SConfig::default();
    scfg.fdt_publish_mode = FDTPublishMode::FullFDT;
    scfg.interleave_blocks = 1;
    scfg.toi_max_length = flute::sender::TOIMaxLength::ToiMax32;
    scfg.toi_initial_value = Some(FU_TOI0);
    scfg.fdt_start_id = FU_FDT0;
    scfg.fdt_carousel_mode = flute::sender::CarouselRepeatMode::DelayBetweenTransfers(Duration::from_secs(3600));
    // one FDT packet (the instance is about 2 kB): a damaged copy of it is REJECTED, not merged (W lines)
    let session_oti = Oti::new_no_code(4096, 64);
    let ep = UDPEndpoint::new(None, "224.0.0.1".to_string(), 1234);
    let mut sender = Sender::new(ep, 1, &session_oti, &scfg);
    let mut objs = Vec::new();
    let specs: [(&str, usize, bool); 3] = [("nocode", 41, true), ("rs28", 23, false), ("nocode", 7, false)];
    for (i, (fec, len, inband)) in specs.iter().enumerate() {
        let content: Vec<u8> = (0..*len).map(|k| ((k * 11 + i * 29 + 3) % 253) as u8).collect();
        let mut oti = crate::c08::make_oti(fec, 16, 2, 1).unwrap();
        oti.inband_fti = *inband;
        let mut tc = TransferConfig::default();
        tc.max_transfer_count = 1;
        tc.oti = Some(oti);
        let url = url::Url::parse(&format!("file:///followup{}", i)).unwrap();
        let obj = ObjectDesc::create_from_buffer(content.clone(), "a/b", &url, true, tc).unwrap();
        let toi = sender.add_object(0, obj).unwrap();
        objs.push((toi, content));
    }
    let mut now = 0u64;
    sender.publish(t_ms(now)).unwrap();
    let mut pkts = Vec::new();
    let mut idle = 0;
    while idle < 3 {
        match sender.read(t_ms(now)) {
            Some(d) => {
                pkts.push(d);
                idle = 0;
            }
            None => {
                idle += 1;
                now += 10;
            }
        }
    }
    let mut fdt_ids = Vec::new();
    for d in &pkts {
        if let Ok(p) = flute::core::alc::parse_alc_pkt(d) {
            if let Some(f) = p.fdt_info.as_ref() {
                if !fdt_ids.contains(&f.fdt_instance_id) {
                    fdt_ids.push(f.fdt_instance_id);
                }
            }
        }
    }
    FollowUp { pkts, objs, fdt_ids }
}
thread_local! {
    static FOLLOWUP: FollowUp = build_followup();
    static SESSIONS: RefCell<HashMap<String, Option<Rc<Vec<Vec<u8>>>>>> = RefCell::new(HashMap::new());
}

// ---------------------------------------------------------------- running a sequence
struct TargetOut {
    res: String,
    cleanup: char,
    dropc: char,
    heap: isize,
    max_us: u128,
    fu: String,
    delivered: bool,
}
impl TargetOut {
    fn panicked(&self) -> bool {
        self.res.contains('P') || self.fu.contains('P') || self.cleanup == 'P' || self.dropc == 'P'
    }
}

enum Target {
    Single(Receiver),
    Multi(MultiReceiver),
}
impl Target {
    fn push(&mut self, ep: &UDPEndpoint, d: &[u8], now: SystemTime) -> flute::error::Result<()> {
        match self {
            Target::Single(r) => r.push_data(d, now),
            Target::Multi(m) => m.push(ep, d, now),
        }
    }
    fn cleanup(&mut self, now: SystemTime) {
        match self {
            Target::Single(r) => r.cleanup(now),
            Target::Multi(m) => m.cleanup(now),
        }
    }
}

fn res_char(r: Option<flute::error::Result<()>>) -> char {
    match r {
        Some(Ok(_)) => 'O',
        Some(Err(_)) => 'E',
        None => 'P',
    }
}

thread_local! {
    /// W lines: the follow-up session is pushed right after the garbage, without the cleanup() in between
    static NO_CLEANUP: std::cell::Cell<bool> = std::cell::Cell::new(false);
    /// U lines: Config::max_objects_error of the receivers (0 = default configuration)
    static MAX_ERR: std::cell::Cell<usize> = std::cell::Cell::new(0);
}

fn run_target(multi: bool, garbage: &[&[u8]]) -> TargetOut {
    let ep = UDPEndpoint::new(None, "224.0.0.1".to_string(), 1234);
    let col = Rc::new(RefCell::new(Col::default()));
    let builder = Rc::new(ColBuilder { sh: col.clone() });
    let h0 = crate::live_bytes();
    let rcfg = match MAX_ERR.with(|c| c.get()) {
        0 => None,
        n => Some(flute::receiver::Config { max_objects_error: n, ..Default::default() }),
    };
    let mut t = if multi {
        Target::Multi(MultiReceiver::new(builder, rcfg, false))
    } else {
        Target::Single(Receiver::new(&ep, 1, builder, rcfg))
    };
    let now = t_ms(1000);
    let mut res = String::with_capacity(garbage.len());
    let mut max_us = 0u128;
    let mut panics = 0;
    for d in garbage {
        let t0 = std::time::Instant::now();
        let r = catch(std::panic::AssertUnwindSafe(|| t.push(&ep, d, now)));
        max_us = max_us.max(t0.elapsed().as_micros());
        let c = res_char(r);
        if c == 'P' {
            panics += 1;
        }
        res.push(c);
        if panics > 3 {
            break;
        }
    }
    let t0 = std::time::Instant::now();
    let cleanup = if NO_CLEANUP.with(|c| c.get()) {
        'O'
    } else if catch(std::panic::AssertUnwindSafe(|| t.cleanup(now))).is_some() {
        'O'
    } else {
        'P'
    };
    max_us = max_us.max(t0.elapsed().as_micros());
    let stored: isize = col.borrow().objs.values().map(|o| o.0.capacity() as isize + 64).sum();
    let heap = crate::live_bytes() - h0 - stored;
    let mut fu = String::new();
    let delivered = FOLLOWUP.with(|f| {
        for d in &f.pkts {
            let t0 = std::time::Instant::now();
            let r = catch(std::panic::AssertUnwindSafe(|| t.push(&ep, d, now)));
            max_us = max_us.max(t0.elapsed().as_micros());
            fu.push(res_char(r));
        }
        let c = col.borrow();
        f.objs.iter().all(|(toi, content)| match c.objs.get(toi) {
            Some((data, 1)) => data == content,
            _ => false,
        })
    });
    let dropc = if catch(std::panic::AssertUnwindSafe(move || drop(t))).is_some() { 'O' } else { 'P' };
    TargetOut { res, cleanup, dropc, heap, max_us, fu, delivered }
}

/// what flute's parser says about one datagram: (parse, sender current time, payload id with own OTI)
fn parse_obs(d: &[u8]) -> (char, char, char, bool) {
    let r = catch(|| match flute::core::alc::parse_alc_pkt(d) {
        Err(_) => ('E', '-', '-', false),
        Ok(p) => {
            let touched = FOLLOWUP.with(|f| {
                p.lct.tsi == 1
                    && (f.objs.iter().any(|(t, _)| *t == p.lct.toi)
                        || (p.lct.toi == 0 && p.fdt_info.as_ref().map(|i| f.fdt_ids.contains(&i.fdt_instance_id)).unwrap_or(false)))
            });
            let s = match catch(|| flute::core::alc::get_sender_current_time(&p)) {
                None => 'P',
                Some(Err(_)) => 'E',
                Some(Ok(None)) => 'N',
                Some(Ok(Some(_))) => 'T',
            };
            let i = match p.oti.as_ref() {
                None => '-',
                Some(o) => match catch(|| flute::core::alc::parse_payload_id(&p, o)) {
                    None => 'P',
                    Some(Err(_)) => 'E',
                    Some(Ok(_)) => 'O',
                },
            };
            ('O', s, i, touched)
        }
    });
    r.unwrap_or(('P', '-', '-', false))
}

fn profile() -> &'static str {
    if cfg!(debug_assertions) {
        "dev"
    } else {
        "rel"
    }
}

/// push a sequence into both targets and report
fn run_sequence(garbage: &[&[u8]]) -> String {
    let mut a = String::new();
    let mut s = String::new();
    let mut i = String::new();
    let mut touch: Vec<bool> = Vec::new();
    for d in garbage {
        let (x, y, z, t) = parse_obs(d);
        a.push(x);
        s.push(y);
        i.push(z);
        touch.push(t);
    }
    let r = run_target(false, garbage);
    let m = run_target(true, garbage);
    // a datagram on the follow-up's own TOIs / FDT ids may legitimately disturb it only if a target
    // ACCEPTED it (spoofing); a rejected one must leave the receiver usable
    let rr: Vec<char> = r.res.chars().collect();
    let mr: Vec<char> = m.res.chars().collect();
    let touched = touch.iter().enumerate().any(|(k, t)| *t && (rr.get(k) == Some(&'O') || mr.get(k) == Some(&'O')));
    let bytes: usize = garbage.iter().map(|d| d.len()).sum();
    format!(
        "prof={} n={} bytes={} touched={} A={} S={} I={} R={} Rx={}{} Rh={} Rt={} Rf={} Rd={} M={} Mx={}{} Mh={} Mt={} Mf={} Md={} W={}",
        profile(),
        garbage.len(),
        bytes,
        if touched { 1 } else { 0 },
        if a.is_empty() { "-" } else { &a },
        if s.is_empty() { "-" } else { &s },
        if i.is_empty() { "-" } else { &i },
        if r.res.is_empty() { "-" } else { &r.res },
        r.cleanup,
        r.dropc,
        r.heap,
        r.max_us,
        r.fu,
        if r.delivered { 1 } else { 0 },
        if m.res.is_empty() { "-" } else { &m.res },
        m.cleanup,
        m.dropc,
        m.heap,
        m.max_us,
        m.fu,
        if m.delivered { 1 } else { 0 },
        take_sites()
    )
}

// ---------------------------------------------------------------- sessions
fn sections(input: &str) -> Vec<Vec<&str>> {
    input.split(';').map(|s| s.split_whitespace().collect::<Vec<&str>>()).filter(|v| !v.is_empty()).collect()
}

fn session_of(secs: &[Vec<&str>]) -> Option<Rc<Vec<Vec<u8>>>> {
    let v = secs.iter().find(|s| s[0] == "V")?;
    let objs: Vec<Vec<&str>> = secs.iter().filter(|s| s[0] == "O").cloned().collect();
    let key = format!("{:?}{:?}", v, objs);
    if let Some(hit) = SESSIONS.with(|m| m.borrow().get(&key).cloned()) {
        return hit;
    }
    let c: HashMap<&str, &str> = v[1..].iter().filter_map(|t| t.split_once('=')).collect();
    let built = match catch(|| c09::build_session(&c, &objs)) {
        Some(Some(s)) => Some(Rc::new(s.genuine)),
        _ => None,
    };
    SESSIONS.with(|m| m.borrow_mut().insert(key, built.clone()));
    built
}

// ---------------------------------------------------------------- packet layout (own reader, total)
struct Layout {
    ext_off: usize,
    hdr_len: usize,
    exts: Vec<(usize, u8, usize)>, // offset, HET, length in bytes
    pid_len: usize,
    toi_off: usize,
    toi_len: usize,
}
fn layout(d: &[u8]) -> Option<Layout> {
    if d.len() < 4 {
        return None;
    }
    let c = ((d[0] >> 2) & 3) as usize;
    let s = ((d[1] >> 7) & 1) as usize;
    let o = ((d[1] >> 5) & 3) as usize;
    let h = ((d[1] >> 4) & 1) as usize;
    let toi_off = 4 + (c + 1) * 4 + s * 4 + h * 2;
    let toi_len = o * 4 + h * 2;
    let ext_off = toi_off + toi_len;
    let hdr_len = (d[2] as usize) * 4;
    if ext_off > hdr_len || hdr_len > d.len() {
        return None;
    }
    let mut exts = Vec::new();
    let mut p = ext_off;
    while p + 4 <= hdr_len {
        let het = d[p];
        let l = if het >= 128 { 4 } else { (d[p + 1] as usize) * 4 };
        if l == 0 || p + l > hdr_len {
            break;
        }
        exts.push((p, het, l));
        p += l;
    }
    Some(Layout { ext_off, hdr_len, exts, pid_len: if d[3] == 129 { 8 } else { 4 }, toi_off, toi_len })
}
fn header_region(d: &[u8]) -> usize {
    match layout(d) {
        Some(l) => (l.hdr_len + l.pid_len).min(d.len()),
        None => d.len().min(64),
    }
}

// ---------------------------------------------------------------- field-aware mutations
fn interesting(rng: &mut Rng, width: usize) -> u64 {
    let max: u64 = if width >= 8 { u64::MAX } else { (1u64 << (8 * width)) - 1 };
    match rng.below(12) {
        0 => 0,
        1 => 1,
        2 => max,
        3 => max - 1,
        4 => max / 2,
        5 => max / 2 + 1,
        6 => rng.below(8),
        7 => rng.below(300),
        8 => 56403 & max,
        9 => 56404 & max,
        10 => 8193 & max,
        _ => rng.next() & max,
    }
}
fn put_be(d: &mut [u8], off: usize, width: usize, v: u64) {
    for k in 0..width {
        if off + k < d.len() {
            let sh = 8 * (width - 1 - k);
            d[off + k] = if sh >= 64 { 0 } else { (v >> sh) as u8 };
        }
    }
}

/// EXT_FTI built by hand for every scheme, with hostile parameter choices
fn craft_fti(rng: &mut Rng, cp: u8) -> Vec<u8> {
    let tl = match rng.below(6) {
        0 => 0u64,
        1 => 1,
        2 => rng.below(200),
        3 => (1u64 << 40) - 1,
        4 => rng.below(1 << 20),
        _ => rng.next() & 0xFFFF_FFFF_FFFF,
    };
    let e = match rng.below(6) {
        0 => 0u64,
        1 => 1,
        2 => 4,
        3 => 16,
        4 => 65535,
        _ => rng.below(2000),
    };
    let b = interesting(rng, if cp == 0 { 4 } else { 2 });
    let mut f = vec![64u8];
    match cp {
        5 => {
            f.push(3);
            let mut w = [0u8; 6];
            put_be(&mut w, 0, 6, tl);
            f.extend(w);
            f.extend((e as u16).to_be_bytes());
            f.push(b as u8);
            f.push(interesting(rng, 1) as u8);
        }
        2 => {
            f.push(4);
            let mut w = [0u8; 6];
            put_be(&mut w, 0, 6, tl);
            f.extend(w);
            f.push(*rng.pick(&[0u8, 8, 16, 31, 32, 33, 64, 255]));
            f.push(interesting(rng, 1) as u8);
            f.extend((e as u16).to_be_bytes());
            f.extend((b as u16).to_be_bytes());
            f.extend((interesting(rng, 2) as u16).to_be_bytes());
        }
        6 => {
            f.push(4);
            let mut w = [0u8; 5];
            put_be(&mut w, 0, 5, tl);
            f.extend(w);
            f.push(0);
            f.extend((e as u16).to_be_bytes());
            f.push(*rng.pick(&[0u8, 1, 1, 1, 2, 255])); // Z
            f.extend((interesting(rng, 2) as u16).to_be_bytes()); // N
            f.push(*rng.pick(&[0u8, 1, 1, 2, 3, 4, 8, 255])); // Al
            f.extend([0, 0]);
        }
        1 => {
            f.push(4);
            let mut w = [0u8; 5];
            put_be(&mut w, 0, 5, tl);
            f.extend(w);
            f.push(0);
            f.extend((e as u16).to_be_bytes());
            f.extend((*rng.pick(&[0u16, 1, 1, 1, 2, 65535])).to_be_bytes()); // Z
            f.push(interesting(rng, 1) as u8); // N
            f.push(*rng.pick(&[0u8, 1, 1, 2, 3, 4, 8, 255])); // Al
            f.extend([0, 0]);
        }
        129 => {
            f.push(4);
            let mut w = [0u8; 6];
            put_be(&mut w, 0, 6, tl);
            f.extend(w);
            f.extend((interesting(rng, 2) as u16).to_be_bytes());
            f.extend((e as u16).to_be_bytes());
            f.extend((b as u16).to_be_bytes());
            f.extend((interesting(rng, 2) as u16).to_be_bytes());
        }
        _ => {
            f.push(4);
            let mut w = [0u8; 6];
            put_be(&mut w, 0, 6, tl);
            f.extend(w);
            f.extend([0, 0]);
            f.extend((e as u16).to_be_bytes());
            f.extend((b as u32).to_be_bytes());
        }
    }
    f
}

/// a datagram built from nothing: LCT word, 32-bit CCI, TSI 1 (16 bits), TOI (32 bits), extensions, payload id, payload
fn craft_packet(rng: &mut Rng, toi: u32, cp: u8, fti: Option<&[u8]>, fdt_id: Option<u32>, sbn_esi: (u32, u32), payload_len: usize, close: bool) -> Vec<u8> {
    let mut d = vec![0x10u8, 0x30 | if close { 1 } else { 0 }, 0, cp];
    d.extend([0, 0, 0, 0]);
    d.extend(1u16.to_be_bytes());
    // O=1,H=1 : TOI on 48 bits
    d.extend([0, 0]);
    d.extend(toi.to_be_bytes());
    if let Some(id) = fdt_id {
        d.extend(((192u32 << 24) | (2 << 20) | (id & 0xFFFFF)).to_be_bytes());
    }
    if let Some(f) = fti {
        d.extend(f);
    }
    d[2] = (d.len() / 4) as u8;
    let (sbn, esi) = sbn_esi;
    match cp {
        129 => {
            d.extend(sbn.to_be_bytes());
            d.extend((interesting(rng, 2) as u16).to_be_bytes());
            d.extend((esi as u16).to_be_bytes());
        }
        5 => d.extend(((sbn << 8) | (esi & 0xFF)).to_be_bytes()),
        6 => d.extend(((sbn << 24) | (esi & 0xFFFFFF)).to_be_bytes()),
        _ => d.extend(((sbn << 16) | (esi & 0xFFFF)).to_be_bytes()),
    }
    d.extend(rng.bytes(payload_len));
    d
}

/// a hostile object: one set of FEC parameters, a handful of symbols of assorted sizes
fn craft_object(rng: &mut Rng, out: &mut Vec<Vec<u8>>, log: &mut Vec<String>) {
    let cp = *rng.pick(&[0u8, 1, 2, 5, 6, 129, 6, 1]);
    let toi = 100 + rng.below(50) as u32;
    let fti = craft_fti(rng, cp);
    let e = match cp {
        5 => u16::from_be_bytes([fti[8], fti[9]]),
        6 | 1 => u16::from_be_bytes([fti[8], fti[9]]),
        _ => u16::from_be_bytes([fti[10], fti[11]]),
    } as usize;
    let n = rng.range(1, 12);
    let mode = rng.below(4);
    log.push(format!("craft:cp{}:toi{}:n{}:fti{}", cp, toi, n, hex(&fti)));
    for k in 0..n {
        let sbn = match rng.below(8) {
            0 => interesting(rng, 4) as u32,
            1 => 1,
            _ => 0,
        };
        let esi = match rng.below(6) {
            0 => interesting(rng, 3) as u32,
            _ => k as u32,
        };
        let plen = match mode {
            0 => e.min(2000),
            1 => e.min(2000).saturating_sub(rng.range(1, 3) as usize),
            2 => *rng.pick(&[0usize, 1, 3, 17, 64]),
            _ => match rng.below(4) {
                0 => 0,
                1 => e.min(2000) + 1,
                2 => e.min(2000).saturating_sub(1),
                _ => e.min(2000),
            },
        };
        let with_fti = k == 0 || rng.chance(1, 2);
        let close = rng.chance(1, 10);
        out.push(craft_packet(rng, toi, cp, if with_fti { Some(&fti) } else { None }, None, (sbn, esi), plen, close));
    }
}

const XML_ATTRS: [&str; 14] = [
    "FEC-OTI-FEC-Encoding-ID",
    "FEC-OTI-FEC-Instance-ID",
    "FEC-OTI-Maximum-Source-Block-Length",
    "FEC-OTI-Encoding-Symbol-Length",
    "FEC-OTI-Max-Number-of-Encoding-Symbols",
    "FEC-OTI-Scheme-Specific-Info",
    "Transfer-Length",
    "Content-Length",
    "Content-Encoding",
    "Content-MD5",
    "TOI",
    "Expires",
    "Content-Location",
    "Content-Type",
];
const XML_VALUES: [&str; 30] = [
    "0", "1", "2", "3", "4", "5", "6", "129", "255", "256", "8192", "8193", "56403", "56404", "65535", "65536", "4294967295", "4294967296",
    "18446744073709551615", "18446744073709551616", "-1", "", "x", "AAAAAA==", "AQABAA==", "AQABAw==", "AAEBAA==", "AAA=", "gzip", "zlib",
];

/// rewrite one attribute value in every (or the first) element that carries it
fn xml_set(xml: &str, name: &str, val: &str, all: bool) -> String {
    let pat = format!(" {}=\"", name);
    let mut out = String::new();
    let mut rest = xml;
    let mut done = false;
    while let Some(i) = rest.find(&pat) {
        if done && !all {
            break;
        }
        let start = i + pat.len();
        out.push_str(&rest[..start]);
        let after = &rest[start..];
        match after.find('"') {
            Some(q) => {
                out.push_str(val);
                rest = &after[q..];
            }
            None => {
                rest = after;
                break;
            }
        }
        done = true;
    }
    out.push_str(rest);
    out
}

fn mutate_xml(rng: &mut Rng, xml: &[u8], log: &mut Vec<String>) -> Vec<u8> {
    let mut text = String::from_utf8_lossy(xml).to_string();
    let n = rng.range(1, 3);
    for _ in 0..n {
        match rng.below(10) {
            0 => {
                let cut = rng.below(text.len() as u64 + 1) as usize;
                let mut c = cut;
                while c > 0 && !text.is_char_boundary(c) {
                    c -= 1;
                }
                text.truncate(c);
                log.push(format!("xml:trunc{}", c));
            }
            1 => {
                let mut b = text.clone().into_bytes();
                if !b.is_empty() {
                    let i = rng.below(b.len() as u64) as usize;
                    b[i] = rng.next() as u8;
                    log.push(format!("xml:byte{}", i));
                }
                return b;
            }
            2 => {
                // remove an attribute
                let a = *rng.pick(&XML_ATTRS);
                let pat = format!(" {}=\"", a);
                if let Some(i) = text.find(&pat) {
                    if let Some(q) = text[i + pat.len()..].find('"') {
                        text.replace_range(i..i + pat.len() + q + 1, "");
                        log.push(format!("xml:del:{}", a));
                    }
                }
            }
            3 => {
                // duplicate an attribute
                let a = *rng.pick(&XML_ATTRS);
                let pat = format!(" {}=\"", a);
                if let Some(i) = text.find(&pat) {
                    text.insert_str(i, &format!(" {}=\"{}\"", a, rng.pick(&XML_VALUES)));
                    log.push(format!("xml:dup:{}", a));
                }
            }
            _ => {
                let a = *rng.pick(&XML_ATTRS);
                let v = *rng.pick(&XML_VALUES);
                text = xml_set(&text, a, v, rng.chance(1, 2));
                log.push(format!("xml:{}={}", a, v));
            }
        }
    }
    text.into_bytes()
}

/// replace the FDT instances of a session by rewritten ones (re-packetised with flute's own builder)
fn rewrite_fdt(rng: &mut Rng, g: &[Vec<u8>], log: &mut Vec<String>) -> Vec<Vec<u8>> {
    use flute::verif_hooks::{alc, pkt};
    let session_oti = Oti::new_no_code(1400, 64);
    let mut parts: HashMap<u32, std::collections::BTreeMap<(u32, u32), Vec<u8>>> = HashMap::new();
    for d in g {
        if let Some(Ok(p)) = catch(|| flute::core::alc::parse_alc_pkt(d)) {
            if p.lct.toi == 0 {
                if let (Some(fi), Some(Ok(pid))) = (p.fdt_info.as_ref(), catch(|| flute::core::alc::parse_payload_id(&p, &session_oti))) {
                    parts.entry(fi.fdt_instance_id).or_default().insert((pid.sbn, pid.esi), d[p.data_payload_offset..].to_vec());
                }
            }
        }
    }
    let mut done: std::collections::HashSet<u32> = Default::default();
    let mut out = Vec::new();
    for d in g {
        let info = match catch(|| flute::core::alc::parse_alc_pkt(d)) {
            Some(Ok(p)) if p.lct.toi == 0 => p.fdt_info.as_ref().map(|f| f.fdt_instance_id),
            _ => None,
        };
        let id = match info {
            Some(id) if parts.contains_key(&id) => id,
            _ => {
                out.push(d.clone());
                continue;
            }
        };
        if !done.insert(id) {
            continue;
        }
        let xml: Vec<u8> = parts[&id].values().flat_map(|v| v.iter().copied()).collect();
        let bytes = mutate_xml(rng, &xml, log);
        let e = 1400usize;
        let nsym = ((bytes.len() + e - 1) / e).max(1);
        let chunks: Vec<&[u8]> = if bytes.is_empty() { vec![&bytes[..]] } else { bytes.chunks(e).collect() };
        for (i, chunk) in chunks.iter().enumerate() {
            let pk = pkt::Pkt {
                payload: chunk.to_vec(),
                transfer_length: bytes.len() as u64,
                esi: i as u32,
                sbn: 0,
                toi: 0,
                fdt_id: Some(id),
                cenc: Cenc::Null,
                inband_cenc: false,
                close_object: false,
                source_block_length: nsym as u32,
                sender_current_time: false,
            };
            if let Some(d) = catch(|| alc::new_alc_pkt(&session_oti, &0u128, 1, &pk, flute::sender::Profile::RFC6726, t_ms(0))) {
                out.push(d);
            }
        }
    }
    out
}

fn mutate_packet(rng: &mut Rng, d: &mut Vec<u8>, others: &[Vec<u8>], log: &mut Vec<String>) {
    let lay = layout(d);
    let kind = rng.below(20);
    match (kind, lay) {
        (0, _) => {
            let h = header_region(d).max(1).min(d.len().max(1));
            if !d.is_empty() {
                let i = rng.below(h as u64) as usize % d.len();
                d[i] ^= 1 << rng.below(8);
                log.push(format!("flip@{}", i));
            }
        }
        (1, _) => {
            let h = header_region(d).max(1);
            if !d.is_empty() {
                let i = rng.below(h as u64) as usize % d.len();
                d[i] = interesting(rng, 1) as u8;
                log.push(format!("set@{}={:02x}", i, d[i]));
            }
        }
        (2, _) if d.len() >= 4 => {
            // first LCT word: version, C, PSI, S, O, H, A, B, HDR_LEN, codepoint
            match rng.below(6) {
                0 => d[0] = (d[0] & 0x0F) | ((rng.below(16) as u8) << 4),
                1 => d[0] = (d[0] & 0xF0) | rng.below(16) as u8,
                2 => d[1] = rng.next() as u8,
                3 => d[1] ^= *rng.pick(&[1u8, 2, 3]),
                4 => d[2] = *rng.pick(&[0u8, 1, 2, d[2].wrapping_sub(1), d[2].wrapping_add(1), 255, (d.len() / 4) as u8, (d.len() / 4 + 1) as u8]),
                _ => d[3] = *rng.pick(&[0u8, 1, 2, 5, 6, 129, 3, 128, 255]),
            }
            log.push(format!("lct:{}", hex(&d[..4])));
        }
        (3, Some(l)) if l.toi_len > 0 => {
            // TOI: the FDT, another object, a fresh one
            let v = *rng.pick(&[0u64, 1, 2, 3, 9, 0xFFFF_FFFF]);
            put_be(d, l.toi_off, l.toi_len, v);
            log.push(format!("toi={}", v));
        }
        (4 | 5 | 6, Some(l)) if !l.exts.is_empty() => {
            // contents and length of one extension
            let (off, het, len) = *rng.pick(&l.exts);
            match rng.below(5) {
                0 if het < 128 => {
                    d[off + 1] = *rng.pick(&[0u8, 1, 2, 3, 4, 5, 64, 65, 255]);
                    log.push(format!("hel{}={}", het, d[off + 1]));
                }
                1 => {
                    d[off] = *rng.pick(&[0u8, 1, 2, 3, 64, 127, 128, 192, 193, 194, 255]);
                    log.push(format!("het{}->{}", het, d[off]));
                }
                2 if het == 64 => {
                    let f = craft_fti(rng, d[3]);
                    let n = f.len().min(len);
                    d[off..off + n].copy_from_slice(&f[..n]);
                    log.push(format!("fti={}", hex(&f)));
                }
                _ => {
                    let w = *rng.pick(&[1usize, 2, 4]);
                    let i = off + rng.below(len as u64) as usize;
                    put_be(d, i, w, interesting(rng, w));
                    log.push(format!("ext{}@{}", het, i - off));
                }
            }
        }
        (7, Some(l)) => {
            // FEC payload id
            let w = *rng.pick(&[1usize, 2, 4]);
            let i = l.hdr_len + rng.below(l.pid_len as u64) as usize;
            put_be(d, i, w, interesting(rng, w));
            log.push(format!("pid@{}", i - l.hdr_len));
        }
        (8, _) => {
            let n = rng.below(d.len() as u64 + 1) as usize;
            d.truncate(n);
            log.push(format!("trunc{}", n));
        }
        (9, Some(l)) => {
            // shorten / empty / lengthen the symbol
            let p = (l.hdr_len + l.pid_len).min(d.len());
            match rng.below(4) {
                0 => d.truncate(p),
                1 => {
                    let k = rng.range(1, 3) as usize;
                    let n = d.len().saturating_sub(k).max(p);
                    d.truncate(n);
                }
                2 => {
                    let k = rng.range(1, 5) as usize;
                    d.extend(rng.bytes(k))
                }
                _ => {
                    let n = p + rng.below((d.len() - p) as u64 + 1) as usize;
                    d.truncate(n);
                }
            }
            log.push(format!("sym{}", d.len() - p.min(d.len())));
        }
        (10, _) => {
            let n = rng.range(1, 40) as usize;
            d.extend(rng.bytes(n));
            log.push(format!("extend{}", n));
        }
        (11, _) if !others.is_empty() => {
            // head of this packet, tail of another one
            let o = rng.pick(others);
            let cut_a = match rng.below(3) {
                0 => header_region(d),
                1 => layout(d).map(|l| l.hdr_len).unwrap_or(d.len()),
                _ => rng.below(d.len() as u64 + 1) as usize,
            }
            .min(d.len());
            let cut_b = match rng.below(3) {
                0 => header_region(o),
                1 => layout(o).map(|l| l.hdr_len).unwrap_or(o.len()),
                _ => rng.below(o.len() as u64 + 1) as usize,
            }
            .min(o.len());
            d.truncate(cut_a);
            d.extend_from_slice(&o[cut_b..]);
            log.push(format!("splice{}+{}", cut_a, cut_b));
        }
        (12, Some(l)) if d.len() >= l.hdr_len => {
            // insert an extension in front of the others and account for it in HDR_LEN
            let ext: Vec<u8> = match rng.below(6) {
                0 => vec![200, rng.next() as u8, rng.next() as u8, rng.next() as u8],
                1 => {
                    let words = *rng.pick(&[1u8, 2, 3, 63, 64, 65]);
                    let mut e = vec![*rng.pick(&[3u8, 10, 100]), words];
                    e.extend(rng.bytes(words as usize * 4 - 2));
                    e
                }
                2 => {
                    let cp = *rng.pick(&[0u8, 1, 2, 5, 6, 129]);
                    craft_fti(rng, cp)
                }
                3 => vec![193, rng.below(6) as u8, 0, 0],
                4 => {
                    // EXT_TIME with arbitrary use bits / length
                    let words = *rng.pick(&[1u8, 2, 3, 4, 5]);
                    let mut e = vec![2u8, words, *rng.pick(&[0u8, 0x80, 0xC0, 0xF0, 0x40, 0xFF]), 0];
                    e.extend(match rng.below(3) {
                        0 => vec![0u8; words as usize * 4 - 4],
                        1 => vec![0xFFu8; words as usize * 4 - 4],
                        _ => rng.bytes(words as usize * 4 - 4),
                    });
                    e
                }
                _ => ((192u32 << 24) | (rng.below(16) as u32) << 20 | (rng.below(8) as u32)).to_be_bytes().to_vec(),
            };
            let words = ext.len() / 4;
            if (d[2] as usize) + words <= 255 {
                let at = l.ext_off;
                let tail = d.split_off(at);
                d.extend_from_slice(&ext);
                d.extend(tail);
                d[2] += words as u8;
                log.push(format!("ins{}", hex(&ext[..ext.len().min(20)])));
            }
        }
        (13, Some(l)) => {
            // another codepoint with a matching hostile FTI in place of the packet's own extensions
            let cp = *rng.pick(&[0u8, 1, 2, 5, 6, 129]);
            let fti = craft_fti(rng, cp);
            let mut n = d[..l.ext_off].to_vec();
            n[3] = cp;
            n.extend(&fti);
            n[2] = (n.len() / 4) as u8;
            let p = (l.hdr_len).min(d.len());
            n.extend_from_slice(&d[p..]);
            log.push(format!("cp{}:fti{}", cp, hex(&fti)));
            *d = n;
        }
        _ => {
            // a few random header bytes at once
            let h = header_region(d);
            for _ in 0..rng.range(2, 4) {
                if h > 0 && !d.is_empty() {
                    let i = rng.below(h as u64) as usize % d.len();
                    d[i] = rng.next() as u8;
                }
            }
            log.push("rnd".to_string());
        }
    }
}

/// the mutated session: returns the datagrams and, per datagram, whether it is an unmutated genuine packet
fn mutate_session(seed: u64, nmut: u64, genuine: &[Vec<u8>], log: &mut Vec<String>) -> (Vec<Vec<u8>>, Vec<bool>) {
    let mut rng = Rng::new(seed);
    let mut seq: Vec<Vec<u8>> = genuine.to_vec();
    let mut same: Vec<bool> = vec![true; seq.len()];
    // session-level: FDT rewriting
    if rng.chance(1, 3) {
        let before = seq.clone();
        seq = rewrite_fdt(&mut rng, &seq, log);
        same = seq.iter().map(|d| before.contains(d)).collect();
    }
    for _ in 0..nmut {
        match rng.below(16) {
            0 => {
                let mut extra = Vec::new();
                craft_object(&mut rng, &mut extra, log);
                let at = rng.below(seq.len() as u64 + 1) as usize;
                for (k, d) in extra.into_iter().enumerate() {
                    seq.insert(at + k, d);
                    same.insert(at + k, false);
                }
            }
            1 if !seq.is_empty() => {
                // duplicate a packet (mutated copy in front of the original)
                let i = rng.below(seq.len() as u64) as usize;
                let mut d = seq[i].clone();
                mutate_packet(&mut rng, &mut d, genuine, log);
                seq.insert(i, d);
                same.insert(i, false);
            }
            2 if seq.len() > 1 => {
                let i = rng.below(seq.len() as u64) as usize;
                let j = rng.below(seq.len() as u64) as usize;
                seq.swap(i, j);
                same.swap(i, j);
                log.push(format!("swap{}:{}", i, j));
            }
            3 if !seq.is_empty() => {
                let i = rng.below(seq.len() as u64) as usize;
                seq.remove(i);
                same.remove(i);
                log.push(format!("drop{}", i));
            }
            _ if !seq.is_empty() => {
                let i = rng.below(seq.len() as u64) as usize;
                let before = seq[i].clone();
                mutate_packet(&mut rng, &mut seq[i], genuine, log);
                if seq[i] != before {
                    same[i] = false;
                }
            }
            _ => {}
        }
    }
    (seq, same)
}

// ---------------------------------------------------------------- evaluation of one input line
fn expand(input: &str) -> Option<(Vec<Vec<u8>>, Vec<bool>, Vec<String>)> {
    let secs = sections(input);
    let head = secs.first()?;
    let mut log = Vec::new();
    match head[0] {
        "G" => {
            let v: Vec<Vec<u8>> = head[1..].iter().map(|h| unhex(h)).collect();
            let n = v.len();
            Some((v, vec![false; n], log))
        }
        "B" => {
            let n: usize = head.get(1)?.parse().ok()?;
            let prefix = unhex(head.get(2).copied().unwrap_or("-"));
            if n == 0 {
                return Some((vec![Vec::new()], vec![false], log));
            }
            if prefix.len() + 1 != n {
                return None;
            }
            let v: Vec<Vec<u8>> = (0..=255u8)
                .map(|b| {
                    let mut d = prefix.clone();
                    d.push(b);
                    d
                })
                .collect();
            Some((v, vec![false; 256], log))
        }
        "Y" => {
            let g = session_of(&secs)?;
            let p: usize = head.get(1)?.parse().ok()?;
            let off: usize = head.get(2)?.parse().ok()?;
            let val: u8 = head.get(3)?.parse().ok()?;
            if p >= g.len() || off >= g[p].len() {
                return None;
            }
            let mut v: Vec<Vec<u8>> = g.as_ref().clone();
            let mut same = vec![true; v.len()];
            if v[p][off] != val {
                v[p][off] = val;
                same[p] = false;
            }
            Some((v, same, log))
        }
        "S" => {
            // symbol-size sweep: the symbols of one object packet (index) or of every object packet
            // (`all`) truncated or zero-extended to <len> bytes
            let g = session_of(&secs)?;
            let which = *head.get(1)?;
            let len: usize = head.get(2)?.parse().ok()?;
            let mut v: Vec<Vec<u8>> = g.as_ref().clone();
            let mut same = vec![true; v.len()];
            for (k, d) in v.iter_mut().enumerate() {
                if which != "all" && which.parse::<usize>().ok() != Some(k) {
                    continue;
                }
                let off = match catch(|| flute::core::alc::parse_alc_pkt(d)) {
                    Some(Ok(p)) if p.lct.toi != 0 => p.data_payload_offset,
                    _ => continue,
                };
                if d.len() - off != len {
                    d.resize(off + len, 0);
                    same[k] = false;
                }
            }
            Some((v, same, log))
        }
        "W" => {
            // the follow-up's own FDT packet with its last <n> bytes overwritten (the XML no longer parses:
            // Receiver::push answers Err), <k> copies; the follow-up is pushed without a cleanup() in between
            let n: usize = head.get(1)?.parse().ok()?;
            let k: usize = head.get(2)?.parse().ok()?;
            let mut d = FOLLOWUP.with(|f| f.pkts.iter().find(|p| p.len() > 3 && matches!(catch(|| flute::core::alc::parse_alc_pkt(p)), Some(Ok(ref q)) if q.lct.toi == 0)).cloned())?;
            let len = d.len();
            for b in d[len - n.min(len)..].iter_mut() {
                *b = b'<';
            }
            Some((vec![d; k.max(1)], vec![false; k.max(1)], log))
        }
        "U" => {
            // the follow-up's FDT packet (valid), then its <j>-th object packet with the SBN of its FEC payload id
            // raised by <bump>: no such block, Receiver::push answers Err and the object is marked failed
            let j: usize = head.get(1)?.parse().ok()?;
            let bump: u8 = head.get(2)?.parse().ok()?;
            let (fdt, objp) = FOLLOWUP.with(|f| {
                let fdt = f.pkts.iter().find(|p| matches!(catch(|| flute::core::alc::parse_alc_pkt(p)), Some(Ok(ref q)) if q.lct.toi == 0)).cloned();
                let objs: Vec<Vec<u8>> = f.pkts.iter().filter(|p| matches!(catch(|| flute::core::alc::parse_alc_pkt(p)), Some(Ok(ref q)) if q.lct.toi != 0)).cloned().collect();
                (fdt, objs.get(j % objs.len().max(1)).cloned())
            });
            let fdt = fdt?;
            let mut d = objp?;
            let off = flute::core::alc::parse_alc_pkt(&d).ok()?.data_alc_header_offset;
            // first two bytes of every payload id used here: the source block number (No-Code, RS28: 16 / 24 bits)
            d[off + 1] = d[off + 1].wrapping_add(bump);
            Some((vec![fdt, d], vec![false, false], log))
        }
        "X" => {
            // codec cross-over: after every object packet, a copy of it whose Codepoint is replaced by <cp>
            // and which is cut <keep> bytes after the LCT header (the object's OTI is known by then, so the
            // payload id is read with the OBJECT's scheme, not with the packet's)
            let g = session_of(&secs)?;
            let cp: u8 = head.get(1)?.parse().ok()?;
            let keep: usize = head.get(2)?.parse().ok()?;
            let mut v: Vec<Vec<u8>> = Vec::new();
            let mut same: Vec<bool> = Vec::new();
            for d in g.iter() {
                v.push(d.clone());
                same.push(true);
                if let Some(l) = layout(d) {
                    let is_obj = matches!(catch(|| flute::core::alc::parse_alc_pkt(d)), Some(Ok(ref p)) if p.lct.toi != 0);
                    if is_obj && d.len() >= l.hdr_len {
                        let mut x = d[..(l.hdr_len + keep).min(d.len())].to_vec();
                        x[3] = cp;
                        v.push(x);
                        same.push(false);
                    }
                }
            }
            Some((v, same, log))
        }
        "Z" => {
            let g = session_of(&secs)?;
            let seed: u64 = head.get(1)?.parse().ok()?;
            let nmut: u64 = head.get(2)?.parse().ok()?;
            let (v, same) = mutate_session(seed, nmut, &g, &mut log);
            Some((v, same, log))
        }
        _ => None,
    }
}

fn eval_y_all(secs: &[Vec<&str>]) -> String {
    let head = &secs[0];
    let g = match session_of(secs) {
        Some(g) => g,
        None => return "NOSESSION".into(),
    };
    let p: usize = head.get(1).and_then(|x| x.parse().ok()).unwrap_or(usize::MAX);
    let off: usize = head.get(2).and_then(|x| x.parse().ok()).unwrap_or(usize::MAX);
    if p >= g.len() || off >= g[p].len() {
        return "BAD".into();
    }
    let (mut a, mut s, mut i, mut v) = (String::new(), String::new(), String::new(), String::new());
    let (mut rh, mut rt, mut mh, mut mt) = (0isize, 0u128, 0isize, 0u128);
    let mut seq: Vec<Vec<u8>> = g.as_ref().clone();
    for val in 0..=255u8 {
        seq[p][off] = val;
        let (x, y, z, touched) = parse_obs(&seq[p]);
        a.push(x);
        s.push(y);
        i.push(z);
        let refs: Vec<&[u8]> = seq.iter().map(|d| d.as_slice()).collect();
        let r = run_target(false, &refs);
        let m = run_target(true, &refs);
        rh = rh.max(r.heap);
        mh = mh.max(m.heap);
        rt = rt.max(r.max_us);
        mt = mt.max(m.max_us);
        v.push(if r.panicked() || m.panicked() || x == 'P' || y == 'P' || z == 'P' {
            'P'
        } else if touched {
            't'
        } else if !(r.delivered && m.delivered) {
            'F'
        } else {
            'o'
        });
    }
    format!(
        "prof={} n={} base={} orig={} A={} S={} I={} V={} Rh={} Rt={} Mh={} Mt={} W={}",
        profile(),
        g.len(),
        hex(&g[p]),
        g[p][off],
        a,
        s,
        i,
        v,
        rh,
        rt,
        mh,
        mt,
        take_sites()
    )
}

pub fn eval(input: &str) -> String {
    let _ = take_sites();
    // `expand <line>`: only the datagram list (for the parent's minimiser)
    if let Some(rest) = input.strip_prefix("expand ") {
        return match catch(|| expand(rest)) {
            Some(Some((v, _, _))) => v.iter().map(|d| hex(d)).collect::<Vec<_>>().join(" "),
            _ => "BAD".into(),
        };
    }
    let secs = sections(input);
    if secs.is_empty() {
        return "BAD".into();
    }
    if secs[0][0] == "Y" && secs[0].get(3).copied() == Some("*") {
        return eval_y_all(&secs);
    }
    NO_CLEANUP.with(|c| c.set(secs[0][0] == "W" || secs[0][0] == "U"));
    MAX_ERR.with(|c| c.set(if secs[0][0] == "U" { 8 } else { 0 }));
    let (seq, same, log) = match catch(|| expand(input)) {
        Some(Some(x)) => x,
        Some(None) => return if ["Y", "Z", "S", "X", "U"].contains(&secs[0][0]) { "NOSESSION".into() } else { "BAD".into() },
        None => return "GENPANIC".into(),
    };
    let refs: Vec<&[u8]> = seq.iter().map(|d| d.as_slice()).collect();
    let mut out = run_sequence(&refs);
    if ["Y", "Z", "S", "X", "W", "U"].contains(&secs[0][0]) {
        let ds: Vec<String> = seq.iter().zip(same.iter()).map(|(d, s)| if *s { "=".to_string() } else { hex(d) }).collect();
        out.push_str(&format!(" D={}", if ds.is_empty() { "-".to_string() } else { ds.join(",") }));
        if !log.is_empty() {
            out.push_str(&format!(" m={}", log.join(",").replace(' ', "_")));
        }
    }
    out
}

// ---------------------------------------------------------------- generators
const QUICK_CORPUS: [&str; 8] = [
    "V fec=nocode e=8 b=2 par=0 cenc=null fti=1 icenc=0 mode=full il=1 tc=1 ; O 20 1 0 1",
    "V fec=nocode e=8 b=2 par=0 cenc=gzip fti=0 icenc=0 mode=full il=1 tc=1 ; O 30 2 0 1",
    "V fec=rs28 e=8 b=2 par=1 cenc=null fti=1 icenc=0 mode=full il=1 tc=1 ; O 20 3 0 1",
    "V fec=rs28us e=8 b=2 par=1 cenc=null fti=1 icenc=1 mode=bt il=1 tc=1 ; O 20 4 0 0",
    "V fec=raptorq e=8 b=3 par=1 cenc=null fti=1 icenc=0 mode=full il=1 tc=1 ; O 30 5 0 1",
    "V fec=raptorq e=8 b=3 par=1 cenc=null fti=0 icenc=0 mode=full il=1 tc=1 ; O 30 6 0 1",
    "V fec=raptor e=8 b=4 par=1 cenc=null fti=1 icenc=0 mode=full il=1 tc=1 ; O 40 7 0 1",
    "V fec=rs28 e=8 b=2 par=1 cenc=zlib fti=0 icenc=0 mode=full il=2 tc=1 ; O 24 8 0 1 ; O 5 9 0 0",
];

fn thorough_corpus() -> Vec<String> {
    let mut v: Vec<String> = QUICK_CORPUS.iter().map(|s| s.to_string()).collect();
    let mut k = 20;
    for fec in ["nocode", "rs28", "rs28us", "raptorq", "raptor"] {
        for fti in [0, 1] {
            for (mode, cenc, icenc) in [("full", "null", 0), ("bt", "null", 0), ("full", "deflate", 1), ("bt", "gzip", 0)] {
                let (b, par) = match fec {
                    "nocode" => (2, 0),
                    "raptor" => (4, 1),
                    _ => (3, 1),
                };
                let len = if fec == "raptor" { 8 * b * 2 } else { 8 * b + 5 };
                v.push(format!(
                    "V fec={} e=8 b={} par={} cenc={} fti={} icenc={} mode={} il={} tc=1 ; O {} {} 0 {}",
                    fec,
                    b,
                    par,
                    cenc,
                    fti,
                    icenc,
                    mode,
                    1 + k % 2,
                    len,
                    k,
                    k % 2
                ));
                k += 1;
            }
        }
    }
    v
}

fn gen(args: &Args, emit: &mut dyn FnMut(String)) {
    let thorough = args.tier == "thorough";
    let (sh, nsh) = args.shard;
    let mut idx: u64 = 0;
    let mut mine = |idx: &mut u64| {
        let m = *idx % nsh == sh;
        *idx += 1;
        m
    };
    // 1. every byte string of length <= 2 (quick) / <= 3 (thorough)
    if mine(&mut idx) {
        emit("B 0 -".to_string());
    }
    if mine(&mut idx) {
        emit("B 1 -".to_string());
    }
    for a in 0..=255u8 {
        if mine(&mut idx) {
            emit(format!("B 2 {:02x}", a));
        }
    }
    // length 3: all of them (thorough); quick keeps the slice with an acceptable version nibble
    for a in 0..=255u8 {
        if !thorough && a != 0x10 && a != 0x20 {
            continue;
        }
        for b in 0..=255u8 {
            if mine(&mut idx) {
                emit(format!("B 3 {:02x}{:02x}", a, b));
            }
        }
    }
    // 2. every single-byte substitution in the header region of every packet of the corpus
    let corpus: Vec<String> = if thorough { thorough_corpus() } else { QUICK_CORPUS.iter().map(|s| s.to_string()).collect() };
    for spec in &corpus {
        let secs = sections(spec);
        let g = match session_of(&secs) {
            Some(g) => g,
            None => continue,
        };
        for (p, d) in g.iter().enumerate() {
            for off in 0..header_region(d) {
                if mine(&mut idx) {
                    emit(format!("Y {} {} * ; {}", p, off, spec));
                }
            }
        }
    }
    // 2b. symbol-size sweep over the same corpus: every object packet, and all of them at once,
    //     with a symbol of 0, 1, E-1, E+1 and 2E bytes
    for spec in &corpus {
        let secs = sections(spec);
        let g = match session_of(&secs) {
            Some(g) => g,
            None => continue,
        };
        let e: usize = secs
            .iter()
            .find(|s| s[0] == "V")
            .and_then(|v| v.iter().find_map(|t| t.strip_prefix("e=")))
            .and_then(|x| x.parse().ok())
            .unwrap_or(8);
        let mut targets: Vec<String> = vec!["all".to_string()];
        for (p, d) in g.iter().enumerate() {
            if let Some(Ok(pk)) = catch(|| flute::core::alc::parse_alc_pkt(d)) {
                if pk.lct.toi != 0 {
                    targets.push(p.to_string());
                }
            }
        }
        for t in &targets {
            for len in [0, 1, e.saturating_sub(1), e + 1, 2 * e] {
                if mine(&mut idx) {
                    emit(format!("S {} {} ; {}", t, len, spec));
                }
            }
        }
    }
    // 2c. codec cross-over: Codepoint of another scheme on a packet cut 0..9 bytes after its header
    for spec in &corpus {
        for cp in [0u8, 1, 2, 5, 6, 129] {
            for keep in [0usize, 1, 3, 4, 5, 7, 8, 9] {
                if mine(&mut idx) {
                    emit(format!("X {} {} ; {}", cp, keep, spec));
                }
            }
        }
    }
    // 2d. a damaged copy of the follow-up's own FDT instance, no cleanup before the follow-up (D41)
    for n in [1usize, 8, 30, 100] {
        for k in [1usize, 3] {
            if mine(&mut idx) {
                emit(format!("W {} {}", n, k));
            }
        }
    }
    // 2e. a follow-up object put in error by a packet of its own with an impossible block number, receivers
    //     that remember failed objects: the follow-up (which restarts the object with its first symbol) is delivered
    for j in 0..8usize {
        for bump in [5u8, 100] {
            if mine(&mut idx) {
                emit(format!("U {} {}", j, bump));
            }
        }
    }
    // 3. seeded field-aware mutation sequences of whole sessions
    let mut rng = Rng::new(args.seed.wrapping_mul(6151).wrapping_add(sh * 131 + 7));
    let count = if thorough { 64000 } else { 3200 } / nsh;
    let fecs = ["nocode", "rs28", "rs28us", "raptorq", "raptor", "raptorq", "raptor"];
    let mut i = 0;
    let mut tries = 0;
    while i < count {
        let fec = *rng.pick(&fecs);
        let e = *rng.pick(&[4u32, 8, 16]);
        let b = if fec == "raptor" { *rng.pick(&[4u32, 5, 6]) } else { *rng.pick(&[1u32, 2, 3, 4]) };
        let par = if fec == "nocode" { 0 } else { rng.range(1, 2) };
        let cenc = if rng.chance(1, 5) { *rng.pick(&["zlib", "deflate", "gzip"]) } else { "null" };
        let nobj = rng.range(1, 2);
        let mut osecs = Vec::new();
        for k in 0..nobj {
            let len = match rng.below(8) {
                0 => 0,
                1 => 1,
                2 => e as u64,
                _ => rng.range(1, (e * b) as u64 * 3 + 2),
            };
            osecs.push(format!("O {} {} 0 {}", len, k + i % 17, rng.below(2)));
        }
        let seed = rng.below(1 << 40);
        let nmut = rng.range(1, 6);
        let line = format!(
            "Z {} {} ; V fec={} e={} b={} par={} cenc={} fti={} icenc={} mode={} il={} tc={} ; {}",
            seed,
            nmut,
            fec,
            e,
            b,
            par,
            cenc,
            rng.below(2),
            rng.below(2),
            if rng.chance(1, 2) { "full" } else { "bt" },
            rng.range(1, 2),
            rng.range(1, 2),
            osecs.join(" ; ")
        );
        // the sender refuses some parameter sets (Raptor blocks of 2 or 3 symbols): draw again
        if tries < 8 && session_of(&sections(&line)).is_none() {
            tries += 1;
            continue;
        }
        tries = 0;
        i += 1;
        emit(line);
    }
}

// ---------------------------------------------------------------- parent side: failures made concrete
fn failed(out: &str) -> bool {
    if out == "HANG" || out == "CRASH" {
        return true;
    }
    let mut touched = false;
    let mut lost = false;
    for t in out.split_whitespace() {
        if let Some((k, v)) = t.split_once('=') {
            match k {
                "A" | "S" | "I" | "R" | "M" | "Rx" | "Mx" | "Rf" | "Mf" | "V" => {
                    if v.contains('P') || (k == "V" && v.contains('F')) {
                        return true;
                    }
                }
                "touched" => touched = v == "1",
                "Rd" | "Md" => lost |= v == "0",
                _ => {}
            }
        }
    }
    lost && !touched
}

/// shrink a failing datagram sequence (one-at-a-time removal, then halves) and report it as a G line
fn minimise(pool: &mut WorkerPool, input: &str, budget: usize) -> Option<(String, String)> {
    let ex = pool.eval(&format!("expand {}", input));
    if ex == "BAD" || ex == "HANG" || ex == "CRASH" || ex.is_empty() {
        return None;
    }
    let mut seq: Vec<String> = ex.split_whitespace().map(|s| s.to_string()).collect();
    let mut spent = 0;
    let mut test = |pool: &mut WorkerPool, s: &[String], spent: &mut usize| -> Option<String> {
        *spent += 1;
        let line = format!("G {}", s.join(" "));
        let out = pool.eval(&line);
        if failed(&out) {
            Some(out)
        } else {
            None
        }
    };
    let mut best = test(pool, &seq, &mut spent)?;
    // halves first, then single removals
    let mut chunk = seq.len() / 2;
    while chunk >= 1 && spent < budget {
        let mut i = 0;
        while i < seq.len() && spent < budget {
            if seq.len() <= 1 {
                break;
            }
            let mut cand = seq.clone();
            let end = (i + chunk).min(cand.len());
            cand.drain(i..end);
            if cand.is_empty() {
                i += chunk;
                continue;
            }
            if let Some(o) = test(pool, &cand, &mut spent) {
                seq = cand;
                best = o;
            } else {
                i += chunk;
            }
        }
        chunk /= 2;
    }
    Some((format!("G {}", seq.join(" ")), best))
}

fn is_batch(input: &str) -> bool {
    input.starts_with("B ") || (input.starts_with("Y ") && input.contains(" * ;"))
}

fn handle(input: String, tr: &mut Trace, pool: &mut WorkerPool, batch_pool: &mut WorkerPool, shrunk: &mut usize, dead: &mut usize) {
    if *dead >= MAX_DEAD_CASES {
        return;
    }
    let out = if is_batch(&input) { batch_pool.eval(&input) } else { pool.eval(&input) };
    let bad = failed(&out);
    tr.line(&format!("{} | {}", input, out));
    if !bad {
        return;
    }
    let is_dead = out == "HANG" || out == "CRASH";
    if is_dead && !is_batch(&input) {
        *dead += 1;
    }
    let kind = input.split_whitespace().next().unwrap_or("");
    if kind == "Y" && input.contains(" * ;") {
        // name up to three failing values as cases of their own (HANG / CRASH: every value on its own)
        let toks: Vec<&str> = input.split_whitespace().collect();
        let vals: Vec<usize> = match out.split_whitespace().find_map(|t| t.strip_prefix("V=")) {
            Some(v) => v.char_indices().filter(|(_, c)| *c == 'P' || *c == 'F').map(|(i, _)| i).take(3).collect(),
            None => (0..256).collect(),
        };
        let mut found = 0;
        for val in vals {
            let line = input.replacen(&format!("{} {} *", toks[1], toks[2]), &format!("{} {} {}", toks[1], toks[2], val), 1);
            let o = pool.eval(&line);
            if failed(&o) {
                if o == "HANG" || o == "CRASH" {
                    *dead += 1;
                }
                tr.line(&format!("{} | {}", line, o));
                found += 1;
                if found >= 2 || *dead >= MAX_DEAD_CASES {
                    break;
                }
            }
        }
    } else if kind != "G" && *shrunk < 12 {
        *shrunk += 1;
        // a hanging candidate costs a whole watchdog period
        let budget = if out == "HANG" { 8 } else { 120 };
        if let Some((line, o)) = minimise(pool, &input, budget) {
            tr.line(&format!("{} | {}", line, o));
        }
    }
}

pub fn run(args: &Args) {
    if args.worker {
        record_panics();
        worker_loop(eval, MEM_MB);
        return;
    }
    let mut tr = Trace::new(args.out.as_deref());
    let mut pool = WorkerPool::new("fuzzrecv", WATCHDOG_S);
    // a batch line runs 256 receivers pairs: its watchdog is that of 256 cases, and a batch that
    // does not answer is re-run case by case
    let mut batch_pool = WorkerPool::new("fuzzrecv", WATCHDOG_BATCH_S);
    let mut shrunk = 0usize;
    let mut dead = 0usize;
    if let Some(rp) = &args.replay {
        for line in std::fs::read_to_string(rp).unwrap().lines() {
            let input = line.split('|').next().unwrap().trim();
            if input.is_empty() || input.starts_with('#') {
                continue;
            }
            let out = if is_batch(input) { batch_pool.eval(input) } else { pool.eval(input) };
            tr.line(&format!("{} | {}", input, out));
            // `--minimise`: also report the shrunk explicit sequence of a failing case
            if args.rest.iter().any(|a| a == "--minimise") && failed(&out) && !input.starts_with("G ") {
                if let Some((line, o)) = minimise(&mut pool, input, 400) {
                    tr.line(&format!("{} | {}", line, o));
                }
            }
        }
    } else {
        gen(args, &mut |input: String| handle(input, &mut tr, &mut pool, &mut batch_pool, &mut shrunk, &mut dead));
    }
    tr.finish();
}
