//! C08 / C20: BlockEncoder driven directly through the hooks.
//!   E <fec> <e> <b> <parity> <window> <closable> <src> <content-hex> <forces> <reads>
//!     fec: nocode|rs28|rs28us|raptorq|raptor   src: buf|stream   forces: string of 0/1 or '-'
//!     reads: comma separated hex read sizes of the stream (0 = EOF-like short read not used) or '-'
//!   output: <profile> P:sbn:esi:close:k:hexpayload ... NONE|PANIC
//!   Y <fec> <e> <b> <parity> <window> <cenc> <start-hex> <content-hex> <reads>
//!     C20 under a content encoding (zlib|deflate|gzip): the same object from a buffer and from a stream
//!     (handed over at position <start>, read in the given sizes)
//!   output: <profile> <run of the buffer> // <run of the stream>
use crate::util::*;
use flute::core::Oti;
use flute::sender::{ObjectDesc, TransferConfig};
use flute::verif_hooks::sender::{blockencoder::BlockEncoder, filedesc::FileDesc, toiallocator::ToiAllocator};
use std::sync::Arc;

#[derive(Debug)]
pub struct ChunkStream {
    pub data: Vec<u8>,
    pub pos: usize,
    pub sched: Vec<usize>,
    pub i: usize,
    pub armed: bool,
}
impl std::io::Read for ChunkStream {
    fn read(&mut self, buf: &mut [u8]) -> std::io::Result<usize> {
        let remaining = self.data.len() - self.pos.min(self.data.len());
        let mut n = buf.len().min(remaining);
        if self.armed {
            if self.i < self.sched.len() {
                n = n.min(self.sched[self.i]);
            }
            self.i += 1;
        }
        buf[..n].copy_from_slice(&self.data[self.pos..self.pos + n]);
        self.pos += n;
        Ok(n)
    }
}
impl std::io::Seek for ChunkStream {
    fn seek(&mut self, p: std::io::SeekFrom) -> std::io::Result<u64> {
        let np: i64 = match p {
            std::io::SeekFrom::Start(x) => x as i64,
            std::io::SeekFrom::End(x) => self.data.len() as i64 + x,
            std::io::SeekFrom::Current(x) => self.pos as i64 + x,
        };
        self.pos = np.max(0) as usize;
        Ok(self.pos as u64)
    }
}

pub fn make_oti(fec: &str, e: u16, b: u32, parity: u32) -> Option<Oti> {
    Some(match fec {
        "nocode" => {
            // the constructor takes a u16; the field itself is a public u32 (D39: blocks of more
            // than 65536 symbols cannot be numbered by the 16-bit ESI)
            let mut o = Oti::new_no_code(e, b.min(65535) as u16);
            o.maximum_source_block_length = b;
            o
        }
        "rs28" => Oti::new_reed_solomon_rs28(e, b as u8, parity as u8).ok()?,
        "rs28us" => Oti::new_reed_solomon_rs28_under_specified(e, b as u16, parity as u16).ok()?,
        "raptorq" => Oti::new_raptorq(e, b as u16, parity as u16, 1, 1).ok()?,
        "raptor" => Oti::new_raptor(e, b as u16, parity as u16, 1, 1).ok()?,
        _ => return None,
    })
}

pub fn profile() -> &'static str {
    if cfg!(debug_assertions) {
        "dev"
    } else {
        "rel"
    }
}

/// one object through FileDesc::new + BlockEncoder, content-encoded; stream = Some((start, read sizes))
fn run_cenc(oti: &Oti, window: usize, cenc: flute::core::lct::Cenc, content: &[u8], stream: Option<(usize, Vec<usize>)>) -> Vec<String> {
    let res = catch(|| {
        let mut pk: Vec<String> = Vec::new();
        let alloc = ToiAllocator::new(flute::sender::TOIMaxLength::ToiMax32, Some(1));
        let mut tc = TransferConfig::default();
        tc.toi = Some(ToiAllocator::allocate(&alloc));
        tc.cenc = cenc;
        let url = url::Url::parse("file:///o").unwrap();
        let mut handle: Option<*mut ChunkStream> = None;
        let obj = match &stream {
            None => ObjectDesc::create_from_buffer(content.to_vec(), "a/b", &url, true, tc),
            Some((start, reads)) => {
                let cs = Box::new(ChunkStream { data: content.to_vec(), pos: (*start).min(content.len()), sched: reads.clone(), i: 0, armed: true });
                handle = Some(Box::as_ref(&cs) as *const ChunkStream as *mut ChunkStream);
                ObjectDesc::create_from_stream(cs, "a/b", &url, true, tc)
            }
        };
        let _ = handle;
        let obj = match obj {
            Ok(o) => o,
            Err(_) => {
                pk.push("OBJERR".into());
                return pk;
            }
        };
        pk.push(format!("L:{:x}:{:x}:{}", obj.content_length, obj.transfer_length, obj.md5.clone().unwrap_or_default()));
        let fd = match FileDesc::new(0, obj, oti, None, false) {
            Ok(f) => Arc::new(f),
            Err(_) => {
                pk.push("REFUSED".into());
                return pk;
            }
        };
        let mut enc = match BlockEncoder::new(fd, window, true) {
            Ok(e) => e,
            Err(_) => {
                pk.push("ENCERR".into());
                return pk;
            }
        };
        let mut i = 0usize;
        loop {
            i += 1;
            if i > 200_000 {
                pk.push("HANG".into());
                return pk;
            }
            match enc.read(false) {
                None => {
                    pk.push("NONE".into());
                    return pk;
                }
                Some(p) => pk.push(format!("P:{:x}:{:x}:{}:{:x}:{}", p.sbn, p.esi, if p.close_object { 1 } else { 0 }, p.source_block_length, hex(&p.payload))),
            }
        }
    });
    res.unwrap_or_else(|| vec!["PANIC".into()])
}

fn eval_y(t: &[&str]) -> String {
    if t.len() < 10 {
        return "BAD".into();
    }
    let e = u16::from_str_radix(t[2], 16).unwrap();
    let b = u32::from_str_radix(t[3], 16).unwrap();
    let parity = u32::from_str_radix(t[4], 16).unwrap();
    let window = usize::from_str_radix(t[5], 16).unwrap();
    let cenc = match t[6] {
        "zlib" => flute::core::lct::Cenc::Zlib,
        "deflate" => flute::core::lct::Cenc::Deflate,
        _ => flute::core::lct::Cenc::Gzip,
    };
    let start = usize::from_str_radix(t[7], 16).unwrap();
    let content = unhex(t[8]);
    let reads: Vec<usize> = if t[9] == "-" { vec![] } else { t[9].split(',').map(|x| usize::from_str_radix(x, 16).unwrap()).collect() };
    let oti = match make_oti(t[1], e, b, parity) {
        Some(o) => o,
        None => return format!("{} BADOTI", profile()),
    };
    let a = run_cenc(&oti, window, cenc, &content, None);
    let s = run_cenc(&oti, window, cenc, &content, Some((start, reads)));
    format!("{} {} // {}", profile(), a.join(" "), s.join(" "))
}

pub fn eval(input: &str) -> String {
    let t: Vec<&str> = input.split_whitespace().collect();
    if t[0] == "Y" {
        return eval_y(&t);
    }
    if t[0] != "E" || t.len() < 11 {
        return "BAD".into();
    }
    let e = u16::from_str_radix(t[2], 16).unwrap();
    let b = u32::from_str_radix(t[3], 16).unwrap();
    let parity = u32::from_str_radix(t[4], 16).unwrap();
    let window = usize::from_str_radix(t[5], 16).unwrap();
    let closable = t[6] == "1";
    let content = unhex(t[8]);
    let forces: Vec<bool> = if t[9] == "-" { vec![] } else { t[9].chars().map(|c| c == '1').collect() };
    let reads: Vec<usize> = if t[10] == "-" {
        vec![]
    } else {
        t[10].split(',').map(|x| usize::from_str_radix(x, 16).unwrap()).collect()
    };
    let oti = match make_oti(t[1], e, b, parity) {
        Some(o) => o,
        None => return format!("{} BADOTI", profile()),
    };
    let mut out = vec![profile().to_string()];
    let res = catch(|| {
        let mut pk: Vec<String> = Vec::new();
        let alloc = ToiAllocator::new(flute::sender::TOIMaxLength::ToiMax32, Some(1));
        let mut tc = TransferConfig::default();
        tc.toi = Some(ToiAllocator::allocate(&alloc));
        let url = url::Url::parse("file:///o").unwrap();
        let stream_handle: Option<*mut ChunkStream>;
        let obj: Box<ObjectDesc> = if t[7] == "buf" {
            stream_handle = None;
            ObjectDesc::create_from_buffer(content.clone(), "a/b", &url, false, tc).unwrap()
        } else {
            // "stream@<hex>": the stream is handed over at that position, not at its start (a caller that
            // sniffed a header, a cursor just filled): the object is still the whole stream
            let start = t[7].split('@').nth(1).and_then(|x| usize::from_str_radix(x, 16).ok()).unwrap_or(0).min(content.len());
            let cs = Box::new(ChunkStream { data: content.clone(), pos: start, sched: reads.clone(), i: 0, armed: false });
            stream_handle = Some(Box::as_ref(&cs) as *const ChunkStream as *mut ChunkStream);
            ObjectDesc::create_from_stream(cs, "a/b", &url, false, tc).unwrap()
        };
        let fd = match FileDesc::new(0, obj, &oti, None, false) {
            Ok(f) => Arc::new(f),
            Err(_) => {
                pk.push("REFUSED".into());
                return (pk, "NONE");
            }
        };
        // the OTI the object is sent with (FileDesc::new fills in the scheme-specific part)
        let wire_oti = fd.oti.clone();
        if let Some(h) = stream_handle {
            // arm the read schedule only now: the reads before (length probe) are not part of it
            unsafe { (*h).armed = true };
        }
        let mut enc = match BlockEncoder::new(fd, window, closable) {
            Ok(e) => e,
            Err(_) => {
                pk.push("ENCERR".into());
                return (pk, "NONE");
            }
        };
        let mut i = 0usize;
        loop {
            let force = if i < forces.len() { forces[i] } else { false };
            i += 1;
            if i > 200_000 {
                return (pk, "HANG");
            }
            match enc.read(force) {
                None => return (pk, "NONE"),
                Some(p) => {
                    // the FEC payload id as it goes on the wire (new_alc_pkt) and comes back (parse_payload_id):
                    // a symbol number that does not fit its field would be sent under another symbol's number
                    let wire = flute::verif_hooks::alc::new_alc_pkt(&wire_oti, &0u128, 1, &p, flute::sender::Profile::RFC6726, std::time::UNIX_EPOCH);
                    match flute::core::alc::parse_alc_pkt(&wire).and_then(|w| flute::core::alc::parse_payload_id(&w, &wire_oti)) {
                        Ok(pid) => {
                            if pid.sbn != p.sbn || pid.esi != p.esi {
                                pk.push(format!("WIRE:{:x}:{:x}:{:x}:{:x}", p.sbn, p.esi, pid.sbn, pid.esi));
                            }
                        }
                        Err(_) => pk.push(format!("WIRE:{:x}:{:x}:unparsable", p.sbn, p.esi)),
                    }
                    pk.push(format!(
                    "P:{:x}:{:x}:{}:{:x}:{}",
                    p.sbn,
                    p.esi,
                    if p.close_object { 1 } else { 0 },
                    p.source_block_length,
                    hex(&p.payload)
                    ));
                }
            }
        }
    });
    match res {
        Some((pk, end)) => {
            out.extend(pk);
            out.push(end.into());
        }
        None => out.push("PANIC".into()),
    }
    out.join(" ")
}

fn content(rng: &mut Rng, l: usize) -> Vec<u8> {
    let base = rng.below(200) as usize;
    (0..l).map(|i| ((i + base) * 7 + 1) as u8).collect()
}

fn gen(args: &Args, emit: &mut dyn FnMut(String), streams: bool) {
    let thorough = args.tier == "thorough";
    let mut rng = Rng::new(args.seed.wrapping_add(if streams { 77 } else { 0 }));
    let fecs = ["nocode", "rs28", "rs28us", "raptorq", "raptor"];
    // small exhaustive-ish grid
    let es: &[u16] = if thorough { &[1, 2, 3, 4, 8] } else { &[1, 3, 4] };
    let bs: &[u32] = if thorough { &[1, 2, 3, 4, 5] } else { &[1, 2, 3] };
    let wins: &[usize] = if thorough { &[1, 2, 3, 4] } else { &[1, 2, 3] };
    let mut n = 0u64;
    for fec in fecs.iter() {
        for &e in es {
            for &b in bs {
                let maxl = (e as usize) * (b as usize) * 3 + 2;
                for l in 0..=maxl.min(if thorough { 40 } else { 26 }) {
                    for &w in wins {
                        for parity in 0..=2u32 {
                            if *fec == "nocode" && parity > 0 {
                                continue;
                            }
                            for closable in [0, 1] {
                                n += 1;
                                if n % args.shard.1 != args.shard.0 {
                                    continue;
                                }
                                let c = content(&mut rng, l);
                                if !streams {
                                    emit(format!("E {} {:x} {:x} {:x} {:x} {} buf {} - -", fec, e, b, parity, w, closable, hex(&c)));
                                    // one forced stop somewhere
                                    let total = l / (e as usize).max(1) + 3;
                                    let at = rng.below(total as u64 + 1) as usize;
                                    let forces: String = (0..=at).map(|i| if i == at { '1' } else { '0' }).collect();
                                    emit(format!("E {} {:x} {:x} {:x} {:x} {} buf {} {} -", fec, e, b, parity, w, closable, hex(&c), forces));
                                } else {
                                    let sched: Vec<String> = match rng.below(4) {
                                        0 => vec!["1".into(); l + 2],
                                        1 => {
                                            let k = rng.range(1, 5);
                                            vec![format!("{:x}", k); l + 2]
                                        }
                                        2 => (0..l + 2).map(|_| format!("{:x}", rng.range(1, 9))).collect(),
                                        _ => vec![format!("{:x}", l + 10)],
                                    };
                                    {
                let src = if rng.chance(1, 2) { format!("stream@{:x}", rng.below(c.len() as u64 + 2)) } else { "stream".to_string() };
                emit(format!("E {} {:x} {:x} {:x} {:x} {} {} {} - {}", fec, e, b, parity, w, closable, src, hex(&c), sched.join(",")));
            }
                                }
                            }
                        }
                    }
                }
            }
        }
    }
    // seeded random larger cases
    let count = if thorough { 6000 } else { 600 };
    for i in 0..count {
        if i % args.shard.1 != args.shard.0 {
            rng.next();
            continue;
        }
        let fec = *rng.pick(&fecs);
        let e = rng.range(1, 24) as u16;
        let b = rng.range(1, 9) as u32;
        let parity = if fec == "nocode" { 0 } else { rng.range(0, 4) as u32 };
        let w = rng.range(1, 5) as usize;
        let nblk = rng.range(0, 5);
        let l = (rng.range(0, (e as u64) * (b as u64) * nblk + e as u64)) as usize;
        let c = content(&mut rng, l);
        let closable = rng.below(2);
        if !streams {
            emit(format!("E {} {:x} {:x} {:x} {:x} {} buf {} - -", fec, e, b, parity, w, closable, hex(&c)));
        } else if l > 0 {
            let sched: Vec<String> = (0..l + 2).map(|_| format!("{:x}", rng.range(1, 2 * e as u64 + 3))).collect();
            {
                let src = if rng.chance(1, 2) { format!("stream@{:x}", rng.below(c.len() as u64 + 2)) } else { "stream".to_string() };
                emit(format!("E {} {:x} {:x} {:x} {:x} {} {} {} - {}", fec, e, b, parity, w, closable, src, hex(&c), sched.join(",")));
            }
        }
    }
    // the 16-bit ESI of the Raptor payload id: 4 source symbols with 65532 (all numbers fit) and 65535 parity symbols (refused, D46)
    if !streams && args.shard.0 == 0 {
        for par in ["fffc", "ffff", "fffd"] {
            emit(format!("E raptor 4 4 {} 1 1 buf 0102030405060708090a0b0c0d0e0f10 - -", par));
        }
    }
    // content-encoded objects: buffer and stream must give the same packets (and the same lengths and MD5)
    if streams {
        let ycount = if thorough { 1500 } else { 150 };
        for k in 0..ycount {
            let fec = *rng.pick(&["nocode", "rs28", "raptorq"]);
            let e = *rng.pick(&[4u16, 8, 16]);
            let b = rng.range(2, 6) as u32;
            let parity = if fec == "nocode" { 0 } else { 1 };
            // compressible and incompressible contents, a few bytes to tens of kilobytes (several internal buffers)
            let l = match k % 5 {
                0 => rng.range(1, 40),
                1 => rng.range(40, 700),
                2 => rng.range(700, 5000),
                3 => rng.range(5000, 40000),
                _ => rng.range(1, 3000),
            } as usize;
            let c: Vec<u8> = if k % 2 == 0 { (0..l).map(|i| ((i / 9) % 7) as u8 + b'a').collect() } else { content(&mut rng, l) };
            let start = if rng.chance(1, 2) { 0 } else { rng.below(l as u64 + 2) };
            let sched: Vec<String> = (0..24).map(|_| format!("{:x}", rng.range(1, 300))).collect();
            let ce = *rng.pick(&["zlib", "deflate", "gzip"]);
            emit(format!("Y {} {:x} {:x} {:x} {:x} {} {:x} {} {}", fec, e, b, parity, rng.range(1, 3), ce, start, hex(&c), sched.join(",")));
        }
    }
}

pub fn run(args: &Args, streams: bool) {
    let mut tr = Trace::new(args.out.as_deref());
    if let Some(rp) = &args.replay {
        for line in std::fs::read_to_string(rp).unwrap().lines() {
            let input = line.split('|').next().unwrap().trim();
            if input.is_empty() || input.starts_with('#') {
                continue;
            }
            tr.line(&format!("{} | {}", input, eval(input)));
        }
    } else {
        gen(args, &mut |input: String| {
            let out = eval(&input);
            tr.line(&format!("{} | {}", input, out));
        }, streams);
    }
    tr.finish();
}
