"""Per-property configuration of bin/check."""

CHECKS = {
    "C07": {
        "runs": [{"subcmd": "part", "shards_quick": 4, "shards_thorough": 16}],
        "rule": "P/L lines: exhaustive grid over (B,E,L) (quick B<=16,E<=8,L<=600; thorough B<=64,E<=24,L<=4000) with every block "
                "index incl. two beyond the last, plus seeded boundary/random triples up to B<2^32,E<=65535,L<2^48; S lines: real "
                "No-Code sender sessions (source bytes per SBN on the wire); R lines: real RaptorQ sender -> flute FTI parser "
                "(Z and reconstructed B). A case is non-trivial when the partition has >= 2 blocks (and, for L, the block index is "
                "in range); distinct = distinct input tuples (digest of the input part of the line).",
        "exhaustive_quick": True, "exhaustive_thorough": True,
        "explanation": "Theorems C07_* proved for all (b,l,e) on the Gallina model of common/partition.rs; the model is tied to the "
                       "code by evaluating the real functions (hook feature ypo_flute_verif) on the grid and comparing with the "
                       "extracted model; P_C07_* (Coq-defined, extracted) evaluated on the implementation's outputs.",
        "assumptions": ["model of partition.rs is hand-written; faithfulness established by the correspondence run only",
                        "u64 arithmetic modelled with checked operations (None = overflow/underflow panic)"],
        "trusted_base": ["model: coq/theories/Model/Partition.v (block_partitioning, block_length, u64 variants, reconstructed_b, sender_slices)"],
    },
}
