"""Per-property configuration of bin/check."""

HOOK_COMMITS = ["dd37a88"]
NOT_APPLICABLE = {}

CHECKS = {
    "C07": {
        "runs": [{"subcmd": "part", "shards_quick": 4, "shards_thorough": 16}],
        "rule": "P/L lines: exhaustive grid over (B,E,L) (quick B<=16,E<=8,L<=600; thorough B<=64,E<=24,L<=4000) with every block "
                "index incl. two beyond the last, plus seeded boundary/random triples up to B<2^32,E<=65535,L<2^48; S lines: real "
                "No-Code sender sessions (source bytes per SBN on the wire); R lines: real RaptorQ sender -> flute FTI parser "
                "(Z and reconstructed B). A case is non-trivial when the partition has >= 2 blocks (and, for L, the block index is "
                "in range); distinct = distinct input tuples (digest of the input part of the line).",
        "exhaustive_quick": True, "exhaustive_thorough": True,
        "level_text": "Theorems C07_* (Properties/C07.v) prove, for all b,l,e, that the model of partition.rs computes the RFC 5052 partition, covers T symbols, that block byte lengths sum to L with only the last short, that sender slices equal receiver block lengths, that B reconstructed from Z gives the same partition and that no u64 operation overflows for L<2^48,E<2^16. The model is tied to the code on every run by exhaustive-grid and boundary/random differential evaluation of the real functions against the extracted model.",
        "explanation": "Theorems C07_* proved for all (b,l,e) on the Gallina model of common/partition.rs; the model is tied to the "
                       "code by evaluating the real functions (hook feature ypo_flute_verif) on the grid and comparing with the "
                       "extracted model; P_C07_* (Coq-defined, extracted) evaluated on the implementation's outputs.",
        "assumptions": ["model of partition.rs is hand-written; faithfulness established by the correspondence run only",
                        "u64 arithmetic modelled with checked operations (None = overflow/underflow panic)"],
        "trusted_base": ["model: coq/theories/Model/Partition.v (block_partitioning, block_length, u64 variants, reconstructed_b, sender_slices)"],
    },
    "C08": {
        "runs": [{"subcmd": "encode", "shards_quick": 4, "shards_thorough": 16, "driver_args": ["c08"]}],
        "rule": "E lines: BlockEncoder (through FileDesc::new + BlockEncoder::new/read, hook feature) on a grid of "
                "{No-Code, RS28, RS28-US, RaptorQ, Raptor} x E x B x parity 0..2 x window 1..3(4) x closable x object lengths 0..3 blocks+2, "
                "each once unforced and once with force_close_object at a random read, plus seeded random larger objects; "
                "non-trivial = at least two packets emitted; distinct = distinct input lines.",
        "level_text": "Proved for every block list, window and reachable state: an uninterrupted transfer emits each block's encoding symbols exactly once, in order, ends without panic, and carries the close flag on its last packet only (iff last transfer); a forced read closes and silences the encoder; an empty object is the lone close packet. The clause 'payload = E-byte slice at the RFC offset' is evaluated by the Coq-defined P_C08_transfer on the implementation's packets on every run (full theorem C08_transfer_full stated, not yet proved) - partial in that respect. Known finding D30 (Raptor symbol cutting) is reported, not suppressed beyond its class.",
        "explanation": "Scheduler theorems (each block's shards once, in order, flag last) proved for all block lists/windows; "
                       "slice/offset clause evaluated by P_C08_transfer (Coq-defined, RFC partition + object bytes) on the implementation's packets.",
        "assumptions": ["repair symbol payloads are an oracle (not compared)", "raptor-code source symbol cutting is an oracle validated by the run",
                        "C08_transfer_full (blocks_of_buffer satisfies wf and the slice clause) is evaluated, not yet proved"],
        "trusted_base": ["model: coq/theories/Model/BlockEnc.v (block.rs, blockencoder.rs, FileDesc::new acceptance)"],
    },
    "C20": {
        "extract": "C08", "driver": "c08",
        "runs": [{"subcmd": "source", "shards_quick": 4, "shards_thorough": 16, "driver_args": ["c20"]}],
        "rule": "E lines with a stream source (custom Read+Seek with a read schedule: 1 byte, fixed small, random sizes, whole) over the "
                "same FEC x E x B x parity x window grid incl. empty objects, plus random larger ones; the packets are compared with the "
                "model's packets for the BUFFER source of the same bytes; non-trivial = at least two packets; distinct = distinct input lines.",
        "level_text": "C20_chunking_independent: for every FEC oracle, configuration, content and every read schedule of positive reads the blocks (hence packets) of a stream source equal those of the buffer source; tied to blockencoder.rs by differential runs with scheduled short reads.",
        "explanation": "C20_chunking_independent proved for every schedule of positive reads; model tied to blockencoder.rs by the run.",
        "assumptions": ["a stream's read() returns between 1 and the requested number of bytes until EOF, then 0 (std::io::Read contract)"],
        "trusted_base": ["model: coq/theories/Model/BlockEnc.v (read_block_stream as read_fill, read_block_buffer as blocks_buf)"],
    },
    "C11": {
        "extract": "C11", "driver": "c11",
        "runs": [{"subcmd": "sender", "shards_quick": 4, "shards_thorough": 16, "driver_args": ["c11"]}],
        "rule": 'S lines: one whole scenario per line - the real Sender (No-Code objects with per-object OTI, sizes 0..8 symbols, max_transfer_count 1..3, carousel none/delay/interval incl. 0, target acquisition none/fast/duration/time, allow-immediate-stop, start times; both FDT publish modes, 1-2 priority queues, multiplex_files 0..3, FDT start id incl. 2^20-1, FDT durations 2 s..1 h, multi-packet FDTs) driven by seeded random operation scripts (add/publish/remove/trigger/set_complete/read/read-until-nothing) under a virtual clock with fine and coarse steps; the model is stepped on the same script and compared op by op (result, FDT content view with transfer counters, observer events). Non-trivial = at least 3 packets emitted; distinct = distinct scenario lines. Predicate: P_C11 (trace only): every object packet is preceded by all packets of one FDT instance listing its TOI (listing taken from the reassembled FDT XML), no object packet inside an instance.',
        "level_text": 'Proved for all states: a file session emits nothing while an FDT instance is queued; an unpublished object is never started in full-FDT mode; read serves the FDT session first. The history-level theorem C11_announce_before_send_full is stated and evaluated on every run, not yet proved (partial). Correspondence: the Gallina model of filedesc.rs/fdt.rs/sendersession.rs/sender.rs agrees with the implementation op by op on every generated scenario.',
        "explanation": 'P_C11 (trace only): every object packet is preceded by all packets of one FDT instance listing its TOI (listing taken from the reassembled FDT XML), no object packet inside an instance.',
        "assumptions": ["block encoder abstracted to a packet counter (its behaviour is C08's subject)", "Duration::div_f64 is an oracle (whole-nanosecond quotients in generated cases)",
                        "FDT packet count per instance is an oracle read from the FTI of the FDT packets", "TOIs are unique among live objects (C15)"],
        "trusted_base": ["model: coq/theories/Model/SenderCtl.v (filedesc.rs TransferInfo/FileDesc, fdt.rs, sendersession.rs, sender.rs read)"],
    },
    "C12": {
        "extract": "C11", "driver": "c11",
        "runs": [{"subcmd": "sender", "shards_quick": 4, "shards_thorough": 16, "driver_args": ["c12"]}],
        "rule": 'S lines: one whole scenario per line - the real Sender (No-Code objects with per-object OTI, sizes 0..8 symbols, max_transfer_count 1..3, carousel none/delay/interval incl. 0, target acquisition none/fast/duration/time, allow-immediate-stop, start times; both FDT publish modes, 1-2 priority queues, multiplex_files 0..3, FDT start id incl. 2^20-1, FDT durations 2 s..1 h, multi-packet FDTs) driven by seeded random operation scripts (add/publish/remove/trigger/set_complete/read/read-until-nothing) under a virtual clock with fine and coarse steps; the model is stepped on the same script and compared op by op (result, FDT content view with transfer counters, observer events). Non-trivial = at least 3 packets emitted; distinct = distinct scenario lines. Predicate: P_C12_wire (trace only): never more than max_transfer_count transfers of a non-carousel object, after removal at most the rest of the current transfer or one flagged packet; P_C12_counter after every operation: reported transfer counter vs completed transfers on the wire.',
        "level_text": 'Proved: a transfer is exactly its packets with the flag last iff last transfer; forced read once; counters; expiry decision. C12_lifecycle_full stated and evaluated, not yet proved (partial). Correspondence: the Gallina model of filedesc.rs/fdt.rs/sendersession.rs/sender.rs agrees with the implementation op by op on every generated scenario.',
        "explanation": 'P_C12_wire (trace only): never more than max_transfer_count transfers of a non-carousel object, after removal at most the rest of the current transfer or one flagged packet; P_C12_counter after every operation: reported transfer counter vs completed transfers on the wire.',
        "assumptions": ["block encoder abstracted to a packet counter (its behaviour is C08's subject)", "Duration::div_f64 is an oracle (whole-nanosecond quotients in generated cases)",
                        "FDT packet count per instance is an oracle read from the FTI of the FDT packets", "TOIs are unique among live objects (C15)"],
        "trusted_base": ["model: coq/theories/Model/SenderCtl.v (filedesc.rs TransferInfo/FileDesc, fdt.rs, sendersession.rs, sender.rs read)"],
    },
    "C13": {
        "extract": "C11", "driver": "c11",
        "runs": [{"subcmd": "sender", "shards_quick": 4, "shards_thorough": 16, "driver_args": ["c13"]}],
        "rule": 'S lines: one whole scenario per line - the real Sender (No-Code objects with per-object OTI, sizes 0..8 symbols, max_transfer_count 1..3, carousel none/delay/interval incl. 0, target acquisition none/fast/duration/time, allow-immediate-stop, start times; both FDT publish modes, 1-2 priority queues, multiplex_files 0..3, FDT start id incl. 2^20-1, FDT durations 2 s..1 h, multi-packet FDTs) driven by seeded random operation scripts (add/publish/remove/trigger/set_complete/read/read-until-nothing) under a virtual clock with fine and coarse steps; the model is stepped on the same script and compared op by op (result, FDT content view with transfer counters, observer events). Non-trivial = at least 3 packets emitted; distinct = distinct scenario lines. Predicate: P_C13_priority: an object packet of priority p is emitted only if no queue of smaller key is ready (slot with due tick, or free slot and eligible waiting object) in the model state before the read.',
        "level_text": 'Proved: queues served in key order, first queue with a packet wins; slots per queue constant (multiplex bound); window refill order (interleave). C13_strict_priority_full stated and evaluated, not yet proved (partial). Correspondence: the Gallina model of filedesc.rs/fdt.rs/sendersession.rs/sender.rs agrees with the implementation op by op on every generated scenario.',
        "explanation": 'P_C13_priority: an object packet of priority p is emitted only if no queue of smaller key is ready (slot with due tick, or free slot and eligible waiting object) in the model state before the read.',
        "assumptions": ["block encoder abstracted to a packet counter (its behaviour is C08's subject)", "Duration::div_f64 is an oracle (whole-nanosecond quotients in generated cases)",
                        "FDT packet count per instance is an oracle read from the FTI of the FDT packets", "TOIs are unique among live objects (C15)"],
        "trusted_base": ["model: coq/theories/Model/SenderCtl.v (filedesc.rs TransferInfo/FileDesc, fdt.rs, sendersession.rs, sender.rs read)"],
    },
    "C14": {
        "extract": "C11", "driver": "c11",
        "runs": [{"subcmd": "sender", "shards_quick": 4, "shards_thorough": 16, "driver_args": ["c14"]}],
        "rule": 'S lines: one whole scenario per line - the real Sender (No-Code objects with per-object OTI, sizes 0..8 symbols, max_transfer_count 1..3, carousel none/delay/interval incl. 0, target acquisition none/fast/duration/time, allow-immediate-stop, start times; both FDT publish modes, 1-2 priority queues, multiplex_files 0..3, FDT start id incl. 2^20-1, FDT durations 2 s..1 h, multi-packet FDTs) driven by seeded random operation scripts (add/publish/remove/trigger/set_complete/read/read-until-nothing) under a virtual clock with fine and coarse steps; the model is stepped on the same script and compared op by op (result, FDT content view with transfer counters, observer events). Non-trivial = at least 3 packets emitted; distinct = distinct scenario lines. Predicate: P_C14_start_time, P_C14_pacing, P_C14_carousel_gap against the model state before each read; panics of the sender are failures (degenerate inputs).',
        "level_text": 'Proved: eligibility implies start time reached and (budget used up) carousel gap elapsed; every emitted packet passed the pacing gate; starting a transfer is total. C14_timing_full stated and evaluated, not yet proved (partial). Known finding D23 (carousel with max_transfer_count >= 2). Correspondence: the Gallina model of filedesc.rs/fdt.rs/sendersession.rs/sender.rs agrees with the implementation op by op on every generated scenario.',
        "explanation": 'P_C14_start_time, P_C14_pacing, P_C14_carousel_gap against the model state before each read; panics of the sender are failures (degenerate inputs).',
        "assumptions": ["block encoder abstracted to a packet counter (its behaviour is C08's subject)", "Duration::div_f64 is an oracle (whole-nanosecond quotients in generated cases)",
                        "FDT packet count per instance is an oracle read from the FTI of the FDT packets", "TOIs are unique among live objects (C15)"],
        "trusted_base": ["model: coq/theories/Model/SenderCtl.v (filedesc.rs TransferInfo/FileDesc, fdt.rs, sendersession.rs, sender.rs read)"],
    },
}
