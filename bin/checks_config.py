"""Per-property configuration of bin/check."""

HOOK_COMMITS = ["dd37a88"]
NOT_APPLICABLE = {}

CHECKS = {
    "C07": {
        "runs": [{"subcmd": "part", "shards_quick": 4, "shards_thorough": 16}],
        "rule": "P/L lines: exhaustive grid over (B,E,L) (quick B<=16,E<=8,L<=600; thorough B<=64,E<=24,L<=4000) with every block "
                "index incl. two beyond the last, plus seeded boundary/random triples up to B<2^32,E<=65535,L<2^48; S lines: real "
                "No-Code sender sessions (source bytes per SBN on the wire); R lines: real RaptorQ sender -> flute FTI parser "
                "(Z and reconstructed B). A case is non-trivial when the partition has >= 2 blocks (and, for L, the block index is "
                "in range); distinct = distinct input tuples (digest of the input part of the line).",
        "exhaustive_quick": True, "exhaustive_thorough": True,
        "level_text": "Theorems C07_* (Properties/C07.v) prove, for all b,l,e, that the model of partition.rs computes the RFC 5052 partition, covers T symbols, that block byte lengths sum to L with only the last short, that sender slices equal receiver block lengths, that B reconstructed from Z gives the same partition and that no u64 operation overflows for L<2^48,E<2^16. The model is tied to the code on every run by exhaustive-grid and boundary/random differential evaluation of the real functions against the extracted model.",
        "explanation": "Theorems C07_* proved for all (b,l,e) on the Gallina model of common/partition.rs; the model is tied to the "
                       "code by evaluating the real functions (hook feature ypo_flute_verif) on the grid and comparing with the "
                       "extracted model; P_C07_* (Coq-defined, extracted) evaluated on the implementation's outputs.",
        "assumptions": ["model of partition.rs is hand-written; faithfulness established by the correspondence run only",
                        "u64 arithmetic modelled with checked operations (None = overflow/underflow panic)"],
        "trusted_base": ["model: coq/theories/Model/Partition.v (block_partitioning, block_length, u64 variants, reconstructed_b, sender_slices)"],
    },
    "C08": {
        "runs": [{"subcmd": "encode", "shards_quick": 4, "shards_thorough": 16, "driver_args": ["c08"]}],
        "rule": "E lines: BlockEncoder (through FileDesc::new + BlockEncoder::new/read, hook feature) on a grid of "
                "{No-Code, RS28, RS28-US, RaptorQ, Raptor} x E x B x parity 0..2 x window 1..3(4) x closable x object lengths 0..3 blocks+2, "
                "each once unforced and once with force_close_object at a random read, plus seeded random larger objects; "
                "non-trivial = at least two packets emitted; distinct = distinct input lines.",
        "level_text": "Proved for every block list, window and reachable state: an uninterrupted transfer emits each block's encoding symbols exactly once, in order, ends without panic, and carries the close flag on its last packet only (iff last transfer); a forced read closes and silences the encoder; an empty object is the lone close packet. The clause 'payload = E-byte slice at the RFC offset' is evaluated by the Coq-defined P_C08_transfer on the implementation's packets on every run (full theorem C08_transfer_full stated, not yet proved) - partial in that respect. Known finding D30 (Raptor symbol cutting) is reported, not suppressed beyond its class.",
        "explanation": "Scheduler theorems (each block's shards once, in order, flag last) proved for all block lists/windows; "
                       "slice/offset clause evaluated by P_C08_transfer (Coq-defined, RFC partition + object bytes) on the implementation's packets.",
        "assumptions": ["repair symbol payloads are an oracle (not compared)", "raptor-code source symbol cutting is an oracle validated by the run",
                        "C08_transfer_full (blocks_of_buffer satisfies wf and the slice clause) is evaluated, not yet proved"],
        "trusted_base": ["model: coq/theories/Model/BlockEnc.v (block.rs, blockencoder.rs, FileDesc::new acceptance)"],
    },
    "C20": {
        "extract": "C08", "driver": "c08",
        "runs": [{"subcmd": "source", "shards_quick": 4, "shards_thorough": 16, "driver_args": ["c20"]}],
        "rule": "E lines with a stream source (custom Read+Seek with a read schedule: 1 byte, fixed small, random sizes, whole) over the "
                "same FEC x E x B x parity x window grid incl. empty objects, plus random larger ones; the packets are compared with the "
                "model's packets for the BUFFER source of the same bytes; non-trivial = at least two packets; distinct = distinct input lines.",
        "level_text": "C20_chunking_independent: for every FEC oracle, configuration, content and every read schedule of positive reads the blocks (hence packets) of a stream source equal those of the buffer source; tied to blockencoder.rs by differential runs with scheduled short reads.",
        "explanation": "C20_chunking_independent proved for every schedule of positive reads; model tied to blockencoder.rs by the run.",
        "assumptions": ["a stream's read() returns between 1 and the requested number of bytes until EOF, then 0 (std::io::Read contract)"],
        "trusted_base": ["model: coq/theories/Model/BlockEnc.v (read_block_stream as read_fill, read_block_buffer as blocks_buf)"],
    },
    "C11": {
        "extract": "C11", "driver": "c11",
        "runs": [{"subcmd": "sender", "shards_quick": 4, "shards_thorough": 16, "driver_args": ["c11"]}],
        "rule": 'S lines: one whole scenario per line - the real Sender (No-Code objects with per-object OTI, sizes 0..8 symbols, max_transfer_count 1..3, carousel none/delay/interval incl. 0, target acquisition none/fast/duration/time, allow-immediate-stop, start times; both FDT publish modes, 1-2 priority queues, multiplex_files 0..3, FDT start id incl. 2^20-1, FDT durations 2 s..1 h, multi-packet FDTs) driven by seeded random operation scripts (add/publish/remove/trigger/set_complete/read/read-until-nothing) under a virtual clock with fine and coarse steps; the model is stepped on the same script and compared op by op (result, FDT content view with transfer counters, observer events). Non-trivial = at least 3 packets emitted; distinct = distinct scenario lines. Predicate: P_C11 (trace only): every object packet is preceded by all packets of one FDT instance listing its TOI (listing taken from the reassembled FDT XML), no object packet inside an instance.',
        "level_text": 'Proved for all states: a file session emits nothing while an FDT instance is queued; an unpublished object is never started in full-FDT mode; read serves the FDT session first. The history-level theorem C11_announce_before_send_full is stated and evaluated on every run, not yet proved (partial). Correspondence: the Gallina model of filedesc.rs/fdt.rs/sendersession.rs/sender.rs agrees with the implementation op by op on every generated scenario.',
        "explanation": 'P_C11 (trace only): every object packet is preceded by all packets of one FDT instance listing its TOI (listing taken from the reassembled FDT XML), no object packet inside an instance.',
        "assumptions": ["block encoder abstracted to a packet counter (its behaviour is C08's subject)", "Duration::div_f64 is an oracle (whole-nanosecond quotients in generated cases)",
                        "FDT packet count per instance is an oracle read from the FTI of the FDT packets", "TOIs are unique among live objects (C15)"],
        "trusted_base": ["model: coq/theories/Model/SenderCtl.v (filedesc.rs TransferInfo/FileDesc, fdt.rs, sendersession.rs, sender.rs read)"],
    },
    "C12": {
        "extract": "C11", "driver": "c11",
        "runs": [{"subcmd": "sender", "shards_quick": 4, "shards_thorough": 16, "driver_args": ["c12"]}],
        "rule": 'S lines: one whole scenario per line - the real Sender (No-Code objects with per-object OTI, sizes 0..8 symbols, max_transfer_count 1..3, carousel none/delay/interval incl. 0, target acquisition none/fast/duration/time, allow-immediate-stop, start times; both FDT publish modes, 1-2 priority queues, multiplex_files 0..3, FDT start id incl. 2^20-1, FDT durations 2 s..1 h, multi-packet FDTs) driven by seeded random operation scripts (add/publish/remove/trigger/set_complete/read/read-until-nothing) under a virtual clock with fine and coarse steps; the model is stepped on the same script and compared op by op (result, FDT content view with transfer counters, observer events). Non-trivial = at least 3 packets emitted; distinct = distinct scenario lines. Predicate: P_C12_wire (trace only): never more than max_transfer_count transfers of a non-carousel object, after removal at most the rest of the current transfer or one flagged packet; P_C12_counter after every operation: reported transfer counter vs completed transfers on the wire.',
        "level_text": 'Proved: a transfer is exactly its packets with the flag last iff last transfer; forced read once; counters; expiry decision. C12_lifecycle_full stated and evaluated, not yet proved (partial). Correspondence: the Gallina model of filedesc.rs/fdt.rs/sendersession.rs/sender.rs agrees with the implementation op by op on every generated scenario.',
        "explanation": 'P_C12_wire (trace only): never more than max_transfer_count transfers of a non-carousel object, after removal at most the rest of the current transfer or one flagged packet; P_C12_counter after every operation: reported transfer counter vs completed transfers on the wire.',
        "assumptions": ["block encoder abstracted to a packet counter (its behaviour is C08's subject)", "Duration::div_f64 is an oracle (whole-nanosecond quotients in generated cases)",
                        "FDT packet count per instance is an oracle read from the FTI of the FDT packets", "TOIs are unique among live objects (C15)"],
        "trusted_base": ["model: coq/theories/Model/SenderCtl.v (filedesc.rs TransferInfo/FileDesc, fdt.rs, sendersession.rs, sender.rs read)"],
    },
    "C13": {
        "extract": "C11", "driver": "c11",
        "runs": [{"subcmd": "sender", "shards_quick": 4, "shards_thorough": 16, "driver_args": ["c13"]}],
        "rule": 'S lines: one whole scenario per line - the real Sender (No-Code objects with per-object OTI, sizes 0..8 symbols, max_transfer_count 1..3, carousel none/delay/interval incl. 0, target acquisition none/fast/duration/time, allow-immediate-stop, start times; both FDT publish modes, 1-2 priority queues, multiplex_files 0..3, FDT start id incl. 2^20-1, FDT durations 2 s..1 h, multi-packet FDTs) driven by seeded random operation scripts (add/publish/remove/trigger/set_complete/read/read-until-nothing) under a virtual clock with fine and coarse steps; the model is stepped on the same script and compared op by op (result, FDT content view with transfer counters, observer events). Non-trivial = at least 3 packets emitted; distinct = distinct scenario lines. Predicate: P_C13_priority: an object packet of priority p is emitted only if no queue of smaller key is ready (slot with due tick, or free slot and eligible waiting object) in the model state before the read.',
        "level_text": 'Proved: queues served in key order, first queue with a packet wins; slots per queue constant (multiplex bound); window refill order (interleave). C13_strict_priority_full stated and evaluated, not yet proved (partial). Correspondence: the Gallina model of filedesc.rs/fdt.rs/sendersession.rs/sender.rs agrees with the implementation op by op on every generated scenario.',
        "explanation": 'P_C13_priority: an object packet of priority p is emitted only if no queue of smaller key is ready (slot with due tick, or free slot and eligible waiting object) in the model state before the read.',
        "assumptions": ["block encoder abstracted to a packet counter (its behaviour is C08's subject)", "Duration::div_f64 is an oracle (whole-nanosecond quotients in generated cases)",
                        "FDT packet count per instance is an oracle read from the FTI of the FDT packets", "TOIs are unique among live objects (C15)"],
        "trusted_base": ["model: coq/theories/Model/SenderCtl.v (filedesc.rs TransferInfo/FileDesc, fdt.rs, sendersession.rs, sender.rs read)"],
    },
    "C14": {
        "extract": "C11", "driver": "c11",
        "runs": [{"subcmd": "sender", "shards_quick": 4, "shards_thorough": 16, "driver_args": ["c14"]}],
        "rule": 'S lines: one whole scenario per line - the real Sender (No-Code objects with per-object OTI, sizes 0..8 symbols, max_transfer_count 1..3, carousel none/delay/interval incl. 0, target acquisition none/fast/duration/time, allow-immediate-stop, start times; both FDT publish modes, 1-2 priority queues, multiplex_files 0..3, FDT start id incl. 2^20-1, FDT durations 2 s..1 h, multi-packet FDTs) driven by seeded random operation scripts (add/publish/remove/trigger/set_complete/read/read-until-nothing) under a virtual clock with fine and coarse steps; the model is stepped on the same script and compared op by op (result, FDT content view with transfer counters, observer events). Non-trivial = at least 3 packets emitted; distinct = distinct scenario lines. Predicate: P_C14_start_time, P_C14_pacing, P_C14_carousel_gap against the model state before each read; panics of the sender are failures (degenerate inputs).',
        "level_text": 'Proved: eligibility implies start time reached and (budget used up) carousel gap elapsed; every emitted packet passed the pacing gate; starting a transfer is total. C14_timing_full stated and evaluated, not yet proved (partial). Known finding D23 (carousel with max_transfer_count >= 2). Correspondence: the Gallina model of filedesc.rs/fdt.rs/sendersession.rs/sender.rs agrees with the implementation op by op on every generated scenario.',
        "explanation": 'P_C14_start_time, P_C14_pacing, P_C14_carousel_gap against the model state before each read; panics of the sender are failures (degenerate inputs).',
        "assumptions": ["block encoder abstracted to a packet counter (its behaviour is C08's subject)", "Duration::div_f64 is an oracle (whole-nanosecond quotients in generated cases)",
                        "FDT packet count per instance is an oracle read from the FTI of the FDT packets", "TOIs are unique among live objects (C15)"],
        "trusted_base": ["model: coq/theories/Model/SenderCtl.v (filedesc.rs TransferInfo/FileDesc, fdt.rs, sendersession.rs, sender.rs read)"],
    },
    "C05": {
        "runs": [{"subcmd": "path", "shards_quick": 4, "shards_thorough": 8}],
        "parallel": 8,
        "rule": "W lines: one real FLUTE session per line (flute Sender -> ALC packets, FDT instance re-packetised with flute's "
                "new_alc_pkt after its Content-Location attribute was replaced by the string under test -> flute Receiver with "
                "ObjectWriterFSBuilder) into a fresh sandbox tree with canary files, the worker process chroot'ed into a unique "
                "temporary directory so that every path it can name is observed. Locations: the D11 witnesses and the test-suite "
                "location with every outcome and destination form; the exhaustive grid 9 prefixes (file:///, file://host/, http://h/, "
                "x:, x:/, x://h/, none, /, //) x segment lists over {x, ., .., empty, %2e%2e, ..%2f, a\\..\\b, absolute sandbox path} "
                "of length <= 3 with each of 5 outcomes (complete, complete with late FDT, wrong MD5 = error, lost packet + close flag "
                "= interrupted, receiver dropped = error) and rotating destination form (absolute, relative, ./relative, trailing "
                "slash, '..' from a subdirectory, path through sub/../); thorough adds length <= 5 (337041 strings, outcome and form "
                "rotating) and length <= 2 with the full product; plus seeded random strings built from URL/path/escape tokens "
                "(quick 6000, thorough 200000). A case is non-trivial when the filesystem writer was created and received the "
                "location (cl != NONE); distinct = distinct input lines (destination form, outcome, location template), counted per "
                "harness run (thorough runs the dev and the release profile on the same inputs).",
        "exhaustive_quick": True, "exhaustive_thorough": True,
        "level_text": "Theorems C05_* prove, for every destination directory, Content-Location string, URL-parser outcome (unconstrained oracle), writer call sequence and file-system outcome, that every create/write/remove and every directory created by the filesystem writer is strictly inside the destination directory, that unmappable locations fail without any file-system call, and that only created files are removed; the model is tied to objectwriterfs.rs by real FLUTE sessions into a chroot-ed sandbox with canaries (observed file-tree changes vs predicted).",
        "explanation": "Theorems C05_* are proved for all destination directories, Content-Location strings, url-parser outcomes, "
                       "call sequences and file-system outcomes on the Gallina model of objectwriterfs.rs (with fixes/D11 applied) and "
                       "of Unix std::path. The check ties the model to the code by running real sessions: the Coq-defined predicates "
                       "P_C05_confined / P_C05_complete_stored / P_C05_failed_leaves_no_file are evaluated on the observed changes of "
                       "the file tree, and the extracted model (path mapping, writer state machine, predicted net change) is compared "
                       "with the observed open() results and changes; url::Url::parse outcomes are recorded per case and fed to the "
                       "model as an unconstrained oracle.",
        "assumptions": ["model of objectwriterfs.rs and of std::path (components/join/parent/strip_prefix, Unix) is hand-written; "
                        "faithfulness established by the correspondence run only",
                        "no symbolic links inside the destination directory; the kernel resolves a path as the lexical walk of its "
                        "components (validated on every case: dest must walk to the real directory, predicted = observed changes)",
                        "the url crate is not modelled: every theorem quantifies over all parse outcomes",
                        "the destination directory exists (ObjectWriterFSBuilder::new checks is_dir)"],
        "trusted_base": ["model: coq/theories/Model/Path.v (components, join, parent_comps, strip_slash, map_path, wstep/wrun, walk, predict)",
                         "harness sandbox: chroot into a unique temp dir (fallback without CAP_SYS_CHROOT: unconfined, locations that "
                         "could leave the sandbox are skipped and counted as skipped-unconfined)"],
    },
    "C09": {
        "extract": "C09", "driver": "c09",
        "runs": [{"subcmd": "recv", "shards_quick": 4, "shards_thorough": 16, "driver_args": ["c09"]}],
        "rule": "V lines: one whole session per line - a real Sender (No-Code, RS28, RS28-US, RaptorQ, Raptor; E 4..16, B 1..6, parity 0..2; content encodings; in-band / FDT-only FTI and CENC; both publish modes; interleave 1..3; 1..3 objects of 0..3 blocks incl. empty; transfer count 1..2; optional rewriting of the FDT instances to strip FEC-OTI or Transfer-Length attributes as a foreign sender would) produces the genuine packets, a channel transforms them (in order, permutation, subset, duplication, loss+duplication, payload bit flips, payload truncation, late join), a real Receiver with a scripted monitoring writer builder (StoreObject / ObjectAlreadyReceived / Abort per creation, open failing, write failing at call k) consumes them, with cleanup and receiver drop at arbitrary points; each case runs in a worker process with a watchdog (HANG) and an address-space limit. The extracted model is stepped on the parsed packets; per-event result, object counts and per-writer call sequences (consecutive writes merged) are compared. Non-trivial = at least one writer was created and the model did not abstain (FEC reconstruction / inflate oracle undefined); distinct = distinct session lines. Predicate: P_C09_writer on every writer's recorded calls (typestate open . write* . terminal?, writes a prefix of the content, complete only with the whole content, terminal call before drop).",
        "level_text": 'Proved (Qed, closed) for EVERY history of receiver events (packets of any content and order, unparsable datagrams, cleanups, drop), every configuration and every behaviour of the writer builder, writers and decoders (oracles): the calls each writer receives form open . write* . at most one terminal call, nothing after it (C09_writer_protocol_full), and after the receiver is dropped every opened writer has had its terminal call (C09_drop_terminates_all_full); proof by an object invariant (automaton phase of the logged calls = writer state, terminated writer => object left the receiving state and holds no cache), a frame (calls go only to the own writer, writer ids are fresh) and its lifting to the receiver map (Proofs/C09Full.v). The same predicate is evaluated on the callbacks of the implementation on every run.',
        "explanation": "P_C09_writer on every writer's recorded calls (typestate open . write* . terminal?, writes a prefix of the content, complete only with the whole content, terminal call before drop).",
        "assumptions": ["FEC reconstruction (Reed-Solomon, RaptorQ, Raptor) is an oracle answered from the session's ground truth; the model abstains where it is undefined",
                        "inflate is an oracle (whole content once all transfer bytes are in); partial inflate output is not compared",
                        "FdtInstance::parse is an oracle (table of flute's own parse results for the session's instances)",
                        "packets are compared after flute's own ALC parser (its correctness is C06's subject)"],
        "trusted_base": ["model: coq/theories/Model/ObjRecv.v, Recv.v (objectreceiver.rs, blockdecoder.rs, blockwriter.rs, nocode.rs, rscodec.rs control part, receiver.rs, fdtreceiver.rs)"],
    },
    "C03": {
        "extract": "C09", "driver": "c09",
        "runs": [{"subcmd": "recv", "shards_quick": 4, "shards_thorough": 16, "driver_args": ["c03"]}],
        "rule": "V lines: one whole session per line - a real Sender (No-Code, RS28, RS28-US, RaptorQ, Raptor; E 4..16, B 1..6, parity 0..2; content encodings; in-band / FDT-only FTI and CENC; both publish modes; interleave 1..3; 1..3 objects of 0..3 blocks incl. empty; transfer count 1..2; optional rewriting of the FDT instances to strip FEC-OTI or Transfer-Length attributes as a foreign sender would) produces the genuine packets, a channel transforms them (in order, permutation, subset, duplication, loss+duplication, payload bit flips, payload truncation, late join), a real Receiver with a scripted monitoring writer builder (StoreObject / ObjectAlreadyReceived / Abort per creation, open failing, write failing at call k) consumes them, with cleanup and receiver drop at arbitrary points; each case runs in a worker process with a watchdog (HANG) and an address-space limit. The extracted model is stepped on the parsed packets; per-event result, object counts and per-writer call sequences (consecutive writes merged) are compared. Non-trivial = at least one writer was created and the model did not abstain (FEC reconstruction / inflate oracle undefined); distinct = distinct session lines. Predicate: P_C03_writer: a writer that received complete was written exactly the sender's bytes (genuine payloads, or altered payloads with an announced and checked MD5); never both complete and failed.",
        "level_text": 'Proved for every receiver history: no writer is both completed and failed (C03_never_complete_and_failed_history, from the C09 invariant); no transition after a terminal call, closed objects ignore packets. C03_complete_implies_exact_full is stated and evaluated on every run over permutations, sub-multisets, duplications and payload alterations, not yet proved (partial). Byte-exactness under alteration rests on MD5 (named, not proved).',
        "explanation": "P_C03_writer: a writer that received complete was written exactly the sender's bytes (genuine payloads, or altered payloads with an announced and checked MD5); never both complete and failed.",
        "assumptions": ["FEC reconstruction (Reed-Solomon, RaptorQ, Raptor) is an oracle answered from the session's ground truth; the model abstains where it is undefined",
                        "inflate is an oracle (whole content once all transfer bytes are in); partial inflate output is not compared",
                        "FdtInstance::parse is an oracle (table of flute's own parse results for the session's instances)",
                        "packets are compared after flute's own ALC parser (its correctness is C06's subject)"],
        "trusted_base": ["model: coq/theories/Model/ObjRecv.v, Recv.v (objectreceiver.rs, blockdecoder.rs, blockwriter.rs, nocode.rs, rscodec.rs control part, receiver.rs, fdtreceiver.rs)"],
    },
    "C18": {
        "runs": [{"subcmd": "multi", "shards_quick": 4, "shards_thorough": 16}],
        "parallel": 4,
        "rule": "G lines: EXHAUSTIVE sequences of listen operations through MultiReceiver (filtering on), each followed by a probe "
                "packet for every (endpoint, TSI) of the universe 2 group addresses x source/no-source x 2 TSIs: all 24 operations "
                "(add/remove listen_tsi x 8 pairs, add/remove listen_all_tsi x 4 endpoints) to depth 4 (quick) / 5 (thorough), the 16 "
                "one-TSI operations to depth 5 (quick), the 12 one-group-address operations to depth 6 (thorough), the 8 one-group-"
                "one-TSI operations to depth 6 / 7; non-trivial = some probe accepted and "
                "some rejected. M lines: seeded operation sequences (listen ops, set_tsi_filtering, add/remove listener, cleanup, "
                "synthetic packets incl. close-session and garbage datagrams; a tenth with a 20 ms session time-out and real sleeps) "
                "with time-stamped per-operation observations; non-trivial = a packet processed and a listener event seen. "
                "I lines: 2..4 real sender sessions (equal TSIs on distinct endpoints, distinct TSIs on one endpoint), random and "
                "round-robin merges, ALL merges of the first 5 (quick) / 6 (thorough) packets of two sessions, close-session packets at random points and at EVERY index 0..23 of a schedule, cleanup / "
                "expiry, optional filtering; each run is repeated once per session with only that session's packets and compared; "
                "non-trivial = at least two sessions delivered a complete object. X lines: 50..2000 sessions whose time-outs are "
                "crossed while cleanup() runs (D24). distinct = digest of the input part of the line.",
        "exhaustive_quick": True, "exhaustive_thorough": True,
        "level_text": "Theorems C18_* (generic in the per-session machine): TSI filter = saturating reference counts for every history; a packet is processed iff the filter accepts it; demultiplexing isolation for every interleaving of any number of sessions; a push touches only its own (endpoint,TSI); listeners see exactly one open per session creation and one close per session end (close packet, expiry, drop). Tied to multireceiver.rs/tsifilter.rs by exhaustive listen-operation sequences with probes, interleaved real sessions and real short sleeps for the Instant-based expiry.",
        "explanation": "Theorems C18_* proved for all operation lists / interleavings on the Gallina model of tsifilter.rs and "
                       "multireceiver.rs (generic in the per-session machine); the extracted model replays every harness line "
                       "operation by operation (results, listener notifications, listener ids, filter decisions) and the "
                       "Coq-defined predicates P_C18_filter / _processed / _listener_trace / _isolation / _writer_args are evaluated "
                       "on the implementation's observations. Expiry uses Instant::now() inside flute: the harness sleeps for real "
                       "and the set of expired sessions is taken from the observation, bounded by the measured time stamps.",
        "assumptions": ["models of tsifilter.rs / multireceiver.rs are hand-written; faithfulness established by the correspondence run only",
                        "endpoint strings are modelled as numbers (used for equality/hashing only)",
                        "the per-session Receiver is a parameter of the model; 'writer callbacks carry the session's own endpoint and TSI' "
                        "is proved for the multi-receiver under the explicit hypothesis that a Receiver reports the key it was created "
                        "with, and checked on the real Receiver by P_C18_writer_args",
                        "u64 counters (filter reference counts, listener ids): overflow = panic in the model, excluded for < 2^64 operations",
                        "model of cleanup() is the code after fixes/D24-cleanup-single-expiry-read.patch"],
        "trusted_base": ["model: coq/theories/Model/TsiFilter.v, coq/theories/Model/Multi.v",
                         "spec: coq/theories/Spec/C18Spec.v (saturating counts; (open closed)* words; per-key projections)"],
        "coq_timeout": 1500,
    },
    "C17": {
        "extract": "C09", "driver": "c09",
        "runs": [{"subcmd": "memrecv", "shards_quick": 8, "shards_thorough": 16, "driver_args": ["c17"]}],
        "run_timeout_quick": 900,
        "rule": "V lines (memory scenarios): real sender sessions (No-Code / RS28, 1..6 objects of a few blocks up to 800 blocks) through channels that keep objects "
                "undecodable - no FDT at all with FDT-only OTI (everything cached), FDT arriving late, one symbol of every block lost (blocks accumulate), FDT instances "
                "that never complete (many ids), small cache limits (64 B .. 4 KiB and the default), max_objects_error 0/1/3, object time-outs with real sleeps followed by "
                "cleanup - into a real Receiver; after every event the live heap attributed to the receiver's calls (counting global allocator) is recorded. The model is "
                "stepped on the same events (time-outs as event arguments) and compared as for C09; non-trivial = the model ledger was non-zero at some point.",
        "level_text": "Proved for one object, for every packet/oracle: the size counter of the pre-OTI packet cache is exact and the cached bytes never exceed the cache size by more than one packet (push and FDT attach), flush/complete/error only keep or clear the cache; the failed list is trimmed to max_objects_error. The receiver-level bound C17_bounds_full (P_C17_bounds) is evaluated on the model state after every event, and the measured live heap of the implementation is checked against the model ledger (P_C17_heap) and against a bound from the configuration alone (P_C17_heap_cfg). Partial by nature: bookkeeping proved, bytes measured.",
        "explanation": "P_C17_bounds on the model state, P_C17_heap (heap <= 3 x ledger + 1 KiB x items + 20 kB x decoders + 32 KiB) and P_C17_heap_cfg on the measured heap after every event.",
        "assumptions": ["live heap measured with a counting global allocator around the receiver's calls (monitoring log strings subtracted)",
                        "Instant-based time-outs are event arguments of the model; the harness sleeps for real and mirrors last-activity times",
                        "FEC decoder internals (Reed-Solomon matrices ~13 kB per block) are an allowance of the heap bound, not modelled"],
        "trusted_base": ["model: coq/theories/Model/ObjRecv.v, Recv.v; ledger: coq/theories/Spec/C17Spec.v"],
    },
    "C15": {
        # thorough: the full generator on the dev profile (overflow checks + debug assertions), and the quick-size
        # generator (subcommand toi-light) once more on both profiles (release = overflow checks, no debug assertions)
        "runs": [{"subcmd": "toi", "shards_quick": 4, "shards_thorough": 8, "release": False},
                 {"subcmd": "toi-light", "shards_quick": 0, "shards_thorough": 4}],
        "parallel": 4,
        "rule": "H lines: histories on a real flute Sender (public API) - every sequence of enabled operations {allocate_toi, drop handle i, "
                "add_object without / with handle i (accepted; in a second pass also refused before / after the TOI was taken, and drops on other "
                "threads), start object j, run to idle, remove_object j} up to depth 6 (quick) / 7 (thorough) at the allocator corners "
                "(initial value max-1 and None=random) and one less elsewhere, for each width 16,32,48,64,80,112 x initial values "
                "{1, 0, max-2, max-1, max, None, max+1, max+6, u128::MAX, u128::MAX-1, and for 112 bit 2^127, 2^112+2^40}; seeded random "
                "histories of 6..40 (80) operations incl. references to dead handles/objects; 16-bit histories whose churn (C n = n x "
                "allocate+drop, n around 65535 and 131070) cycles the whole TOI space past live values; short churns across the wrap for the "
                "wider spaces; sender built on one thread, used on a second, dropped on the first (thr=1,2). Observed per operation: value "
                "returned, (object recognised by payload, TOI read by parse_alc_pkt, raw TOI field cut out by the RFC 5651 layout) of every "
                "object packet, TOI attributes of Sender::fdt_xml_data. For None the first observed value is given to the model as the draw. "
                "W lines: push_lct_header on every TOI size-class boundary x TSI class + seeded values -> raw field, parse_lct_header. "
                "Non-trivial: a history with >= 2 allocating operations and >= 1 releasing one (W: TOI > 0xffff); distinct = distinct input lines.",
        "exhaustive_quick": True, "exhaustive_thorough": True,
        "level_text": "Theorems C15_*: for every width, every initial value incl. the random default and every history of allocate / drop / add (with or without handle) / start / finish / remove within capacity, allocated TOIs are non-zero, below 2^width, pairwise distinct among live handles and objects, reusable only after release; the LCT TOI field width selection and the FDT decimal text round-trip every value < 2^112. Tied to toiallocator.rs / fdt.rs / lct.rs by exhaustive operation histories per width and initial value, with the TOI read back from emitted packets and the FDT XML. Thread clause (Send) checked by compilation and a cross-thread run, not proved.",
        "explanation": "Theorems C15_* proved for all configurations (any initial value, any random draw) and all histories within the stated "
                       "capacity precondition on the Gallina model of toiallocator.rs + the TOI owners in fdt.rs/filedesc.rs/sendersession.rs + the TOI field "
                       "width selection of lct.rs + the decimal FDT attribute; the model is tied to the code by running the same histories on the real "
                       "Sender and comparing every observation with the extracted model; P_C15_history / P_C15_wire (Coq-defined monitor, extracted) are "
                       "evaluated on the implementation's observations. The clause 'handles and sender can be moved and used across threads' is checked "
                       "by compilation (assert_send::<Sender>, assert_send::<Box<Toi>> in harness/src/c15.rs) and exercised (thr=1,2; T ops), not proved.",
        "assumptions": ["model of the TOI life cycle is hand-written; faithfulness established by the correspondence run only",
                        "capacity precondition: live TOIs + 2 < 2^width (otherwise the allocation loop of toiallocator.rs has no free value to find)",
                        "Mutex/Arc abstracted: single-threaded semantics of the critical sections; Send/Sync are rustc facts (checked by compilation)",
                        "the model is that of the code with fixes/D14-toi112-mask.patch applied"],
        "trusted_base": ["model: coq/theories/Model/Toi.v (alloc_new, allocate, release, step/run over operations, toi_field_bytes, to_decimal)",
                         "spec monitor: coq/theories/Spec/C15Spec.v (mon_step, fresh_ok, field_ok, fdt_ok)",
                         "harness protocol: an object is recognised on the wire by its payload marker; 'run to idle' ends every started transfer"],
    },
    "C06": {
        "runs": [{"subcmd": "wire", "shards_quick": 4, "shards_thorough": 8}],
        "rule": "BL lines: push_lct_header over the exhaustive grid of width classes flute can select (CCI 0..8 x TSI 0..3 x TOI 0..7 "
                "16-bit groups) x close flags x PSI, boundary/seeded values inside each class, plus out-of-range TSI/TOI. "
                "NT lines: system_time_to_ntp/ntp_to_system_time on instants 1970..NTP era end (boundaries, any nanosecond), plus before "
                "the epoch and after the era. BP lines: new_alc_pkt for 6 FEC schemes x {FDT, 16-bit TOI, wide TOI} x all 128 "
                "combinations of (inband FTI, inband CENC, SCT, close, profile, CENC value), FTI/payload-id values at the scheme's "
                "boundaries (L up to 2^48-1 / 2^40-1, E, B, max_n, Z, N, Al, SBN/ESI ranges), plus values outside the ranges. "
                "R lines: packets produced by the extracted Gallina RFC ENCODER (ocaml/build/c06_driver --encode) for all 64 (C,S,O,H) "
                "classes x all 64 subsets of {EXT_FDT, EXT_CENC, EXT_TIME, EXT_FTI, unknown short, unknown long (HEL up to 255)} x 8 "
                "codepoints (6 supported, 2 unknown; rotating in the quick tier, full product in the thorough tier), versions 1/2, "
                "PSI/reserved bits set, values narrower than their fields, extensions in random order, fed to parse_alc_pkt / "
                "parse_payload_id / get_sender_current_time. M lines: byte mutations of valid packets (model correspondence incl. "
                "panics). A case is non-trivial when it lies inside the property's ranges (BP: build_in_range; R: wf_pkt && "
                "parse_demand; BL: a non-minimal width class; M: the mutated packet still parses); distinct = distinct input lines.",
        "exhaustive_quick": True, "exhaustive_thorough": True,
        "level_text": "Theorems C06_* (28, closed): push_lct_header / parse_lct_header / get_ext, EXT_FDT / EXT_CENC / EXT_TIME with the NTP conversion, the EXT_FTI and FEC payload-ID codecs of the six schemes and whole packets (new_alc_pkt / parse_alc_pkt) are proved equal to RFC layout tables interpreted by a generic pack/unpack (an independent Gallina RFC encoder and decoder), round-trip, and accept every RFC-conformant header incl. unknown / long extensions; tied to lct.rs / alc.rs / alccodec by build (flute bytes vs RFC decoder) and parse (RFC encoder bytes into flute) runs over all width classes. Recorded finding D32: Raptor EXT_FTI layout.",
        "explanation": "Theorems C06_* (Properties/C06.v) are proved for all inputs on Gallina models of lct.rs, alc.rs, alccodec/*.rs and "
                       "tools/mod.rs against RFC layout figures interpreted by a generic pack/unpack (Spec/C06Spec.v, which uses no "
                       "function of the model). Build direction: the bytes the real code produces must equal the model's bytes and "
                       "must be decoded by the extracted RFC decoder to the input's values (P_C06_build/P_C06_lct/P_C06_ntp). Parse "
                       "direction: the extracted RFC encoder produces the bytes, flute's parser must return the packet's values "
                       "(P_C06_parse) and agree with the model's parser.",
        "assumptions": ["models of lct.rs/alc.rs/alccodec/*.rs/tools/mod.rs are hand-written; faithfulness established by the correspondence run only",
                        "RFC figures (5651, 5775, 6726, 5445, 5510, 6330, 5053) transcribed by hand into Spec/C06Spec.v; RFC 5053 3.2.2 "
                        "(48-bit transfer length, 16 reserved bits, no padding) transcribed from memory, no copy of the RFC on this machine",
                        "D03 and D21 are fixed in /repo (58e0404, 56a937d); the unfixed variants are kept in the model and refuted (C06_D03/D21_*_refuted_unfixed)", "D32 (Raptor, FEC id 1, EXT_FTI uses the RFC 6330 figure) is a recorded finding: the model mirrors the code as it is, the theorems C06_spec_*_holds / C06_new_alc_pkt_is_rfc / C06_alc_pkt_roundtrip exclude exactly the class Known_D32 (packet carries an EXT_FTI of FEC id 1), the driver reports predicate failures in that class as KNOWN D32"],
        "trusted_base": ["model: coq/theories/Model/{Bytes,AlcTypes,Lct,Ntp,Alc}.v",
                         "RFC side: coq/theories/Spec/C06Spec.v (layout figures, rfc_alc_encode, rfc_alc_decode, P_C06_*)",
                         "the harness obtains RFC-encoded packets by running ocaml/build/c06_driver --encode (extracted rfc_alc_encode)"],
    },
    "C01": {
        "extract": "C09", "driver": "c09",
        "runs": [{"subcmd": "session", "shards_quick": 8, "shards_thorough": 16, "driver_args": ["c01"]}],
        "run_timeout_quick": 900,
        "rule": 'V lines (clean channel): one real sender -> receiver session per line with every emitted packet pushed in order into a receiver whose writers always store: {No-Code, RS28, RS28-US, RaptorQ, Raptor} x E {4,8,16,64} x B x parity x cenc {null,zlib,deflate,gzip} x in-band/FDT-only FTI and CENC x {FullFDT, ObjectsBeingTransferred} x interleave 1..4 x multiplex 0..3 over one or two priority queues x 1..4 objects (sizes 0, 1, E-1, E, E+1, E*B, E*B+1, several unequal blocks, at and above 255 blocks) x transfer count 1..3 x receive-once on/off x buffer/stream/file sources x metadata variants (content types with non-ASCII and XML-special characters, groups, ETag, cache directives, session groups). Non-trivial = at least one writer was created; distinct = distinct session lines.',
        "level_text": "Evaluated on every run by P_C01_object over real sessions and tied to the sender/receiver models op by op; proved: the sender emits every encoding symbol of every block once and in order and ends normally (C08), stream/file sources equal the buffer source (C20), the No-Code decoder keeps the first copy of a symbol and a completed block is the concatenation of its stored symbols. The composition theorem C01_clean_channel_full is stated, not proved (partial). The filesystem-writer clause is covered by C05's P_C05_complete_stored.",
        "explanation": "P_C01_object on every accepted object (exactly the expected number of complete copies, each byte-exact with the metadata the sender was given, no failed writer), add_object refusals compared with the model of FileDesc::new (transfer length above the scheme's maximum, unencodable blocks); recorded classes D20 and D35.",
        "assumptions": ["FEC reconstruction, inflate and FdtInstance::parse are oracles answered from the session's ground truth",
                        "packets are compared after flute's own ALC parser (C06)", "the composition theorem sender model -> channel -> receiver model is stated, not proved"],
        "trusted_base": ["models: coq/theories/Model/ObjRecv.v, Recv.v, BlockEnc.v, SenderCtl.v; predicates: coq/theories/Spec/SessionSpec.v"],
    },
    "C02": {
        "extract": "C09", "driver": "c09",
        "runs": [{"subcmd": "loss", "shards_quick": 8, "shards_thorough": 16, "driver_args": ["c02"]}],
        "run_timeout_quick": 900,
        "rule": 'V lines (order-preserving loss/duplication): every subset (bit mask) of the first 11 (quick) / 13 (thorough) packets of small sessions per scheme {No-Code, RS28, RS28-US, RaptorQ} x 4 shapes (blocks of equal and unequal sizes, interleave 1..2, in-band/FDT-only OTI, transfer count 1..2), plus seeded random loss, loss+duplication and duplication of larger sessions over all five schemes, cenc, signalling modes, publish modes, interleave 1..4, transfer count 1..3. Non-trivial = the recoverability premise held for at least one object; distinct = distinct session lines.',
        "level_text": 'Evaluated on every run; proved: a block reassembles iff all its source symbols are stored (concat_src_spec), duplicates never change what is stored, completed/failed objects ignore further packets. C02_recoverable_delivers_full is stated, not proved (partial). Stated premises: writers succeed, no drop/cleanup in between, genuine FDT, default cache limit.',
        "explanation": 'P_C02_object: whenever blocks_recoverable (k distinct symbols per block for Reed-Solomon, all k source symbols otherwise) and a complete FDT instance listing the object arrived, some writer of the object is completed byte-exact.',
        "assumptions": ["FEC reconstruction, inflate and FdtInstance::parse are oracles answered from the session's ground truth",
                        "packets are compared after flute's own ALC parser (C06)", "the composition theorem sender model -> channel -> receiver model is stated, not proved"],
        "trusted_base": ["models: coq/theories/Model/ObjRecv.v, Recv.v, BlockEnc.v, SenderCtl.v; predicates: coq/theories/Spec/SessionSpec.v"],
    },
    "C16": {
        "extract": "C09", "driver": "c09",
        "runs": [{"subcmd": "carousel", "shards_quick": 8, "shards_thorough": 16, "driver_args": ["c16"]}],
        "run_timeout_quick": 900,
        "rule": 'V lines (late join): carousel sessions (object carousel delay 0 / 50 ms / interval 100 ms, FDT carousel 0/40/100 ms, 1..3 objects, all five schemes, in-band / FDT-only OTI and CENC, both publish modes) read for several cycles under a virtual clock; the receiver joins at every packet offset 0..49 (quick) / 0..79 (thorough) of the stream and receives the rest without loss. Non-trivial = the premise (all source symbols and a complete FDT instance in the suffix) held; distinct = distinct (session, offset) lines.',
        "level_text": 'Evaluated on every run for every join offset; proved: a carousel object is never finished (queued again after each transfer), completed objects ignore packets, a block completes exactly when all its source symbols are stored whatever the order across cycles. C16_late_join_delivers_full is stated, not proved (partial).',
        "explanation": 'P_C02_object with the premise computed on the suffix: every carouselled object is completed byte-exact.',
        "assumptions": ["FEC reconstruction, inflate and FdtInstance::parse are oracles answered from the session's ground truth",
                        "packets are compared after flute's own ALC parser (C06)", "the composition theorem sender model -> channel -> receiver model is stated, not proved"],
        "trusted_base": ["models: coq/theories/Model/ObjRecv.v, Recv.v, BlockEnc.v, SenderCtl.v; predicates: coq/theories/Spec/SessionSpec.v"],
    },
    "C19": {
        "runs": [{"subcmd": "expiry", "shards_quick": 2, "shards_thorough": 8}],
        "rule": "S lines: real Sender->Receiver sessions under VIRTUAL clocks (the `now` arguments of Sender::publish/read and "
                "Receiver::push_data/cleanup): grid over FDT duration {5 s..1 day} x margin of the estimate around the expiry "
                "instant {+-2.001 s .. +-1 h; the +-2 s band excluded} x objects before/after the FDT x SCT on/off x expiry check "
                "on/off x receiver clock skew {0, +-1 s, +-1 h, +-1 y, +-30 y (+ more in thorough)}, random sub-second publication "
                "phase, transit delay, cleanup after every push or never, FDT of one or several packets, 1-2 objects, refreshed "
                "instances delivered or dropped; every session is run twice (with the skew and with skew 0). R lines: seeded scripts of "
                "hand-built packets fed to Receiver: 1-12 FDT instances (hand-written XML; Expires malformed / out of u32 / pre-1970 / "
                "missing in ~25%), 1-4 symbols per instance, SCT uniform or mixed per instance, re-receptions, receive-once on/off, "
                "objects of two symbols before/after/between instances, cleanup, clocks jumping backwards, receiver clocks at the edge "
                "of chrono's range (panic expected exactly there); every script is run twice (receiver times shifted by +-1 s..+-40 y). "
                "N/M lines: tools::system_time_to_ntp / ntp_to_system_time on boundary and random values. A case is non-trivial when "
                "its stream contains at least one FDT packet with usable content and at least one object packet (N/M: always); "
                "distinct = distinct input lines (digest of the input part).",
        "exhaustive_quick": False, "exhaustive_thorough": False,
        "level_text": "Theorems C19_* (16, closed): the (late flag, magnitude) offset equals the signed difference; with SCT present the expiry decision and the whole run are invariant under every receiver clock shift; without SCT the receiver's own clock is used; with the check disabled expiry is ignored; by induction over all event lists every writer is opened only through an instance unexpired by the estimate at that instant, and an object announced only by expired instances gets no callback at all. Tied to fdtreceiver.rs / receiver.rs / tools by scripted FDT/object streams and real sessions under virtual sender and receiver clocks with skews up to +-30 years.",
        "explanation": "Theorems C19_* proved for all event streams (induction over event lists), all receiver clock offsets d : Z and "
                       "all session parameters on the Gallina model of fdtreceiver.rs / receiver.rs / tools/mod.rs. The model is tied to "
                       "the code by feeding the same packets to the real Receiver (monitoring ObjectWriterBuilder) and comparing the "
                       "writer callbacks per event with the extracted model; the event stream is recovered from the bytes on the wire "
                       "(SCT by an independent RFC 5651 header walk). P_C19_sound / P_C19_silent / P_C19_same / P_C19_session "
                       "(Coq-defined, extracted) are evaluated on the implementation's callbacks.",
        "assumptions": ["model of fdtreceiver.rs / receiver.rs / tools/mod.rs is hand-written; faithfulness established by the correspondence run only",
                        "the data path of an object is an oracle: the instant an object completes / fails is an event (EvObjEnd) taken from the observed callbacks",
                        "the XML parser is an oracle: (Expires string, TOI list) of an instance is read from the XML text by the harness",
                        "writer opened = attach succeeded: holds when the FDT carries the FEC-OTI of the object (always for flute's sender)",
                        "max_objects_error = 0 (default) and object_timeout = None in the harness; the Instant-based object time-out is the model event EvObjEnd _ Fail, not exercised by the harness",
                        "SystemTime modelled as i64 seconds + nanoseconds (Linux); chrono range = DateTime::<Utc>::MIN_UTC..MAX_UTC of chrono 0.4",
                        "P_C19_sound / P_C19_silent are evaluated only on streams whose instances are uniform in SCT presence (what one fdt_inband_sct setting produces); mixed streams are compared with the model only"],
        "trusted_base": ["model: coq/theories/Model/Expiry.v (system_time_to_ntp, ntp_to_system_time, parse_u32, fdt_push, update_expired_state, push_fdt, push_obj, obj_end, cleanup, run)",
                         "spec: coq/theories/Spec/C19Spec.v (estimate, pkt_justifies, P_C19_sound, P_C19_silent, P_C19_same, P_C19_session, session_events)"],
    },
    "C10": {
        "extract": "C10", "driver": "c10",
        "runs": [{"subcmd": "fdt", "shards_quick": 4, "shards_thorough": 16}],
        "parallel": 8,
        "rule": "F lines: one whole scenario per line - the real Sender (session OTI No-Code / RS28 / RS28-US / RaptorQ / Raptor, FDT "
                "content encodings null/zlib/deflate/gzip, both FDT publish modes, FDT durations 1 s .. 3 days incl. 2.5 s and 10.5 s, FDT "
                "start id 0, 1, 77, 2^20-2, 2^20-1 and random, instance-level groups, multiplex_files 0..3) driven by seeded operation "
                "scripts add / publish / remove / set_complete / read / read-until-idle under a virtual clock with fine and coarse steps "
                "(crossing the FDT expiry); objects of 0..3 symbols with adversarial Content-Type / ETag / group strings (quotes, &, <, >, "
                "entity-like text, ]]>, non-ASCII up to 4-byte UTF-8, leading/trailing blanks, empty, 200..3000 bytes long; thorough up to "
                "20000; 2% of the scenarios with a TAB/LF/CR = class D32), Content-Locations given as URL strings that the url crate "
                "normalises (3% unparsable), content encodings, MD5 on/off, per-object OTI (No-Code, RS28, RS28-US, RaptorQ, Raptor; "
                "in-band FTI on/off), Cache-Control none / no-cache / max-stale / Expires(duration) / ExpiresAt(instant), max_transfer_count "
                "1..2, carousel; plus, in shard 0, the grid {FullFDT, being-transferred} x start id {0, 1, 2^20-2, 2^20-1} x duration "
                "{1, 5, 10, 12, 31, 3600 s} polled across the expiry (id wrap, republication). Observed per operation: result, objects in the "
                "FDT with transfer counters, observer events, Sender::fdt_xml_data (+ flute's own parse of it), every FDT instance "
                "reassembled from the source symbols of the TOI-0 packets; a flute Receiver fed with every packet reports the instances and "
                "the per-object metadata its writer builder receives. The extracted control model is stepped on the same script and "
                "compared op by op; every XML document is parsed by the extracted reference parser, compared with the model's abstract "
                "instance (files in any order) and judged by P_C10_wellformed / P_C10_instance; flute's parse by P_C10_content; receiver "
                "metadata by P_C10_meta; ids by P_C10_ids / P_C10_window; each republication by P_C10_superseded (class D22). "
                "Non-trivial = at least 2 documents checked, at least one listing a file, at least one packet sent; distinct = distinct "
                "scenario lines.",
        "level_text": "Theorems C10_*: the reference XML parser reads back every abstract instance from its reference printing for ALL byte strings (and from flute's escaping whenever no string has a control byte); for every configuration, instant and accepted object descriptions the document the model emits is read as exactly what the sender was given (TOI, location, lengths, type, encoding, MD5, OTI in use incl. Raptor/RaptorQ Z, cache directive, ETag, groups, Expires, Complete, FullFDT); Expires = NTP seconds of the publication + validity; a publication lists exactly the FDT's objects (FullFDT) / those in transmission; for EVERY operation history the FDT = added - removed - finished; the k-th publication carries (start+k) mod 2^20 for any start < 2^20 and ids differ within any window of 2^20 publications; outside class D22 (poll gap + sub-second parts >= margin 5 s/1 s/0) the poll that republishes is strictly before the expiry instant, the test fires at the latest after the validity, and the firing poll creates the successor; flute's receiver (model of get_oti / cache control / attach_fdt / create_meta, base64 decoder proved inverse to the encoder) reading the emitted instance hands the writer builder the metadata the sender was given. Tied to the code by op-by-op differential runs of the real Sender and by parsing every emitted instance with the extracted reference parser.",
        "explanation": "Theorems C10_* are proved for all byte strings / configurations / operation histories on the Gallina models of "
                       "the FDT instance content (Model/FdtInst.v: fdt.rs get_fdt_instance, filedesc.rs to_file_xml + FileDesc::new OTI, "
                       "objectdesc.rs cache control, oti.rs attributes; code with fixes/D18 and fixes/D31) and of the sender control plane "
                       "(Model/SenderCtl.v), with the reference XML printer/parser of Model/Xml.v as the independent parser. The check ties "
                       "them to the code: same operation scripts on the real Sender, every emitted XML document (fdt_xml_data, TOI-0 "
                       "reassembly, receiver side) parsed by the extracted reference parser and compared with the model's abstract instance; "
                       "the Coq-defined predicates P_C10_* are evaluated on the implementation's documents, on flute's own parse result and "
                       "on the metadata flute's receiver hands to the writer builder.",
        "assumptions": ["quick-xml's serializer is not modelled: the XML flute emits is validated instance by instance by the verified reference parser",
                        "reference parser: XML 1.0 subset without DOCTYPE/CDATA, names matched by local name (namespace URIs not resolved), "
                        "character references to any code point < 0x110000 accepted, ']]>' in text accepted; UTF-8 validity checked separately (utf8_ok)",
                        "url::Url normalisation of Content-Location is outside: compared is content_location.to_string() of the Url the sender was given",
                        "MD5 / compressed length of an object are inputs (read from the ObjectDesc before it is added)",
                        "FileDesc::new acceptance beyond the Raptor/RaptorQ block-count limits is an oracle (C01/C08)",
                        "control model: block encoder abstracted to a packet counter (C08), TOIs distinct (C15), FDT packet count per instance from its FTI",
                        "publication instants between 1970 and 2036 (NTP era 0)",
                        "model of to_file_xml / get_fdt_instance is the code with fixes/D18-per-object-groups.patch and fixes/D31-raptor-per-file-oti.patch applied"],
        "trusted_base": ["model: coq/theories/Model/Xml.v (reference printer/parser), Model/FdtInst.v, Model/FdtRecv.v (receiver-side extraction, compared with the real receiver's ObjectMetadata on every object), Model/SenderCtl.v",
                         "spec: coq/theories/Spec/C10Spec.v (parse_dec, eff_oti, spec_nb_blocks, P_C10_*)"],
        "coq_timeout": 1500,
    },
    "C04": {
        "extract": "C04", "driver": "c04",
        "runs": [{"subcmd": "fuzzrecv", "shards_quick": 12, "shards_thorough": 16}],
        "run_timeout_quick": 900, "run_timeout_thorough": 3000,
        "rule": "Every case pushes a sequence of datagrams into a real Receiver AND a real MultiReceiver (default limits), calls cleanup, then pushes a valid "
                "3-object session on a fresh TOI range (70000..) and fresh FDT instance ids (5000..) that must be delivered byte-exact, then drops the receiver; "
                "each case runs in a worker process with a watchdog (20 s per case, 240 s per 256-case batch: HANG) and a 1 GiB address-space limit (CRASH); panics are "
                "caught per call and located (file:line). B lines: every byte string of length 0,1,2 (and 3 with first byte 0x10/0x20 in quick; all 16.8 M of length 3 in "
                "thorough), 256 per line. Y lines: every single-byte substitution (256 values) of every byte of the header region (LCT header, extensions, FEC payload id) of "
                "every packet of a corpus of genuine sessions (quick 8, thorough 48: No-Code, RS28, RS28-US, RaptorQ, Raptor x in-band / FDT-only FTI x full / being-"
                "transferred FDT x cenc null/zlib/deflate/gzip), one fresh receiver pair per value. Z lines: seeded field-aware mutation sequences (1..6 mutations) of whole "
                "sessions: bit flips, interesting values, LCT word fields (version, C, PSI, S, O, H, A, B, HDR_LEN, codepoint), TOI, EXT_FTI contents per scheme with hostile "
                "values (L, E, B, max_n<B, Z, N, Al, m>=32), HEL/HET, EXT_FDT/EXT_CENC/EXT_TIME contents and lengths, inserted extensions, payload-id fields, truncation, "
                "symbol shortened/emptied/lengthened, extension, splicing of two packets, codepoint/FTI confusion, duplication, reordering, drops, crafted objects (any scheme "
                "incl. GF(2^m), symbol sizes 0..E+1, SBN/ESI out of range), FDT XML rewriting (FEC-OTI-*, lengths, TOI, Expires, encodings; removal, duplication, truncation, "
                "byte noise) re-packetised with flute's own builder. G lines: explicit sequences (corpus, minimised failures). The extracted checked parser model is recomputed "
                "on every distinct datagram (Ok/Err of parse_alc_pkt, get_sender_current_time, parse_payload_id) and the reject path of push_data/push is compared with it. "
                "Non-trivial = at least one datagram that is not a genuine packet was pushed; distinct = distinct input lines.",
        "exhaustive_quick": True, "exhaustive_thorough": True,
        "level_text": "Proved for ALL byte strings: the checked model of the repaired parser (every index, slice, subtraction, division, shift checked) returns Ok or Err "
                      "(parse_alc_pkt, get_sender_current_time, parse_payload_id with any OTI); the repairs D1 D2 D4 change only the panics. Proved for ALL histories of the "
                      "receiver model (any packets, clean-ups, drop; any answers of writers, FEC decoders, inflate, MD5, XML parser within the stated ranges): the panic flag "
                      "never rises (recv_step_total, also on raw byte sequences through push_data), a refused datagram leaves state, writer log and flag unchanged "
                      "(reject_leaves_state). Block level: the FEC decoders are consulted only inside their preconditions. Time, heap and the delivery of the follow-up "
                      "session are measured on the implementation on every run, not proved.",
        "explanation": "P_C04_parse on every datagram's parse outcome; P_C04_case = every call returned Ok/Err (no PANIC / HANG / CRASH), follow-up session delivered byte-exact "
                       "unless its own TOIs / FDT ids were used, residual heap <= 1 MiB + 1.5 MiB x datagrams + 4 x bytes, every call <= 5 s; model/implementation agreement on "
                       "the three parser functions and on the reject path.",
        "assumptions": ["external crates (raptorq, raptor-code, reed-solomon-erasure, flate2, quick-xml, md5) are oracles of the receiver model: their answers are arbitrary in the theorems, their internals are exercised by the harness only",
                        "FDT Transfer-Length values within 65535 of 2^64 are outside the range premise of C04_recv_step_total (see Properties/C04.v)",
                        "real time and live heap are measured (watchdog, RLIMIT_AS, counting allocator), not modelled; the allocation ledger is C17's",
                        "MultiReceiver is exercised by the harness; the theorems are about Receiver::push_data (the TSI demultiplexer is C18's model)"],
        "trusted_base": ["model: coq/theories/Model/AlcFixed.v (lct.rs, alc.rs, alccodec/*.rs parse side, checked), Model/ObjRecv.v, Recv.v, RecvBytes.v (push_data)",
                         "spec: coq/theories/Spec/C04Spec.v"],
    },
}


# ---- level texts revised after the history-level theorems were proved (kept here so that the table above stays untouched) ----
CHECKS['C11']["level_text"] = 'Proved (Qed, closed) for EVERY operation history of the sender model whose accepted add_object operations describe user objects: no object packet precedes all packets of one FDT instance listing its TOI and none interrupts an instance (C11_announce_before_send: both publish modes when publish succeeds; C11_announce_before_send_failing_publish_fullfdt: FullFDT mode with an arbitrary failing-publish oracle). The unrestricted statement is refuted by a model artefact (an added object carrying an FDT id), and ObjectsBeingTransferred mode with a failing publish is refuted (Example C11_failing_publish_objects_mode_refuted) - replayed on the sender and recorded as finding D27. Building blocks: file session silent while an FDT is queued; unpublished never started; read serves the FDT first. Correspondence: the Gallina model of filedesc.rs/fdt.rs/sendersession.rs/sender.rs agrees with the implementation op by op on every generated scenario, including Raptor sessions whose publish fails by size.'
CHECKS['C17']["level_text"] = 'Proved (Qed, closed) for EVERY receiver history whose pushed object datagrams are at most maxpkt bytes and whose announced blocks are at most maxblk bytes (C17_inputs_bounded; each part of the premise shown necessary by a refuting Example): after every event P_C17_bounds holds - per object the pre-OTI packet cache stays within the cache size plus one packet and allocated blocks within it plus two blocks, the failed list within max_objects_error, the current FDT list within its length (C17_bounds_full, C17_bounds_every_state; object-level C17_object_push). Evaluated on the model state after every event of every run; the measured live heap of the implementation is checked against the model ledger (P_C17_heap) and a configuration-only bound (P_C17_heap_cfg); P_C17_cleanup_releases: after the time-outs a cleanup leaves at most the objects whose own last packet is recent (idle times bracketed by clock readings around the calls). Partial by nature: bookkeeping proved, bytes and seconds measured.'
CHECKS['C08']["level_text"] = "Proved for every block list, window and reachable state: an uninterrupted transfer emits each block's encoding symbols exactly once, in order, ends without panic, and carries the close flag on its last packet only (iff last transfer); a forced read closes and silences the encoder; an empty object is the lone close packet. The full statement C08_transfer_full is proved (Proofs/C08Full.v): for every accepted configuration, content, FEC oracle and window, the packets of an uninterrupted transfer satisfy P_C08_transfer - every source symbol exactly once with the E-byte slice of the content at its RFC 5052 offset (last symbol short or padded as the scheme says), SBN/K headers of its block, at most the configured repair symbols per block, close flag on the last packet only. The same predicate is evaluated on the packets of the implementation on every run. Known finding D30 (Raptor symbol cutting by the raptor-code crate) is recorded."
CHECKS['C02']["level_text"] = 'Proved (Qed, closed) at object level for the No-Code scheme without content encoding (C02_nocode_recoverable_delivers, Proofs/C02Full.v): a fresh object receiver with the FDT entry attached, fed ANY list of genuine packets in any order with any duplication such that every source symbol of every block occurs at least once, ends Completed with the writer having received open, writes concatenating to the content, one complete - under explicit premises each shown necessary by an Example (object within max_size_allocated, at most 4097 blocks ahead, a close-object flag only once the reception is recoverable, non-empty object, writer accepts). Also: a block reassembles iff all its source symbols are stored, duplicates never change what is stored, closed objects ignore packets. The other schemes, content encodings and the session level are evaluated on every run (P_C02_object over every subset/duplication of real sessions), not proved - partial. For an empty object the premise is read as: its packet arrives.'
CHECKS['C03']["level_text"] = 'Proved for every receiver history: no writer is both completed and failed (C03_never_complete_and_failed_history, from the C09 invariant). Proved at object level for No-Code without content encoding (C03_nocode_complete_implies_exact): for ANY list of genuine packets (any order, subset, multiplicity, close flags), whatever write() and the MD5 check answer, the bytes written are always a prefix of the content and a writer is completed only if it was written exactly the content. Other schemes, content encodings and altered payloads (guarded by MD5, named assumption) are evaluated on every run over permutations, sub-multisets, duplications and payload alterations - partial.'
CHECKS['C13']["level_text"] = 'Proved (Qed, closed) for EVERY operation history of the sender model with strictly ascending queue keys (a BTreeMap in the code) and no add_object under the TOI of an object still queued or in a slot (what the TOI allocator guarantees; both premises shown necessary by refuting Examples): whenever a read returns an object packet of priority p no queue of smaller key was ready in the state before the read (C13_strict_priority, via an invariant established by init_st and preserved by every op); the start/stop events of every read of the model satisfy the event predicate evaluated on the implementation - FIFO admission within a queue and at most max(1, multiplex_files) objects of a queue in transmission (C13_events_read, C13_events_reachable); first queue with a packet wins; slots per queue constant; FIFO admission of get_next_file_transfer; window refill order (interleave). The unrestricted statement is refuted (C13_strict_priority_full_refuted: TOI reuse confuses the TOI-to-priority lookup of the predicate, not the scheduling). Correspondence: the Gallina model agrees with the implementation op by op on every generated scenario; P_C13_priority and P_C13_events are evaluated on the packets and events of the implementation on every run.'
CHECKS['C14']["level_text"] = 'Proved (Qed, closed) for EVERY operation history of the sender model with pairwise distinct TOIs of accepted adds and non-decreasing read instants (both premises shown necessary by refuting Examples; the unrestricted statement is refuted): every object packet is emitted at or after the start time of its object, at or after transfer start + i x tick for the i-th packet of a paced transfer, and a carousel transfer begins only after the configured delay/interval - outside the recorded class D23 (C14_timing). Building blocks: eligibility implies start time reached and carousel gap elapsed; every emitted packet passed the pacing gate; starting a transfer is total. With a clock that goes back, a packet can precede the start time (nothing re-checks it after the first packet): callers must pass non-decreasing instants. Known finding D23 (carousel with max_transfer_count >= 2). Correspondence: the Gallina model agrees with the implementation op by op on every generated scenario; P_C14_* are evaluated on the implementation on every run.'
CHECKS['C01']["level_text"] = 'Proved (Qed, closed) at object level for the No-Code scheme, by composing the sender theorem C08_transfer_full with the receiver theorem C02_nocode_recoverable_delivers through the wire bridge to_apkt (Proofs/C01Full.v): for every accepted No-Code configuration (E < 65536, blocks of at most 65536 symbols, window >= 1), every non-empty content and the stated environment premises (writer accepts, writes succeed, MD5 absent or matching, object within max_size_allocated, at most 4097 blocks), feeding ALL packets the sender model emits for one transfer, in order, into a fresh object receiver with the FDT entry attached yields Completed and a writer that received open, writes concatenating to the content, one complete (C01_clean_channel_nocode; also after any earlier genuine packets). The proof attempt exposed D39 (16-bit ESI wrap for blocks above 65536 symbols: replayed, fixed). Other schemes, content encodings, metadata, several objects, receive-once and the FDT transport are evaluated on every run by P_C01_object over real sender->receiver sessions tied to both models op by op - partial in that respect. Also proved: the sender emits every encoding symbol once in order (C08), stream/file sources equal the buffer source (C20), first copy wins, a completed block is the concatenation of its symbols. Findings D20, D35 recorded. The filesystem-writer clause is covered by C05.'
CHECKS['C16']["level_text"] = "Proved (Qed, closed) at object level for the No-Code scheme (Proofs/C01Full.v): for every accepted configuration and non-empty content, a receiver that sees any suffix of one carousel transfer followed by one whole further transfer (skipn j pkts ++ pkts, every j) - more generally any list of genuine packets without close flag that contains one whole transfer - delivers the object complete and byte-exact (C16_late_join_delivers_nocode, C16_any_superset_of_a_cycle_delivers_nocode); a carousel object is never finished (queued again after each transfer); completed objects ignore packets. Other schemes, the FDT transport (mid-FDT joins) and several objects are evaluated on every run for every join offset of real carousel sessions (P_C16_object), incl. empty objects (D37 found there by a seeded-change agent's remark, fixed) - partial in that respect."
CHECKS['C12']["level_text"] = "Proved (Qed, closed) for EVERY operation history of the sender model whose accepted adds have pairwise distinct TOIs and max_transfer_count >= 1 or a carousel (the domain of the property; both halves shown necessary by refuting Examples): P_C12_wire holds of the trace - no packet of an object never added, a non-carousel object puts at most max_transfer_count x max(1, npk) packets on the wire, after a successful remove at most the remainder of the current transfer (or one packet, carrying the close flag, when the object may be stopped at once) (C12_lifecycle_full); and the transfer counter reported for every listed object is within one of the whole transfers seen on the wire and below max for non-carousel objects, after every operation (C12_counter_full). Building blocks: a transfer is exactly its packets with the flag last iff last transfer; forced read once; counters; expiry decision. Not formalised: the 'finitely many packets at a fixed instant' sentence (checked on every run: the q operation reads until nothing, bounded by a watchdog). Correspondence: the Gallina model agrees with the implementation op by op on every generated scenario."
CHECKS['C02']["level_text"] = 'Proved (Qed, closed) at object level (Proofs/C02Full.v, C02RS.v): a fresh object receiver with the FDT entry attached, fed ANY list of genuine packets in any order with any duplication, ends Completed with the writer having received open, writes concatenating to the content, one complete - for No-Code when every source symbol occurs (C02_nocode_recoverable_delivers), for Reed-Solomon GF(2^8) (FEC 5 and 129) when every block has k distinct symbols, under the explicit oracle hypothesis rs_oracle_mds (the decoder returns the block given >= k genuine shards; part of the trusted base, shown necessary by rs_wrong_decoder_corrupts), and for RaptorQ/Raptor when all source symbols arrive (oracle hypotheses fq_oracle_sound/complete). Premises each shown necessary by an Example: object within max_size_allocated (k x E accounting for FEC 129), at most 4097 blocks ahead, a close-object flag only once the reception is recoverable, non-empty object, writer accepts. Content encodings and the session level (FDT transport, several objects) are evaluated on every run (P_C02_object over every subset/duplication of real sessions), not proved - partial. For an empty object the premise is read as: its packet arrives.'
CHECKS['C03']["level_text"] = 'Proved for every receiver history: no writer is both completed and failed (C03_never_complete_and_failed_history, from the C09 invariant). Proved at object level (C03_nocode_complete_implies_exact; Reed-Solomon and RaptorQ/Raptor under the oracle soundness hypotheses rs_oracle_sound / fq_oracle_sound): for ANY list of genuine packets (any order, subset, multiplicity, close flags), whatever write() and the MD5 check answer, the bytes written are always a prefix of the content and a writer is completed only if it was written exactly the content. Content encodings and altered payloads (guarded by MD5, named assumption) are evaluated on every run over permutations, sub-multisets, duplications and payload alterations - partial.'
CHECKS['C01']["level_text"] = "Proved (Qed, closed) for the No-Code scheme. Object level (C01_clean_channel_nocode, Proofs/C01Full.v, C01Esi.v): all packets the sender model emits for one transfer, through the wire bridge, into a fresh object receiver with the FDT entry attached yield Completed and a writer that received open, writes concatenating to the content, one complete. SESSION level (C01_session_clean_channel_nocode, Proofs/C01Session.v): the FDT instance the sender model prints (C10's XML printer) in one packet, read by the receiver through the reference XML parser and flute's extraction (fdt_oracle), followed by the wire packets of one transfer, pushed through recv_run from the initial state, ends with the object's writer having received open, writes = content, complete, AND the metadata handed to the writer builder equal to what the sender was given in all ten ObjectMetadata fields (location, lengths, type, cache directive, groups, MD5, OTI, cenc, ETag) - premises: accepted non-empty No-Code object, one-packet FDT, cooperative writer, FDT not expired on arrival (shown necessary). The proofs exposed D39 (ESI wrap above 65536 symbols; fixed). Other schemes, content encodings, several objects, multi-packet FDTs and receive-once are evaluated on every run by P_C01_object over real sender->receiver sessions tied to both models op by op - partial in that respect. Findings D20, D35 recorded. The filesystem-writer clause is covered by C05."
CHECKS['C16']["level_text"] = 'Proved (Qed, closed) for the No-Code scheme. Object level (Proofs/C01Full.v): any suffix of one carousel transfer followed by one whole further transfer, more generally any list of genuine packets without close flag containing one whole transfer, is delivered complete and byte-exact. SESSION level (C16_session_late_join_nocode, C16_session_late_join_general_nocode, Proofs/C01Session.v): the receiver first sees any suffix of a transfer (packets with in-band FTI), then the one-packet FDT instance, then one whole transfer: delivered with the given metadata. Other schemes, multi-packet FDTs (mid-FDT joins), several objects and content encodings are evaluated on every run for every join offset of real carousel sessions (P_C16_object), incl. empty objects (D37 fixed) - partial in that respect.'
CHECKS['C04']["level_text"] = "Proved (Qed, closed; 34 theorems): on a fully checked parser model (Model/AlcFixed.v: every index, slice, subtraction, division, shift can yield Panic) parse_alc_pkt, sender-time and payload-id parsing return Ok or Err for EVERY byte string; the repaired functions equal the C06 model except that its panics are errors; history theorem C04_recv_step_total / C04_recv_bytes_total: the panic flag stays false for every history of packets (also as raw bytes through push_data), clean-ups, drop and any oracle answers (one range premise: FDT Transfer-Length <= 2^64 - 2^16); the FEC oracle is consulted only inside its precondition; USABLE AFTERWARDS (Proofs/C04Usable.v): every rejected input - unparsable or short datagrams, foreign TSI, TOI-0 packets without EXT_FDT, packets of any object answered Err - leaves the receiver state unchanged (up to a flag nothing reads), and a valid No-Code session pushed after, or interleaved with, any number of them is delivered exactly as alone (composition with C02's receiver-level theorem); the proof found D41 (a damaged FDT packet blocked its instance id until cleanup; fixed). Accepted garbage that spoofs the session's own FDT is refuted (C04_usable_afterwards_full_refuted) and outside the property. Measured, not proved: heap (RLIMIT_AS), time (watchdog), the follow-up session through the real receiver on every fuzz case. MultiReceiver is exercised, not modelled here."
CHECKS['C02']["level_text"] = "Proved (Qed, closed), any order and any duplication of genuine packets. Object level (Proofs/C02Full.v, C02RS.v): No-Code when every source symbol occurs; Reed-Solomon GF(2^8) (FEC 5 and 129) when every block has k distinct symbols, under the explicit oracle hypothesis rs_oracle_mds; RaptorQ/Raptor when all source symbols arrive (oracle hypotheses, valid decoder parameters, E-byte RaptorQ symbols). RECEIVER level (Proofs/C02Session.v, C02SessionRS.v - the plumbing proved once over an object-level interface and instantiated for No-Code, Reed-Solomon and RaptorQ/Raptor): one FDT packet and the object's packets through recv_run from the initial state, FDT first or after packets carrying in-band FTI, end with the object's writer having received open, writes = content, one complete. Premises each shown necessary by an Example: object within max_size_allocated (k x E accounting for FEC 129), at most 4097 blocks ahead, a close-object flag only once the reception is recoverable (and none before the FDT), non-empty object, cooperative writer, FDT not expired. Content encodings, multi-packet FDTs, packets WITHOUT in-band FTI cached before the FDT (bounded by the same cache limit) and several objects are evaluated on every run (P_C02_object over every subset/duplication of real sessions), not proved - partial. For an empty object the premise is read as: its packet arrives (D40 found there, fixed)."
CHECKS['C12']["level_text"] = "Proved (Qed, closed) for EVERY operation history of the sender model whose accepted adds have pairwise distinct TOIs and max_transfer_count >= 1 or a carousel (the domain of the property; both halves shown necessary): P_C12_wire holds of the trace - no packet of an object never added, a non-carousel object puts at most max_transfer_count x max(1, npk) packets on the wire, after a successful remove at most the remainder of the current transfer (or one packet carrying the close flag when the object may be stopped at once) (C12_lifecycle_full); the transfer counter reported for every listed object is within one of the whole transfers seen on the wire and below max for non-carousel objects, after every operation (C12_counter_full); QUIESCENCE (Proofs/C12Quiesce.v): for every reachable state and instant, an explicit bound MUs(state, now) on the packets that reads at that instant can still return, every packet read strictly decreases it, a silent read is idempotent (exact state equality), so repeated reads reach 'nothing to send' after finitely many packets and stay there (C12_quiesce_reads, C12_quiesce_packets_bounded, C12_quiesce_silent_read_idempotent) - under 0 < fdt_duration, an FDT carousel and non-negative carousel delays (each shown necessary; fdt_duration = 0 replayed on the sender and recorded as finding D42); once no object remains only FDT packets are produced until an add is accepted (C12_only_fdt_when_no_object). Correspondence: the Gallina model agrees with the implementation op by op on every generated scenario; the `q` operation (read until nothing, watchdog at 5000 packets) judges quiescence on the implementation."
CHECKS['C12']["level_text"] = "Proved (Qed, closed) for EVERY operation history of the sender model whose accepted adds have pairwise distinct TOIs and max_transfer_count >= 1 or a carousel (the domain of the property; both halves shown necessary): P_C12_wire (no packet of an object never added; at most max_transfer_count x max(1, npk) packets of a non-carousel object; after a removal at most the remainder of the current transfer, or one packet carrying the close flag when the object may be stopped at once) (C12_lifecycle_full); the reported transfer counter within one of the whole transfers seen on the wire, after every operation (C12_counter_full); the CLOSE-OBJECT FLAG only after a removal, on the lone packet of an empty object, or on the last packet of the last transfer of a non-carousel object (C12_close_flag_full, Proofs/C12CloseFlag.v - C08's flag clause at sender level); QUIESCENCE (Proofs/C12Quiesce.v): an explicit bound MUs(state, now) on the packets that reads at one instant can still return, strictly decreasing with every packet, a silent read idempotent - under 0 < fdt_duration, an FDT carousel and non-negative carousel delays (each shown necessary; fdt_duration = 0 replayed on the sender and recorded as finding D42); once no object remains only FDT packets are produced (C12_only_fdt_when_no_object). Correspondence: the Gallina model agrees with the implementation op by op on every generated scenario (incl. carousel objects with max_transfer_count 0); P_C12_wire and P_C12_close_flag keep judging the implementation's packets after a disagreement; the `q` operation (read until nothing, watchdog at 5000 packets) judges quiescence on the implementation."
