(* Sender control-plane driver (C11, C12, C13, C14; C10's id/listing part).
   argv: <trace> <property>   property in c11|c12|c13|c14 selects which predicate decides PFAIL;
   the correspondence (model = implementation, op by op) is checked for all of them. *)
let prop = if Array.length Sys.argv > 2 then Sys.argv.(2) else "c11"

let z_of_int (i : int) : z = if i = 0 then Z0 else if i > 0 then (match n_of_int i with Npos p -> Zpos p | N0 -> Z0)
  else (match n_of_int (-i) with Npos p -> Zneg p | N0 -> Z0)
let int_of_z (x : z) : int = match x with Z0 -> 0 | Zpos p -> int_of_n (Npos p) | Zneg p -> - (int_of_n (Npos p))
let ms i = z_of_int (i * 1_000_000)

let car_of s = match s.[0] with
  | 'd' -> CDelay (ms (int_of_string (String.sub s 1 (String.length s - 1))))
  | 'i' -> CInterval (ms (int_of_string (String.sub s 1 (String.length s - 1))))
  | _ -> CNone

(* oracle: Duration::div_f64 on whole-nanosecond quotients (the generator only produces those);
   rounding to nearest otherwise; division by zero packets panics *)
let divf (d : z) (n : n) : z option =
  let n = int_of_n n and d = int_of_z d in
  if n = 0 then None else Some (z_of_int ((2 * d + n) / (2 * n)))

type iop = IAdd of int * int * int * int * int * string * string * string * string | IPub of int | IRem of int | ITrig of int * string | IComplete | IRead of int

let split_on c s = List.map String.trim (String.split_on_char c s)

let parse_token tok =
  (* "<head>[view]{events}" *)
  let b = String.index tok '[' and e = String.index tok ']' in
  let head = String.sub tok 0 b in
  let view = String.sub tok (b + 1) (e - b - 1) in
  let cb = String.index tok '{' and ce = String.rindex tok '}' in
  let evs = String.sub tok (cb + 1) (ce - cb - 1) in
  let view = if view = "" then [] else List.map (fun kv -> match String.split_on_char '=' kv with
      | [k; v] -> (n_of_hex k, n_of_hex v) | _ -> failwith "view") (String.split_on_char ',' view) in
  let evs = if evs = "" then [] else List.map (fun s ->
      let t = n_of_hex (String.sub s 1 (String.length s - 1)) in
      if s.[0] = 'S' then EvStart t else EvStop t) (String.split_on_char ',' evs) in
  (head, view, evs)

let show_rout = function
  | RNothing -> "r:N" | RFdt (id, c) -> Printf.sprintf "r:F%s:%d" (hex_of_n id) (if c then 1 else 0)
  | RObj (t, c) -> Printf.sprintf "r:O%s:%d" (hex_of_n t) (if c then 1 else 0)
  | RPanic -> "r:PANIC" | RFuel -> "r:FUEL"
let show_out = function
  | OutAdd b -> if b then "A:ok" else "A:ERR" | OutPublish b -> if b then "P:ok" else "P:err"
  | OutRemove b -> if b then "R:1" else "R:0" | OutTrigger b -> if b then "T:1" else "T:0"
  | OutUnit -> "C" | OutRead r -> show_rout r

(* what the implementation said, in the model's vocabulary *)
(* "F<id>:<close>:<npk>[:L..]" or "O<toi>:<close>" -> (rout, npk, listing) *)
let parse_desc d =
  match String.split_on_char ':' d with
  | f :: c :: npk :: rest when String.length f > 0 && f.[0] = 'F' ->
    let l = (match rest with
        | [l] when String.length l > 0 && l.[0] = 'L' ->
          let body = String.sub l 1 (String.length l - 1) in
          Some (if body = "" then [] else List.map n_of_hex (String.split_on_char '.' body))
        | _ -> None) in
    (RFdt (n_of_hex (String.sub f 1 (String.length f - 1)), c = "1"), int_of_n (n_of_hex npk), l)
  | [o; c] when String.length o > 0 && o.[0] = 'O' -> (RObj (n_of_hex (String.sub o 1 (String.length o - 1)), c = "1"), 0, None)
  | _ -> failwith ("desc " ^ d)

let impl_out head =
  match String.split_on_char ':' head with
  | ["A"; "ERR"] -> OutAdd false | ["A"; _] -> OutAdd true
  | ["P"; "ok"] -> OutPublish true | ["P"; "err"] -> OutPublish false
  | ["R"; x] -> OutRemove (x = "1") | ["T"; x] -> OutTrigger (x = "1")
  | ["C"] -> OutUnit
  | ["r"; "N"] -> OutRead RNothing
  | "r" :: _ -> let (r, _, _) = parse_desc (String.sub head 2 (String.length head - 2)) in OutRead r
  | _ -> failwith ("token " ^ head)

let handle (i : string list) (o : string list) =
  let line = String.concat " " i in
  let parts = split_on ';' line in
  let h = split_ws (List.hd parts) in
  let full = (List.nth h 1 = "full") in
  let dur = ms (int_of_string (List.nth h 2)) in
  let fcar = (match car_of (List.nth h 3) with CNone -> CDelay (ms 1000) | c -> c) in
  let startid = n_of_int (int_of_string (List.nth h 4)) in
  let queues = List.map (fun pq -> match String.split_on_char ':' pq with
      | [p; m] -> (n_of_int (int_of_string p), nat_of_int (int_of_string m)) | _ -> failwith "queues")
      (String.split_on_char ',' (List.nth h 5)) in
  let queues = List.sort (fun (a, _) (b, _) -> compare (int_of_n a) (int_of_n b)) queues in
  let ops = List.filter (fun s -> s <> "") (List.tl parts) in
  begin
    let panicked = List.mem "PANIC" o in
    let o = List.filter (fun t -> t <> "PANIC") o in
    let ops_all = ops in
    let ops = if panicked then List.filteri (fun k _ -> k < List.length o) ops else ops in
    let toks = List.map parse_token o in
    if List.length toks <> List.length ops then failwith "op/output count mismatch";
    (* oracle fdt_npk from the FTI of the FDT packets *)
    let npk_tbl = Hashtbl.create 16 in
    List.iter (fun tok ->
        let head = String.sub tok 0 (try String.index tok '[' with Not_found -> String.length tok) in
        let descs =
          if String.length head > 2 && String.sub head 0 2 = "r:" && head <> "r:N" then [String.sub head 2 (String.length head - 2)]
          else if String.length head > 2 && String.sub head 0 2 = "q=" && head <> "q=-" && head <> "q=HANG"
          then String.split_on_char ',' (String.sub head 2 (String.length head - 2))
          else [] in
        List.iter (fun d -> match parse_desc d with
            | (RFdt (id, _), npk, _) -> if not (Hashtbl.mem npk_tbl id) then Hashtbl.add npk_tbl id npk
            | _ -> ()) descs) o;
    let fdt_npk id = nat_of_int (try Hashtbl.find npk_tbl id with Not_found -> 1) in
    (* oracle fdt_ok: a Raptor session refuses an FDT instance of 2 or 3 symbols (FileDesc::new);
       the size of the instance is what Fdt::to_xml gives before the operation (full-FDT mode) *)
    let raptor = (List.length h > 8 && List.nth h 8 = "rp") in
    let session_e = (if List.length h > 7 then int_of_string (List.nth h 7) else 1400) in
    let xlens = Array.of_list (List.map (fun tok ->
        try let ce = String.rindex tok '}' in
          let rest = String.sub tok (ce + 1) (String.length tok - ce - 1) in
          if String.length rest > 1 && rest.[0] = 'x' then
            (let body = String.sub rest 1 (String.length rest - 1) in
             let body = (match String.index_opt body 'y' with Some i -> String.sub body 0 i | None -> body) in
             int_of_n (n_of_hex body)) else 0
        with Not_found -> 0) o) in
    (* size after the operation (token suffix y<hex>); absent in old corpus lines: the next operation's "before" *)
    let ylens = Array.of_list (List.map (fun tok ->
        try let ce = String.rindex tok '}' in
          let rest = String.sub tok (ce + 1) (String.length tok - ce - 1) in
          (match String.index_opt rest 'y' with
           | Some i -> Some (int_of_n (n_of_hex (String.sub rest (i + 1) (String.length rest - i - 1))))
           | None -> None)
        with Not_found -> None) o) in
    let cur_xml = ref 0 in
    let publish_failed = ref false in
    let hang = ref false in   (* a `q` operation (read until nothing to send at one instant) exceeded 5000 packets *)
    let post_trace = ref [] in
    let c13_events_fail = ref None in
    let xml_seq = ref [] and xml_calls = ref 0 in   (* per publish call of one step: size to use (else cur_xml) *)
    let fdt_ok _ = (if not raptor then true else
                      let len = (match List.nth_opt !xml_seq !xml_calls with Some l -> l | None -> !cur_xml) in
                      incr xml_calls;
                      let k = (len + session_e - 1) / session_e in
                      let ok = not (k = 2 || k = 3) in
                      if not ok then publish_failed := true; ok) in
    let mk_op t head = match t with
          | ["A"; prio; len; e; _b; mx; car; target; allow; start] ->
            let len = int_of_string len and e = int_of_string e in
            let nsym = (len + e - 1) / e in
            let toi = (match String.split_on_char ':' head with ["A"; "ERR"] -> N0 | ["A"; x] -> n_of_hex x | _ -> N0) in
            let tgt = (match target.[0] with
                | 'f' -> TFast
                | 'D' -> TDuration (ms (int_of_string (String.sub target 1 (String.length target - 1))))
                | 'T' -> TTime (ms (int_of_string (String.sub target 1 (String.length target - 1))))
                | _ -> TNone) in
            let od = { o_toi = toi; o_prio = n_of_int (int_of_string prio); o_npk = nat_of_int nsym; o_nsrc = n_of_int nsym;
                       o_max = n_of_int (int_of_string mx); o_car = car_of car; o_target = tgt;
                       o_allow_stop = (allow = "1"); o_fdtid = None; o_listing = [] } in
            OpAdd (od, (if start = "-" then None else Some (ms (int_of_string start))), true)
          | ["P"; now] -> OpPublish (ms (int_of_string now))
          | ["R"; idx] | ["T"; idx; _] ->
            (* the add-index is resolved to the TOI the implementation returned *)
            let idx = int_of_string idx in
            let adds = List.filter (fun (s, _) -> String.length s > 0 && s.[0] = 'A') (List.combine ops toks) in
            let toi = (try (match List.nth adds idx with (_, (hd, _, _)) ->
                (match String.split_on_char ':' hd with ["A"; "ERR"] -> None | ["A"; x] -> Some (n_of_hex x) | _ -> None))
                       with _ -> None) in
            (match t, toi with
             | ["R"; _], Some toi -> OpRemove toi
             | ["T"; _; ts], Some toi -> OpTrigger (toi, (if ts = "-" then None else Some (ms (int_of_string ts))))
             | ["R"; _], None -> OpRemove (n_of_hex "ffffffffffff")
             | _, _ -> OpTrigger (n_of_hex "ffffffffffff", None))
          | ["C"] -> OpSetComplete
          | ["r"; now] -> OpRead (ms (int_of_string now))
          | _ -> failwith ("op " ^ String.concat " " t) in
    let st = ref (init_st full dur fcar startid queues) in
    let trace = ref [] in
    let views = ref [] in
    let evtrace = ref [] in   (* (now, model state before the read, implementation's start/stop events) *)
    let diff = ref None in
    List.iteri (fun k (opstr, (head, view, evs)) ->
      if !diff = None then begin
        let t = split_ws opstr in
        cur_xml := (if k < Array.length xlens then xlens.(k) else 0);

        let s0 = { !st with evlog = [] } in
        let iview = List.sort compare (List.map (fun (a, b) -> (int_of_n a, int_of_n b)) view) in
        (match t with
         | ["q"; now] ->
           (* read until nothing at one instant: expand into single reads *)
           let nowz = ms (int_of_string now) in
           let seq = (if head = "q=-" then [] else if head = "q=HANG" then (hang := true; [])
                      else String.split_on_char ',' (String.sub head 2 (String.length head - 2))) in
           let impl_routs = if !hang then [] else List.map parse_desc seq @ [(RNothing, 0, None)] in
           if !hang then diff := Some "q:reads-at-one-instant-never-reach-nothing-to-send";
           evtrace := (nowz, s0, evs) :: !evtrace;
           let cur = ref s0 in
           List.iter (fun (ir, npk, listing) ->
             if !diff = None then begin
               let (mout, s1) = step fdt_npk fdt_ok divf !cur (OpRead nowz) in
               trace := (TRead (nowz, ir, nat_of_int npk, listing), !cur) :: !trace;
               if mout <> OutRead ir then diff := Some (Printf.sprintf "op%d:q:model=%s:impl=%s" k (show_out mout) (show_rout ir));
               cur := s1
             end) impl_routs;
           if !diff = None then begin
             let mview = List.sort compare (List.map (fun (a, b) -> (int_of_n a, int_of_n b)) (files_view !cur)) in
             if mview <> iview then diff := Some (Printf.sprintf "op%d:q:files-view" k)
             else if !cur.evlog <> evs then diff := Some (Printf.sprintf "op%d:q:events" k)
           end;
           views := (List.length !trace, view) :: !views;
           st := !cur
         | _ ->
        let mop = mk_op t head in
        let iout = impl_out head in
        (* the instance a publish inside this operation builds lists the files as they are either
           before the operation (publish by the first run of the FDT session) or after it (publish
           after a transfer ended / started in the same read): when the two sizes fall on different
           sides of the Raptor limit both answers of the oracle are tried, the one reproducing the
           implementation's output is kept *)
        let before = !cur_xml
        and after = (match (if k < Array.length ylens then ylens.(k) else None) with
            | Some l -> l
            | None -> if k + 1 < Array.length xlens then xlens.(k + 1) else !cur_xml) in
        let pf0 = !publish_failed in
        let attempt seq = (xml_seq := seq; xml_calls := 0; cur_xml := (match List.rev seq with l :: _ -> l | [] -> before);
                           publish_failed := pf0; let r = step fdt_npk fdt_ok divf s0 mop in (r, !publish_failed, seq)) in
        let good (r, _, _) = (fst r = iout && (snd r).evlog = evs) in
        let ((mout, s1), pf, used_seq) =
          (let r1 = attempt [before] in
           if raptor && after <> before && not (good r1) then
             (match List.find_opt good (List.map attempt [[before; after]; [after]; [after; before]]) with
              | Some r -> r | None -> attempt [before])
           else r1) in
        (* C13 events are judged now, under the same oracle answers as the accepted run of the model *)
        (match mop with
         | OpRead now when !c13_events_fail = None ->
           xml_seq := used_seq; xml_calls := 0; cur_xml := (match List.rev used_seq with l :: _ -> l | [] -> before);
           (match p_C13_events fdt_npk fdt_ok divf s0 now evs with
            | C13ok -> ()
            | C13notWaiting -> c13_events_fail := Some "P_C13_start_of_non_waiting_object"
            | C13fifo -> c13_events_fail := Some "P_C13_fifo_admission"
            | C13multiplex -> c13_events_fail := Some "P_C13_multiplex_bound")
         | _ -> ());
        xml_seq := []; cur_xml := before;
        publish_failed := pf;
        let mview = List.sort compare (List.map (fun (a, b) -> (int_of_n a, int_of_n b)) (files_view s1)) in
        (* trace event as the implementation reported it *)
        let tev = (match mop, iout with
            | OpAdd (od, start, _), OutAdd ok -> TAdd (od, start, ok)
            | OpPublish now, OutPublish ok -> TPublish (now, ok)
            | OpRemove toi, OutRemove ok -> TRemove (toi, ok)
            | OpTrigger (toi, ts), OutTrigger ok -> TTrigger (toi, ts, ok)
            | OpSetComplete, _ -> TComplete
            | OpRead now, OutRead r ->
              let (npk, listing) = (match r with
                  | RFdt _ -> let (_, npk, l) = parse_desc (String.sub head 2 (String.length head - 2)) in (nat_of_int npk, l)
                  | _ -> (O, None)) in
              TRead (now, r, npk, listing)
            | _, _ -> failwith "op/out kind mismatch") in
        trace := (tev, s0) :: !trace;
        views := (List.length !trace, view) :: !views;
        if mout <> iout then diff := Some (Printf.sprintf "op%d:%s:model=%s" k (String.concat "_" t) (show_out mout))
        else if mview <> iview then diff := Some (Printf.sprintf "op%d:%s:files-view" k (String.concat "_" t))
        else if s1.evlog <> evs then diff := Some (Printf.sprintf "op%d:%s:events" k (String.concat "_" t));
        st := s1)
      end else begin
        (* after the first disagreement the model state is no longer meaningful, but what the implementation put
           on the wire still is: the trace-only predicates (C11, C12 wire) go on judging it *)
        let t = split_ws opstr in
        (match t with
         | ["q"; now] ->
           let nowz = ms (int_of_string now) in
           let seq = (if head = "q=-" || head = "q=HANG" then [] else String.split_on_char ',' (String.sub head 2 (String.length head - 2))) in
           List.iter (fun d -> let (ir, npk, listing) = parse_desc d in
                       post_trace := TRead (nowz, ir, nat_of_int npk, listing) :: !post_trace) seq
         | _ ->
           (try
              let mop = mk_op t head in
              let iout = impl_out head in
              let tev = (match mop, iout with
                  | OpAdd (od, start, _), OutAdd ok -> Some (TAdd (od, start, ok))
                  | OpPublish now, OutPublish ok -> Some (TPublish (now, ok))
                  | OpRemove toi, OutRemove ok -> Some (TRemove (toi, ok))
                  | OpTrigger (toi, ts), OutTrigger ok -> Some (TTrigger (toi, ts, ok))
                  | OpSetComplete, _ -> Some TComplete
                  | OpRead now, OutRead r ->
                    let (npk, listing) = (match r with
                        | RFdt _ -> let (_, npk, l) = parse_desc (String.sub head 2 (String.length head - 2)) in (nat_of_int npk, l)
                        | _ -> (O, None)) in
                    Some (TRead (now, r, npk, listing))
                  | _, _ -> None) in
              (match tev with Some e -> post_trace := e :: !post_trace | None -> ())
            with _ -> ()))
      end) (List.combine ops toks);
    let tr = List.rev !trace in
    let evs_only = List.map fst tr in
    let evs_wire = evs_only @ List.rev !post_trace in
    let npkts = List.length (List.filter (fun e -> match e with TRead (_, (RObj _ | RFdt _), _, _) -> true | _ -> false) evs_only) in
    (* predicates on what the implementation did *)
    let pred_fail =
      if prop = "c11" then (if p_C11 evs_wire then None
                            else if known_D27 full !publish_failed then Some "KNOWN:D27"
                            else Some "P_C11_announce_before_send")
      else if prop = "c12" then begin
        if not (p_C12_wire evs_wire) then Some "P_C12_wire"
        else if not (p_C12_close_flag evs_wire) then Some "P_C12_close_flag"
        else if not (p_C08_fdt_close_flag evs_wire) then Some "P_C08_fdt_close_flag"
        else begin
          (* counter check after every op: objects state = fold of the trace prefix *)
          let bad = List.exists (fun (plen, view) ->
              let prefix = List.filteri (fun i _ -> i < plen) evs_only in
              not (p_C12_counter (c12_objs [] prefix) view)) !views in
          if bad then Some "P_C12_counter" else None
        end
      end
      else if prop = "c13" then begin
        if List.exists (fun (e, s0) -> match e with TRead (now, r, _, _) -> not (p_C13_priority s0 now r) | _ -> false) tr
        then Some "P_C13_priority"
        else begin
          let bad = List.filter_map (fun (now, s0, evs) ->
              match p_C13_events fdt_npk fdt_ok divf s0 now evs with
              | C13ok -> None
              | C13notWaiting -> Some "P_C13_start_of_non_waiting_object"
              | C13fifo -> Some "P_C13_fifo_admission"
              | C13multiplex -> Some "P_C13_multiplex_bound") (List.rev !evtrace) in
          match !c13_events_fail, bad with Some x, _ -> Some x | None, x :: _ -> Some x | None, [] -> None
        end
      end
      else if prop = "c14" then begin
        let f (e, s0) = match e with
          | TRead (now, r, _, _) ->
            if not (p_C14_start_time s0 now r) then Some "P_C14_start_time"
            else if not (p_C14_pacing s0 now r) then Some "P_C14_pacing"
            else if not (p_C14_carousel_gap s0 now r) then (if in_D23 s0 now r then Some "KNOWN:D23" else Some "P_C14_carousel_gap")
            else None
          | _ -> None in
        let fails = List.filter_map f tr in
        (match List.filter (fun x -> x <> "KNOWN:D23") fails with
         | x :: _ -> Some x
         | [] -> if fails <> [] then Some "KNOWN:D23" else None)
      end
      else None in
    (* the operation on which the implementation panicked: the model must panic there too *)
    let model_panics =
      if not panicked then false
      else begin
        let opstr = List.nth ops_all (List.length ops) in
        match split_ws opstr with
        | ["r"; now] ->
          let (mout, _) = step fdt_npk fdt_ok divf !st (OpRead (ms (int_of_string now))) in
          mout = OutRead RPanic
        | _ -> false
      end in
    if !hang then begin
      (* C12: at any fixed instant repeated reads return "nothing to send" after finitely many packets *)
      if known_D42 dur then verdict_known "D42"
      else if prop = "c12" then verdict_both "P_C12_quiescence" "more-than-5000-packets-at-one-instant"
      else verdict_diff "more-than-5000-packets-at-one-instant"
    end else
    match !diff with
    | Some d -> (match pred_fail with Some why when why <> "KNOWN:D23" && why <> "KNOWN:D27" -> verdict_both why d | _ -> verdict_diff d)
    | None ->
      if panicked && not model_panics then verdict_both "sender-panicked" "model-does-not-panic"
      else if panicked then (if prop = "c14" then verdict_pfail "P_C14_degenerate_total:sender-panicked" else verdict_ok false)
      else (match pred_fail with
          | Some "KNOWN:D23" -> verdict_known "D23"
          | Some "KNOWN:D27" -> verdict_known "D27"
          | Some why -> verdict_pfail why
          | None -> verdict_ok (npkts >= 3))
  end

let () = run_driver handle
