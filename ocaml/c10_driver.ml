(* C10 driver: `fluteh fdt` traces (format: harness/C10_TRACE_FORMAT.txt).
   Per scenario:
   - the control model (Model/SenderCtl.v) is stepped on the same operation script and compared
     op by op (result, FDT view with transfer counters, observer events)           -> DIFF
   - every XML document the implementation produced (Sender::fdt_xml_data after each op, instances
     reassembled from the TOI-0 packets, instances handed to the receiver's writer builder) is
     parsed by the extracted REFERENCE parser and
       * compared with the model's abstract instance (Model/FdtInst.v), files in any order -> DIFF
       * judged by the Coq-defined predicates P_C10_wellformed / P_C10_instance           -> PFAIL
   - flute's own parse of the snapshot is judged by P_C10_content, the receiver's per-object
     metadata by P_C10_meta, the instance ids by P_C10_ids / P_C10_window, each republication by
     P_C10_superseded (class D22 = KNOWN), control characters in metadata = class D38 (KNOWN). *)

let z_of_int (i : int) : z = if i = 0 then Z0 else if i > 0 then (match n_of_int i with Npos p -> Zpos p | N0 -> Z0)
  else (match n_of_int (-i) with Npos p -> Zneg p | N0 -> Z0)
let int_of_z (x : z) : int = match x with Z0 -> 0 | Zpos p -> int_of_n (Npos p) | Zneg p -> - (int_of_n (Npos p))
let base_ms = 1_700_000_000_000
let dur_ns ms = z_of_int (ms * 1_000_000)                (* a duration *)
let t_ns ms = z_of_int ((base_ms + ms) * 1_000_000)      (* an instant of the virtual clock *)

(* ---- bytes <-> str (ascii list) ---- *)
let asc_tbl : ascii array = Array.init 256 (fun i ->
    Ascii (i land 1 <> 0, i land 2 <> 0, i land 4 <> 0, i land 8 <> 0, i land 16 <> 0, i land 32 <> 0, i land 64 <> 0, i land 128 <> 0))
let int_of_ascii (Ascii (b0, b1, b2, b3, b4, b5, b6, b7)) =
  (if b0 then 1 else 0) lor (if b1 then 2 else 0) lor (if b2 then 4 else 0) lor (if b3 then 8 else 0)
  lor (if b4 then 16 else 0) lor (if b5 then 32 else 0) lor (if b6 then 64 else 0) lor (if b7 then 128 else 0)
let hexv c = match c with '0'..'9' -> Char.code c - 48 | 'a'..'f' -> Char.code c - 87 | 'A'..'F' -> Char.code c - 55 | _ -> failwith "hex"
let str_of_hex (h : string) : str =
  if h = "_" then [] else begin
    let n = String.length h / 2 in
    let r = ref [] in
    for i = n - 1 downto 0 do r := asc_tbl.(hexv h.[2 * i] * 16 + hexv h.[2 * i + 1]) :: !r done;
    !r
  end
let ostr_of_hex h = if h = "N" then None else Some (str_of_hex h)
let str_of_string (s : string) : str = List.init (String.length s) (fun i -> asc_tbl.(Char.code s.[i]))
let string_of_str (s : str) : string = String.concat "" (List.map (fun c -> String.make 1 (Char.chr (int_of_ascii c))) s)
let groups_of spec : str list option =
  if spec = "N" then None
  else begin
    let body = String.sub spec 1 (String.length spec - 1) in
    if body = "" then Some [] else Some (List.map str_of_hex (String.split_on_char ',' body))
  end

let n_dec s = n_of_int (int_of_string s)

(* <kind>:<e>:<b>:<p>:<n>:<al>:<f>  ->  (model oti, inband_fti) *)
let oti_of spec : oti * bool =
  match String.split_on_char ':' spec with
  | [kind; e; b; p; n; al; f] ->
    let e = n_dec e and b = n_dec b and p = n_dec p and n = n_dec n and al = n_dec al in
    let o = (match kind with
        | "nc" -> { fec_id = n_of_int 0; fec_inst = N0; max_sbl = b; esl = e; parity = N0; sch = SchNone }
        | "rs" -> { fec_id = n_of_int 5; fec_inst = N0; max_sbl = b; esl = e; parity = p; sch = SchNone }
        | "rsus" -> { fec_id = n_of_int 129; fec_inst = N0; max_sbl = b; esl = e; parity = p; sch = SchNone }
        | "rq" -> { fec_id = n_of_int 6; fec_inst = N0; max_sbl = b; esl = e; parity = p; sch = SchRaptorQ (N0, n, al) }
        | "rp" -> { fec_id = n_of_int 1; fec_inst = N0; max_sbl = b; esl = e; parity = p; sch = SchRaptor (N0, n, al) }
        | _ -> failwith "oti kind") in
    (o, f = "1")
  | _ -> failwith ("oti " ^ spec)

let cenc_of = function "null" -> N0 | "zlib" -> n_of_int 1 | "deflate" -> n_of_int 2 | "gzip" -> n_of_int 3 | s -> failwith ("cenc " ^ s)

let car_of s = match s.[0] with
  | 'd' -> CDelay (dur_ns (int_of_string (String.sub s 1 (String.length s - 1))))
  | 'i' -> CInterval (dur_ns (int_of_string (String.sub s 1 (String.length s - 1))))
  | _ -> CNone

let divf (d : z) (n : n) : z option =
  let n = int_of_n n and d = int_of_z d in
  if n = 0 then None else Some (z_of_int ((2 * d + n) / (2 * n)))

let split_on c s = List.map String.trim (String.split_on_char c s)

(* "<head>[view]{events}@snap" *)
let parse_token tok =
  let b = String.index tok '[' in
  let e = String.index_from tok b ']' in
  let head = String.sub tok 0 b in
  let view = String.sub tok (b + 1) (e - b - 1) in
  let cb = String.index_from tok e '{' in
  let ce = String.index_from tok cb '}' in
  let evs = String.sub tok (cb + 1) (ce - cb - 1) in
  let snap = if ce + 2 <= String.length tok && tok.[ce + 1] = '@' then String.sub tok (ce + 2) (String.length tok - ce - 2) else "=" in
  let view = if view = "" then [] else List.map (fun kv -> match String.split_on_char '=' kv with
      | [k; v] -> (n_of_hex k, n_of_hex v) | _ -> failwith "view") (String.split_on_char ',' view) in
  let evs = if evs = "" then [] else List.map (fun s ->
      let t = n_of_hex (String.sub s 1 (String.length s - 1)) in
      if s.[0] = 'S' then EvStart t else EvStop t) (String.split_on_char ',' evs) in
  (head, view, evs, snap)

let show_rout = function
  | RNothing -> "r:N" | RFdt (id, c) -> Printf.sprintf "r:F%s:%d" (hex_of_n id) (if c then 1 else 0)
  | RObj (t, c) -> Printf.sprintf "r:O%s:%d" (hex_of_n t) (if c then 1 else 0)
  | RPanic -> "r:PANIC" | RFuel -> "r:FUEL"
let show_out = function
  | OutAdd b -> if b then "A:ok" else "A:ERR" | OutPublish b -> if b then "P:ok" else "P:err"
  | OutRemove b -> if b then "R:1" else "R:0" | OutTrigger b -> if b then "T:1" else "T:0"
  | OutUnit -> "C" | OutRead r -> show_rout r

(* "F<id>:<close>:<npk>[:X<hex>]" | "O<toi>:<close>"  ->  (rout, npk, xml) *)
let parse_desc d =
  match String.split_on_char ':' d with
  | f :: c :: npk :: rest when String.length f > 0 && f.[0] = 'F' ->
    let x = (match rest with
        | [x] when String.length x > 0 && x.[0] = 'X' -> Some (String.sub x 1 (String.length x - 1))
        | _ -> None) in
    (RFdt (n_of_hex (String.sub f 1 (String.length f - 1)), c = "1"), int_of_n (n_of_hex npk), x)
  | [o; c] when String.length o > 0 && o.[0] = 'O' -> (RObj (n_of_hex (String.sub o 1 (String.length o - 1)), c = "1"), 0, None)
  | _ -> failwith ("desc " ^ d)

(* ---- abstract instances: canonical order of files ---- *)
let norm (x : xfdt) : xfdt =
  { x with xi_files = List.sort (fun a b -> compare (string_of_str a.xf_toi, string_of_str a.xf_loc)
                                    (string_of_str b.xf_toi, string_of_str b.xf_loc)) x.xi_files }

(* flute's own parse result (fparse field list) as an xfdt *)
let xfdt_of_fparse (fp : string) : xfdt =
  let toks = ref (String.split_on_char ',' fp) in
  let next () = match !toks with t :: r -> toks := r; t | [] -> failwith "fparse short" in
  let ostr () = ostr_of_hex (next ()) in
  let count () = int_of_string (next ()) in
  let strs () = let n = count () in List.init n (fun _ -> str_of_hex (next ())) in
  let oti () = let a = ostr () in let b = ostr () in let c = ostr () in let d = ostr () in let e = ostr () in let f = ostr () in
    { xo_id = a; xo_inst = b; xo_b = c; xo_e = d; xo_maxn = e; xo_ssi = f } in
  let exp = (match ostr () with Some s -> s | None -> []) in
  let cpl = ostr () in
  let full = ostr () in
  let io = oti () in
  let groups = strs () in
  let nf = count () in
  let files = List.init nf (fun _ ->
      let loc = (match ostr () with Some s -> s | None -> []) in
      let toi = (match ostr () with Some s -> s | None -> []) in
      let clen = ostr () in let tlen = ostr () in let ctype = ostr () in let cenc = ostr () in let md5 = ostr () in
      let fo = oti () in
      let etag = ostr () in
      let ck = next () in
      let ct = str_of_hex (next ()) in
      let cache = (match ck with "nc" -> Some (XNoCache ct) | "ms" -> Some (XMaxStale ct) | "ex" -> Some (XExpires ct) | _ -> None) in
      let g = strs () in
      { xf_loc = loc; xf_toi = toi; xf_clen = clen; xf_tlen = tlen; xf_ctype = ctype; xf_cenc = cenc; xf_md5 = md5;
        xf_oti = fo; xf_etag = etag; xf_cache = cache; xf_groups = g }) in
  { xi_expires = exp; xi_complete = cpl; xi_full = full; xi_oti = io; xi_files = files; xi_groups = groups }

(* receiver metadata token RX:W:<toi>:<loc>:<clen>:<tlen>:<ctype>:<cache>:<groups>:<md5>:<oti>:<cenc>:<etag> *)
let rmeta_of_token (t : string) : n * rmeta =
  match String.split_on_char ':' t with
  | ["RX"; "W"; toi; loc; clen; tlen; ctype; cache; groups; md5; oti; cenc; etag] ->
    let on s = if s = "N" then None else Some (n_of_hex s) in
    let rc = (if cache = "nc" then RNoCache else if cache = "ms" then RMaxStale
              else if String.length cache > 4 && String.sub cache 0 4 = "hint" then RExpiresAtHint (n_of_hex (String.sub cache 4 (String.length cache - 4)))
              else if String.length cache > 2 && String.sub cache 0 2 = "at" then RExpiresAt (n_of_hex (String.sub cache 2 (String.length cache - 2)))
              else failwith "rcache") in
    let ro = (if oti = "N" then None else
                match String.split_on_char '.' oti with
                | id :: inst :: b :: e :: p :: sc ->
                  let sch = (match sc with
                      | ["n"] -> SchNone
                      | ["rs"; m; g] -> SchRS (n_dec m, n_dec g)
                      | ["rq"; z; n; al] -> SchRaptorQ (n_dec z, n_dec n, n_dec al)
                      | ["rp"; z; n; al] -> SchRaptor (n_dec z, n_dec n, n_dec al)
                      | _ -> failwith "rx scheme") in
                  Some { fec_id = n_dec id; fec_inst = n_dec inst; max_sbl = n_dec b; esl = n_dec e; parity = n_dec p; sch = sch }
                | _ -> failwith "rx oti") in
    (n_of_hex toi,
     { r_loc = str_of_hex loc; r_clen = on clen; r_tlen = on tlen; r_ctype = ostr_of_hex ctype; r_cache = rc;
       r_groups = (match groups_of groups with Some l -> l | None -> []); r_md5 = ostr_of_hex md5; r_oti = ro;
       r_cenc = (if cenc = "N" then N0 else cenc_of cenc); r_etag = ostr_of_hex etag })
  | _ -> failwith ("RX:W " ^ t)

type inst_rec = { i_id : n; i_listing : n list; i_lp : z; i_complete : bool; i_api : n list option }

let handle (i : string list) (o : string list) =
  let line = String.concat " " i in
  let parts = split_on ';' line in
  let h = split_ws (List.hd parts) in
  if List.length h < 10 || List.hd h <> "F" then failwith "header";
  let full = (List.nth h 1 = "full") in
  let dur = dur_ns (int_of_string (List.nth h 2)) in
  let fcar = (match car_of (List.nth h 3) with CNone -> CDelay (dur_ns 1000) | c -> c) in
  let startid = n_dec (List.nth h 4) in
  let (soti, _) = oti_of (List.nth h 6) in
  let sgroups = groups_of (List.nth h 7) in
  let mult = int_of_string (List.nth h 8) in
  let cfg = { c_oti = soti; c_groups = sgroups; c_full = full; c_dur = dur } in
  let ops = List.filter (fun s -> s <> "") (List.tl parts) in
  let rx = List.filter (fun t -> String.length t > 3 && String.sub t 0 3 = "RX:") o in
  let o = List.filter (fun t -> not (String.length t > 3 && String.sub t 0 3 = "RX:")) o in
  let panicked = List.mem "PANIC" o in
  let o = List.filter (fun t -> t <> "PANIC") o in
  let ops = if panicked then List.filteri (fun k _ -> k < List.length o) ops else ops in
  let toks = List.map parse_token o in
  if List.length toks <> List.length ops then failwith "op/output count mismatch";
  let descs_of head =
    if String.length head > 2 && String.sub head 0 2 = "r:" && head <> "r:N" then [String.sub head 2 (String.length head - 2)]
    else if String.length head > 2 && String.sub head 0 2 = "q=" && head <> "q=-" && head <> "q=HANG"
    then String.split_on_char ',' (String.sub head 2 (String.length head - 2))
    else [] in
  (* oracle fdt_npk from the FDT packets *)
  let npk_tbl = Hashtbl.create 16 in
  List.iter (fun (head, _, _, _) ->
      List.iter (fun d -> match parse_desc d with
          | (RFdt (id, _), npk, _) -> if not (Hashtbl.mem npk_tbl id) then Hashtbl.add npk_tbl id npk
          | _ -> ()) (descs_of head)) toks;
  let fdt_npk id = nat_of_int (try Hashtbl.find npk_tbl id with Not_found -> 1) in
  let fdt_ok _ = true in
  let mstep = step fdt_npk fdt_ok divf in
  (* ---------------- state of the check ---------------- *)
  let st = ref (init_st full dur fcar startid [(N0, nat_of_int mult)]) in   (* control model *)
  let metas : fmeta list ref = ref [] in              (* accepted objects, oldest first *)
  let inband : (n, bool) Hashtbl.t = Hashtbl.create 8 in     (* toi -> the object's OTI travels in EXT_FTI *)
  let add_tois : n option list ref = ref [] in        (* per A op: the TOI returned *)
  let insts : inst_rec list ref = ref [] in           (* instances published by the model, oldest first *)
  (* spec ledgers, from results and observer events of the IMPLEMENTATION only:
     added - removed - finished: (toi, max_transfer_count, carousel, completed transfers), in order of addition;
     in_tx: started and not stopped *)
  let ledger : (n * int * bool * int ref) list ref = ref [] in
  let in_tx : n list ref = ref [] in
  let complete_impl = ref false in
  (* publications as the implementation shows them: (instant, judged) oldest first *)
  let pubs : z list ref = ref [] in
  let n_pub = ref 0 in
  let idle_poll : z option ref = ref None in
  let diff = ref None and pfail = ref None and known = ref None in
  let set_diff s = if !diff = None then diff := Some s in
  let set_pfail s = if !pfail = None then pfail := Some s in
  let set_known c = (match !known with None -> known := Some c | Some "D38" -> known := Some c | _ -> ()) in
  let docs_checked = ref 0 and files_checked = ref 0 and npkts = ref 0 in
  let cur_time = ref 0 in
  (* a content failure on a document / metadata whose expected objects [ms] are in class D38 is the known finding *)
  let fail_content (ms : fmeta list) why = if in_D38 cfg ms then (if !known = None then known := Some "D38") else set_pfail why in
  let parse_cache : (string, xfdt option) Hashtbl.t = Hashtbl.create 16 in
  let ref_parse (hex : string) : str * xfdt option =
    let doc = str_of_hex hex in
    let key = Digest.string hex in
    (doc, (match Hashtbl.find_opt parse_cache key with
         | Some r -> r
         | None -> let r = parse_fdt doc in Hashtbl.replace parse_cache key r; r)) in
  (* judge one XML document: well-formed UTF-8 XML, content = what the sender was given for [tois];
     [model_tois]: also compare with the model's abstract instance *)
  let check_doc (what : string) (hex : string) (complete : bool) (lp : z) (tois : n list) (model_tois : n list option) =
    let (doc, px) = ref_parse hex in
    incr docs_checked;
    if not (utf8_ok doc) then set_pfail (what ^ ":not-utf8");
    let ms = metas_of tois !metas in
    (match px with
     | None -> fail_content ms (what ^ ":P_C10_wellformed")
     | Some x ->
       files_checked := !files_checked + List.length x.xi_files;
       if not (p_C10_content cfg complete lp ms x) then fail_content ms (what ^ ":P_C10_instance");
       (match model_tois with
        | None -> ()
        | Some mt ->
          let mms = metas_of mt !metas in
          let mx = get_fdt_instance cfg complete lp mms in
          if norm x <> norm mx then (if in_D38 cfg mms then () else set_diff (what ^ ":content<>model"))))
  in
  let sorted l = List.sort compare (List.map int_of_n l) in
  let view_of_model s = List.sort compare (List.map (fun (a, b) -> (int_of_n a, int_of_n b)) (files_view s)) in
  let last_lp : z option ref = ref None and prev_neg : z option ref = ref None in
  (* a publication seen on the implementation at instant [t] ([judge]: its instant is exact) *)
  let impl_publication (k : int) (t : z) (judge : bool) =
    (match List.rev !pubs with
     | lp :: _ when judge ->
       let prev = (match !idle_poll with Some p when int_of_z p >= int_of_z lp -> p | _ -> lp) in
       let x = { rp_lp = lp; rp_d = dur; rp_prev = prev; rp_t = t } in
       if not (p_C10_superseded x) then (if in_D22 x then set_known "D22" else set_pfail (Printf.sprintf "op%d:P_C10_superseded(wire)" k))
     | _ -> ());
    pubs := !pubs @ [t];
    incr n_pub in
  let next_id () = n_of_int ((int_of_n startid + !n_pub) mod 1048576) in
  List.iteri (fun k (opstr, (head, view, evs, snap)) ->
      let t = split_ws opstr in
      let iview = List.sort compare (List.map (fun (a, b) -> (int_of_n a, int_of_n b)) view) in
      let model_live = (!diff = None) in
      let s0 = { !st with evlog = [] } in
      let n_inst0 = List.length (instances s0) in
      (* ---------- (1) the model is stepped on the op and compared (while it still agrees) ---------- *)
      let model_after : st option ref = ref None in
      let op_now = ref (t_ns !cur_time) in
      (match t with
       | "A" :: len :: ctype :: _loc :: cenc :: _md5 :: oti :: cache :: etag :: groups :: mx :: car :: _ ->
         (match String.split_on_char ':' head with
          | ["A"; "BADURL"] | ["A"; "NODESC"] ->
            add_tois := !add_tois @ [None];
            if model_live then begin
              if view_of_model s0 <> iview then set_diff (Printf.sprintf "op%d:A:files-view" k);
              model_after := Some s0
            end
          | "A" :: rest ->
            let ok = (match rest with "ERR" :: _ -> false | _ -> true) in
            let (toi, npk, tlen, md5, loc) = (match rest with
                | ["ERR"; tlen; md5; loc] -> (n_of_hex "ffffffff", 0, n_of_hex tlen, md5, loc)
                | [toi; npk; tlen; md5; loc] -> (n_of_hex toi, int_of_n (n_of_hex npk), n_of_hex tlen, md5, loc)
                | _ -> failwith "A head") in
            let per = if oti = "-" then None else Some (oti_of oti) in
            let m = { m_toi = toi; m_loc = str_of_hex loc; m_clen = n_dec len; m_tlen = tlen; m_ctype = str_of_hex ctype;
                      m_cenc = cenc_of cenc; m_md5 = ostr_of_hex md5;
                      m_oti = (match per with Some (o, _) -> Some o | None -> None);
                      m_cache = (if cache = "-" then None else if cache = "nc" then Some CCNoCache else if cache = "ms" then Some CCMaxStale
                                 else if String.sub cache 0 2 = "ex" then Some (CCExpires (dur_ns (int_of_string (String.sub cache 2 (String.length cache - 2)))))
                                 else Some (CCExpiresAt (t_ns (int_of_string (String.sub cache 2 (String.length cache - 2))))));
                      m_etag = ostr_of_hex etag; m_groups = groups_of groups } in
            if model_live then begin
              (* FileDesc::new refuses what the model says it refuses (Raptor / RaptorQ block counts) *)
              if ok && filedesc_oti soti m.m_oti tlen = None then set_diff (Printf.sprintf "op%d:A:model-refuses" k);
              let od = { o_toi = toi; o_prio = N0; o_npk = nat_of_int npk; o_nsrc = n_of_int (max npk 1);
                         o_max = n_dec mx; o_car = car_of car; o_target = TNone; o_allow_stop = false;
                         o_fdtid = None; o_listing = [] } in
              let (mout, s1) = mstep s0 (OpAdd (od, None, ok)) in
              if mout <> OutAdd ok then set_diff (Printf.sprintf "op%d:A:model=%s" k (show_out mout));
              if view_of_model s1 <> iview then set_diff (Printf.sprintf "op%d:A:files-view" k);
              model_after := Some s1
            end;
            if ok then begin
              ledger := !ledger @ [(toi, int_of_string mx, car <> "n", ref 0)];
              metas := !metas @ [m];
              Hashtbl.replace inband toi (match per with Some (_, f) -> f | None -> true)
            end;
            add_tois := !add_tois @ [if ok then Some toi else None]
          | _ -> failwith "A token")
       | ["q"; now] ->
         cur_time := int_of_string now;
         op_now := t_ns !cur_time;
         let seq = (if head = "q=-" then [] else if head = "q=HANG" then failwith "HANG"
                    else String.split_on_char ',' (String.sub head 2 (String.length head - 2))) in
         let impl = List.map parse_desc seq @ [(RNothing, 0, None)] in
         npkts := !npkts + List.length seq;
         if model_live then begin
           let cur = ref s0 in
           List.iter (fun (ir, _, _) ->
               if !diff = None then begin
                 let (mout, s1) = mstep !cur (OpRead !op_now) in
                 if mout <> OutRead ir then set_diff (Printf.sprintf "op%d:q:model=%s:impl=%s" k (show_out mout) (show_rout ir));
                 cur := s1
               end) impl;
           if !diff = None then begin
             if view_of_model !cur <> iview then set_diff (Printf.sprintf "op%d:q:files-view" k)
             else if !cur.evlog <> evs then set_diff (Printf.sprintf "op%d:q:events" k)
           end;
           model_after := Some !cur
         end
       | _ ->
         let mop = (match t with
             | ["P"; now] -> cur_time := int_of_string now; op_now := t_ns !cur_time; OpPublish !op_now
             | ["R"; idx] ->
               (match (try List.nth !add_tois (int_of_string idx) with _ -> None) with
                | Some toi -> OpRemove toi
                | None -> OpRemove (n_of_hex "ffffffffffff"))
             | ["C"] -> OpSetComplete
             | ["r"; now] -> cur_time := int_of_string now; op_now := t_ns !cur_time; OpRead !op_now
             | _ -> failwith ("op " ^ opstr)) in
         let iout = (match String.split_on_char ':' head with
             | ["P"; "ok"] -> OutPublish true | ["P"; "err"] -> OutPublish false
             | ["R"; x] -> OutRemove (x = "1")
             | ["C"] -> OutUnit
             | ["r"; "N"] -> OutRead RNothing
             | "r" :: _ -> let (r, _, _) = parse_desc (String.sub head 2 (String.length head - 2)) in incr npkts; OutRead r
             | _ -> failwith ("token " ^ head)) in
         (match mop, iout with
          | OpRemove toi, OutRemove true -> ledger := List.filter (fun (x, _, _, _) -> x <> toi) !ledger
          | OpSetComplete, _ -> complete_impl := true
          | _ -> ());
         if model_live then begin
           let (mout, s1) = mstep s0 mop in
           if mout <> iout then set_diff (Printf.sprintf "op%d:%s:model=%s" k (String.concat "_" t) (show_out mout))
           else if view_of_model s1 <> iview then set_diff (Printf.sprintf "op%d:%s:files-view" k (String.concat "_" t))
           else if s1.evlog <> evs then set_diff (Printf.sprintf "op%d:%s:events" k (String.concat "_" t));
           model_after := Some s1
         end);
      (* ---------- (2) spec ledgers from the implementation's observer events ---------- *)
      List.iter (function
          | EvStart x -> in_tx := x :: List.filter (fun y -> y <> x) !in_tx
          | EvStop x ->
            in_tx := List.filter (fun y -> y <> x) !in_tx;
            List.iter (fun (toi, _, _, stops) -> if toi = x then incr stops) !ledger;
            ledger := List.filter (fun (toi, mx, car, stops) -> not (toi = x && not car && !stops >= mx)) !ledger) evs;
      let announced = List.map (fun (x, _, _, _) -> x) !ledger in
      (* the FDT the public API shows = added - removed - finished *)
      if sorted (List.map fst view) <> sorted announced then set_pfail (Printf.sprintf "op%d:get_objects_in_fdt<>added-removed-finished" k);
      (* ---------- (3) the model's record of the instances this op published ---------- *)
      (match !model_after with
       | Some s1 ->
         List.iteri (fun j (id, listing) ->
             if j >= n_inst0 then begin
               (* FullFDT, single read or explicit publish: a publication inside one Sender::read comes after the
                  transfers that read ended, so the instance lists what the ledger holds after the op *)
               let api = if full && (match t with "q" :: _ -> false | _ -> true) then Some announced else None in
               insts := !insts @ [{ i_id = id; i_listing = listing; i_lp = !op_now; i_complete = s0.complete; i_api = api }]
             end) (instances s1);
         st := s1
       | None -> ());
      (* ---------- (4) publications and polls as the implementation shows them ---------- *)
      (match t with
       | ["P"; _] when head = "P:ok" -> impl_publication k !op_now true
       | ("r" | "q") :: _ ->
         List.iter (fun d -> match (try Some (parse_desc d) with _ -> None) with
             | Some (RFdt (id, _), _, _) ->
               (* first packet of an instance nobody published explicitly: published by this read
                  (FullFDT: in this very read; being-transferred mode: possibly queued earlier - not judged) *)
               if id = next_id () then impl_publication k !op_now full
             | _ -> ()) (descs_of head);
         (* a read that ends with nothing or an object packet found the FDT session idle *)
         let last = (match List.rev (descs_of head) with d :: _ -> Some d | [] -> None) in
         (match t, last with
          | "q" :: _, _ -> idle_poll := Some !op_now
          | _, None -> idle_poll := Some !op_now
          | _, Some d -> if String.length d > 0 && d.[0] = 'O' then idle_poll := Some !op_now)
       | _ -> ());
      (* ---------- (5) republication judged on the model state before the read ---------- *)
      (match t with
       | ("r" | "q") :: _ when model_live && !diff = None ->
         let now = !op_now in
         (match s0.last_publish with
          | Some lp ->
            if !last_lp <> Some lp then begin last_lp := Some lp; prev_neg := None end;
            let idle = (match s0.cur_fdt with Some c -> not (obj s0 c).f_t.t_transferring | None -> false) in
            if idle && s0.fdtq = [] then begin
              if current_fdt_will_expire now s0 then begin
                let prev = (match !prev_neg with Some p -> p | None -> lp) in
                let x = { rp_lp = lp; rp_d = dur; rp_prev = prev; rp_t = now } in
                if List.length (instances !st) > n_inst0 && not (p_C10_superseded x) then begin
                  if in_D22 x then set_known "D22" else set_pfail (Printf.sprintf "op%d:P_C10_superseded" k)
                end
              end else prev_neg := Some now
            end
          | None -> ())
       | _ -> ());
      (* ---------- (6) the XML documents of this op ---------- *)
      (* instances reassembled from the TOI-0 packets, against the model's record *)
      if model_live && !diff = None then
        List.iter (fun d -> match parse_desc d with
            | (RFdt (id, _), _, Some hex) ->
              (match List.filter (fun r -> r.i_id = id) (List.rev !insts) with
               | r :: _ ->
                 check_doc (Printf.sprintf "op%d:X%s" k (hex_of_n id)) hex r.i_complete r.i_lp r.i_listing (Some r.i_listing);
                 (match r.i_api with
                  | Some api -> if sorted api <> sorted r.i_listing then set_pfail (Printf.sprintf "op%d:X%s:listing<>added-removed-finished" k (hex_of_n id))
                  | None -> ())
               | [] -> set_diff (Printf.sprintf "op%d:X%s:instance-unknown-to-model" k (hex_of_n id)))
            | _ -> ()) (descs_of head);
      (* snapshot = what a publication now would carry: judged against the ledgers *)
      if snap <> "=" && snap <> "ERR" then begin
        let (hex, fp) = (match String.index_opt snap '~' with
            | Some p -> (String.sub snap 0 p, String.sub snap (p + 1) (String.length snap - p - 1))
            | None -> (snap, "ERR")) in
        let now = t_ns !cur_time in
        let want = if full then announced else List.filter (fun x -> List.mem x announced) !in_tx in
        let model_tois = (if model_live && !diff = None then Some (listed_tois !st) else None) in
        (match model_tois with
         | Some mt -> if sorted want <> sorted mt then set_diff (Printf.sprintf "op%d:snap:announced-set" k)
         | None -> ());
        check_doc (Printf.sprintf "op%d:snap" k) hex !complete_impl now want model_tois;
        (* flute's own parser on the same bytes *)
        if fp = "ERR" then fail_content (metas_of want !metas) (Printf.sprintf "op%d:snap:flute-parse-error" k)
        else begin
          let fx = xfdt_of_fparse fp in
          if not (p_C10_content cfg !complete_impl now (metas_of want !metas) fx)
          then set_pfail (Printf.sprintf "op%d:snap:P_C10_content(flute-parse)" k)
        end
      end else if snap = "ERR" then set_pfail (Printf.sprintf "op%d:fdt_xml_data-error" k))
    (List.combine ops toks);
  (* ---------------- instance ids, as seen on the wire: every published instance is transmitted, in order ---------------- *)
  begin
    let wire = ref [] in
    List.iter (fun (head, _, _, _) ->
        List.iter (fun d -> match (try Some (parse_desc d) with _ -> None) with
            | Some (RFdt (id, _), _, _) -> (match !wire with x :: _ when x = id -> () | _ -> wire := id :: !wire)
            | _ -> ()) (descs_of head)) toks;
    let ids = List.rev !wire in
    if not (p_C10_ids startid ids) then set_pfail "P_C10_ids(wire)";
    if not (p_C10_window (nat_of_int 64) ids) then set_pfail "P_C10_window(wire)"
  end;
  if !diff = None then begin
    let ids = List.map (fun r -> r.i_id) !insts in
    if not (p_C10_ids startid ids) then set_pfail "P_C10_ids";
    if not (p_C10_window (nat_of_int 64) ids) then set_pfail "P_C10_window"
  end;
  (* ---------------- the receiver's view ---------------- *)
  (* the documents the receiver was handed, parsed by the reference parser: the receiver-side model
     (Model/FdtRecv.v recv_meta) applied to one of them must give the metadata flute reports *)
  let rx_docs = List.filter_map (fun tk -> match String.split_on_char ':' tk with
      | ["RX"; "D"; hex; _] -> snd (ref_parse hex)
      | _ -> None) rx in
  let rmeta_eq (fi : bool) (a : rmeta) (b : rmeta) =
    a.r_loc = b.r_loc && a.r_clen = b.r_clen && a.r_ctype = b.r_ctype && a.r_cache = b.r_cache && a.r_groups = b.r_groups
    && a.r_md5 = b.r_md5 && a.r_etag = b.r_etag && a.r_cenc = b.r_cenc
    && (fi || (a.r_tlen = b.r_tlen && a.r_oti = b.r_oti)) in
  if !diff = None then
    List.iter (fun tk ->
        match String.split_on_char ':' tk with
        | ["RX"; "D"; hex; exp_us] ->
          let (doc, px) = ref_parse hex in
          if not (utf8_ok doc) then set_pfail "RX:D:not-utf8";
          let d32_some = List.concat_map (fun r -> if in_D38 cfg (metas_of r.i_listing !metas) then metas_of r.i_listing !metas else []) !insts in
          (match px with
           | None -> fail_content d32_some "RX:D:P_C10_wellformed"
           | Some x ->
             let cands = List.filter (fun r -> p_C10_content cfg r.i_complete r.i_lp (metas_of r.i_listing !metas) x) !insts in
             (match cands with
              | [] -> fail_content d32_some "RX:D:P_C10_instance(no published instance matches)"
              | r :: _ ->
                (* Expires as handed to the writer builder: whole NTP seconds as Unix microseconds *)
                let want = int_of_z r.i_lp / 1_000_000_000 * 1_000_000 + int_of_z dur / 1_000_000_000 * 1_000_000 in
                if int_of_n (n_of_hex exp_us) <> want then set_pfail "RX:D:expires"))
        | "RX" :: "W" :: _ ->
          let (toi, r) = rmeta_of_token tk in
          (match find_meta toi !metas with
           | None -> set_pfail "RX:W:unknown-toi"
           | Some m ->
             let fi = (try Hashtbl.find inband toi with Not_found -> true) in
             let ok = List.exists (fun ir -> List.mem toi ir.i_listing && p_C10_meta cfg fi ir.i_lp m r) !insts in
             if not ok then fail_content [m] (Printf.sprintf "RX:W:P_C10_meta:toi=%s" (hex_of_n toi));
             (* correspondence of the receiver-side model *)
             let agrees = List.exists (fun x ->
                 List.exists (fun f -> dec_is f.xf_toi toi
                                       && (match recv_meta b64_decode x f with MOk r' -> rmeta_eq fi r' r | _ -> false)) x.xi_files) rx_docs in
             if not agrees && not (in_D38 cfg [m]) then set_diff (Printf.sprintf "RX:W:recv_meta-model:toi=%s" (hex_of_n toi)))
        | _ -> ()) rx;
  match !diff with
  | Some d -> (match !pfail with Some why -> verdict_both why d | None -> verdict_diff d)
  | None ->
    if panicked then verdict_pfail "sender-panicked"
    else (match !pfail, !known with
        | Some why, _ -> verdict_pfail why
        | None, Some cls -> verdict_known cls
        | None, None -> verdict_ok (!docs_checked >= 2 && !files_checked >= 1 && !npkts >= 1))

let () = run_driver handle
