(* C05 driver.  For every session run by `fluteh path` (see harness/src/c05.rs for the line format):
   1. evaluates the Coq-defined predicates P_C05_confined / P_C05_complete_stored /
      P_C05_failed_leaves_no_file on what the harness OBSERVED in the file tree;
   2. recomputes the session with the extracted model (Model/Path.v): the mapping of the
      Content-Location the writer received (url::Url::parse outcome taken from the line - the url
      crate is an unconstrained oracle of the model), the writer state machine on the observed
      call sequence, and the predicted net change of the tree, and compares it with the observed
      change.
   `--unfixed` as second argument selects the model of the code as found (map_path_unfixed). *)
let unfixed = Array.length Sys.argv > 2 && Sys.argv.(2) = "--unfixed"

let bytes_of_hex (s : string) : string =
  if s = "-" then "" else
  String.init (String.length s / 2) (fun i -> Char.chr (int_of_string ("0x" ^ String.sub s (2 * i) 2)))
let str_of_string (s : string) : n list =
  List.init (String.length s) (fun i -> n_of_int (Char.code s.[i]))
let string_of_str (l : n list) : string =
  String.concat "" (List.map (fun c -> String.make 1 (Char.chr ((int_of_n c) land 255))) l)
(* canonical absolute path (as produced by walking the real tree) -> names below the root *)
let names_of_abs (s : string) : n list list =
  List.map str_of_string (List.filter (fun x -> x <> "") (String.split_on_char '/' s))
let show_path (p : n list list) = "/" ^ String.concat "/" (List.map string_of_str p)
let hex_of_string s = if s = "" then "-" else String.concat "" (List.init (String.length s) (fun i -> Printf.sprintf "%02x" (Char.code s.[i])))

let field (o : string list) (k : string) : string =
  let pre = k ^ "=" in
  let l = String.length pre in
  match List.find_opt (fun t -> String.length t >= l && String.sub t 0 l = pre) o with
  | Some t -> String.sub t l (String.length t - l)
  | None -> failwith ("missing field " ^ k)
let items (v : string) : (string * string) list =
  if v = "-" then [] else
  List.map (fun it -> match String.index_opt it ':' with
      | Some i -> (String.sub it 0 i, bytes_of_hex (String.sub it (i + 1) (String.length it - i - 1)))
      | None -> failwith "bad item") (String.split_on_char ',' v)

let env_ok = { parent_is_dir = false; mkdir_all_ok = true; create_ok = true }
let env_fail_upper = { parent_is_dir = false; mkdir_all_ok = false; create_ok = false }  (* create_dir_all ran, possibly partially *)
let env_fail_lower = { parent_is_dir = true; mkdir_all_ok = false; create_ok = false }   (* nothing ran *)

(* "o+wc" -> ops; failing opens get the environment [fail] *)
let ops_of_calls (s : string) (fail : fsenv) : wop list =
  let r = ref [] in
  let i = ref 0 in
  let n = String.length s in
  while !i < n do
    (match s.[!i] with
     | 'o' -> incr i; r := Open (if s.[!i] = '+' then env_ok else fail) :: !r
     | 'w' -> r := Write true :: !r
     | 'c' -> r := Complete :: !r
     | 'e' -> r := Error :: !r
     | 'i' -> r := Interrupted :: !r
     | _ -> failwith "bad call");
    incr i
  done;
  List.rev !r

let kind_code = function "D" -> n_of_int 0 | "F" -> n_of_int 1 | "X" -> n_of_int 2 | _ -> failwith "bad kind"
let kind_name k = match int_of_n k with 0 -> "D" | 1 -> "F" | _ -> "X"
let show_changes cs = if cs = [] then "-" else String.concat "," (List.map (fun (k, p) -> kind_name k ^ ":" ^ hex_of_string (show_path p)) cs)
let norm cs = List.sort_uniq compare (List.map (fun (k, p) -> (int_of_n k, List.map string_of_str p)) cs)
let subset a b = List.for_all (fun x -> List.mem x b) a

let rec take k l = if k = 0 then [] else match l with [] -> [] | x :: r -> x :: take (k - 1) r

let handle (i : string list) (o : string list) =
  match i, o with
  | "W" :: _, ["SKIP"] -> bump_kind "skipped-unconfined"; verdict_ok false
  | "W" :: _, ["PANIC"] -> verdict_both "session-panicked" "no-panic"
  | ["W"; form; outcome; _], _ ->
    let cl = field o "cl" and url = field o "url" in
    let dest = bytes_of_hex (field o "dest") and cwd = names_of_abs (bytes_of_hex (field o "cwd")) in
    let destr = names_of_abs (bytes_of_hex (field o "destreal")) in
    let calls = field o "calls" in
    let pre = items (field o "pre") in
    let pre_dirs = List.filter_map (fun (k, p) -> if k = "d" then Some (names_of_abs p) else None) pre in
    let pre_files = List.filter_map (fun (k, p) -> if k <> "d" then Some (names_of_abs p) else None) pre in
    let changes = List.map (fun (k, p) -> (kind_code k, names_of_abs p)) (items (field o "diff")) in
    let instances = if calls = "-" then [] else List.filter (fun x -> x <> "") (String.split_on_char 'n' calls) in
    let completed = List.exists (fun c ->
        String.length c >= 3 && String.sub c 0 2 = "o+" && c.[String.length c - 1] = 'c') instances in
    (* 1. the property, on the observation *)
    let fails =
      (if p_C05_confined destr changes then [] else ["P_C05_confined"]) @
      (if p_C05_complete_stored destr completed changes then [] else ["P_C05_complete_stored"]) @
      (if p_C05_failed_leaves_no_file completed changes then [] else ["P_C05_failed_leaves_no_file"]) in
    (* 2. the model *)
    let model_diff =
      if cl = "NONE" then begin
        bump_kind "no-writer";
        if changes = [] && instances = [] then None else Some "no-writer-expected-no-change"
      end else begin
        let loc = str_of_string (bytes_of_hex cl) in
        let u = match url with
          | "rel" -> UrlRelativeWithoutBase | "cab" -> UrlCannotBeABaseBase | "err" -> UrlOtherError
          | s when String.length s >= 3 && String.sub s 0 3 = "ok:" ->
            UrlOk (str_of_string (bytes_of_hex (String.sub s 3 (String.length s - 3))))
          | _ -> failwith "bad url field" in
        let dest_s = str_of_string dest in
        let mp = (if unfixed then map_path_unfixed else map_path) dest_s loc u in
        if walk cwd (components dest_s) <> destr then Some "dest-does-not-walk-to-the-real-directory"
        else if not (pmem cwd pre_dirs && dest_exists cwd dest_s pre_dirs) then Some "premise-dest-exists-false"
        else begin
          let run fail = List.concat_map (fun c -> wrun mp winit (ops_of_calls c fail)) instances in
          let upper = norm (predict cwd pre_dirs pre_files (run env_fail_upper)) in
          let lower = norm (predict cwd pre_dirs pre_files (run env_fail_lower)) in
          let obs = norm changes in
          (* results of open: the model refuses exactly the unmappable locations; a failing open of a
             mapped location must be explained by the tree (target is a directory, a file on the way,
             trailing separator, over-long or NUL-containing name) *)
          let open_ok_obs = List.map (fun c -> String.length c >= 2 && String.sub c 0 2 = "o+") instances in
          let justified p =
            let cs = components p in
            let target = walk cwd cs in
            let n = List.length cs in
            let on_the_way = List.init n (fun k -> walk cwd (take k cs)) in
            let ps = string_of_str p in
            let l = String.length ps in
            pmem target pre_dirs || pmem target on_the_way   (* the target is (or has just been made) a directory *)
            || (match List.rev cs with (ParentDir | CurDir | RootDir) :: _ | [] -> true | Normal _ :: _ -> false)  (* names a directory *)
            || List.exists (fun q -> pmem q pre_files) on_the_way
            || (l >= 1 && ps.[l - 1] = '/') || (l >= 2 && String.sub ps (l - 2) 2 = "/.")
            || String.contains ps '\000'
            || List.exists (fun c -> match c with Normal s -> List.length s > 255 | _ -> false) cs
            || l > 4000 in
          let bad_open = List.exists (fun ok ->
              match mp, ok with
              | None, true -> true
              | Some p, false -> not (justified p)
              | _ -> false) open_ok_obs in
          if not (List.for_all protocol_ok (List.map (fun c -> ops_of_calls c env_ok) instances)) then
            bump_kind "calls-other-than-open-writes-terminal";
          (match mp with
           | None -> bump_kind "refused"
           | Some _ -> bump_kind (if List.mem false open_ok_obs then "mapped-open-failed"
                                  else if completed then "stored" else "mapped-removed"));
          if bad_open then
            Some (Printf.sprintf "open-result:model-%s" (match mp with None -> "refuses" | Some p -> "maps-to:" ^ hex_of_string (string_of_str p)))
          else if subset lower obs && subset obs upper then None
          else Some ("changes:" ^ show_changes (predict cwd pre_dirs pre_files (run env_fail_upper)))
        end
      end in
    ignore form; ignore outcome;
    (match fails, model_diff with
     | [], None -> verdict_ok (cl <> "NONE")
     | [], Some d -> verdict_diff d
     | f, None -> verdict_pfail (String.concat "+" f)
     | f, Some d -> verdict_both (String.concat "+" f) d)
  | _ -> failwith "unknown line kind"

let () = run_driver handle
