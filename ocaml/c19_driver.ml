(* C19 driver: rebuilds the event stream that the harness fed to the receiver (from the bytes on the wire),
   recomputes the writer callbacks with the extracted Coq model, and evaluates the Coq-defined predicates
   P_C19_* on the IMPLEMENTATION's callbacks. *)
let h = n_of_hex
let z_of_n = function N0 -> Z0 | Npos p -> Zpos p
let z_of_shex (s : string) : z =
  if String.length s > 0 && s.[0] = '-' then
    (match n_of_hex (String.sub s 1 (String.length s - 1)) with N0 -> Z0 | Npos p -> Zneg p)
  else z_of_n (n_of_hex s)
let shex_of_z = function Z0 -> "0" | Zpos p -> hex_of_n (Npos p) | Zneg p -> "-" ^ hex_of_n (Npos p)
let bytes_of_hex (s : string) : n list =
  if s = "-" then []
  else List.init (String.length s / 2) (fun i -> n_of_int (int_of_string ("0x" ^ String.sub s (2 * i) 2)))
let fields (s : string) = String.split_on_char ',' s

let content_of (s : string) : fdtcontent =
  if s = "X" then None
  else begin
    match String.split_on_char ';' (String.sub s 1 (String.length s - 1)) with
    | [] -> failwith "bad content"
    | e :: tois -> Some (bytes_of_hex e, List.map h tois)
  end

(* one run: event tokens, each followed by the callbacks it caused.  An end callback becomes an EvObjEnd
   event placed right after the event during which it was observed (the data path is an oracle of the model). *)
let panicked = ref false
let parse_run (toks : string list) : event list * action list list =
  panicked := false;
  let toks = List.filter (fun t -> if t = "PANIC" then (panicked := true; false) else true) toks in
  let evs = ref [] and obs = ref [] in
  let cur_obs = ref [] and pending = ref [] in
  let remember : (string, bool) Hashtbl.t = Hashtbl.create 8 in
  let started = ref false in
  let flush () =
    if !started then begin
      (* hash-map iteration order is not an observable: callbacks of one event are sorted on the TOI *)
      let tkey a = (match a with AOpen (t, _) -> hex_of_n t | AEnd t -> hex_of_n t) in
      let lkey s = (String.length s, s) in
      obs := List.sort (fun a b -> compare (lkey (tkey a)) (lkey (tkey b))) !cur_obs :: !obs;
      List.iter (fun (ev, a) -> evs := ev :: !evs; obs := [a] :: !obs)
        (List.sort (fun (_, a) (_, b) -> compare (lkey (tkey a)) (lkey (tkey b))) !pending);
      cur_obs := []; pending := []
    end in
  List.iter (fun tok ->
    let c = tok.[0] in
    let rest = String.sub tok 1 (String.length tok - 1) in
    match c with
    | '+' ->
      (match fields rest with
       | [t; r] -> Hashtbl.replace remember t (r = "1"); cur_obs := AOpen (h t, N0) :: !cur_obs
       | _ -> failwith "bad open token")
    | '!' ->
      (match fields rest with
       | [t; k] ->
         let kind = if k = "c" then Done (try Hashtbl.find remember t with Not_found -> true) else Fail in
         pending := (EvObjEnd (h t, kind), AEnd (h t)) :: !pending
       | _ -> failwith "bad end token")
    | _ ->
      flush ();
      started := true;
      (match fields tok with
       | ["F"; id; sct; idx; n; now; content] ->
         evs := EvFdtPkt (h id, (if sct = "-" then None else Some (h sct)), h idx, h n, content_of content, z_of_shex now) :: !evs
       | ["O"; toi; first; now] -> evs := EvObjPkt (h toi, first = "1", z_of_shex now) :: !evs
       | ["C"; now] -> evs := EvCleanup (z_of_shex now) :: !evs
       | _ -> failwith ("bad event token " ^ tok))) toks;
  flush ();
  (List.rev !evs, List.rev !obs)

let split_runs (o : string list) : string list * string list =
  let rec go acc = function
    | [] -> (List.rev acc, [])
    | "#" :: r -> (List.rev acc, r)
    | x :: r -> go (x :: acc) r in
  go [] o

let key = function AOpen (t, _) -> (0, hex_of_n t) | AEnd t -> (1, hex_of_n t)
let canon (outs : action list list) = List.map (fun l -> List.sort compare (List.map key l)) outs
let show_outs (outs : action list list) =
  String.concat "/" (List.map (fun l -> String.concat "" (List.map (fun (k, t) -> (if k = 0 then "+" else "!") ^ t) l)) (canon outs))

let is_f = function EvFdtPkt (_, _, _, _, Some _, _) -> true | _ -> false
let is_o = function EvObjPkt _ -> true | _ -> false
let is_end = function EvObjEnd _ -> true | _ -> false

(* model recomputation + predicates (a), (b) for one run; returns (diff option, pfail option) *)
let rec drop_last_real = function
  | [] -> []
  | l -> (match List.rev l with
      | e :: r when is_end e -> drop_last_real (List.rev r)
      | _ :: r -> List.rev r
      | [] -> [])
let check_run (cfg : config) (impl_panicked : bool) (evs, obs) =
  let diff =
    if impl_panicked then begin
      (* the receiver panicked during the last event: the model must panic there and not earlier *)
      match outputs cfg evs, outputs cfg (drop_last_real evs) with
      | None, Some _ -> None
      | Some _, _ -> Some "model:no-panic"
      | None, None -> Some "model:earlier-panic"
    end else
    match outputs cfg evs with
    | None -> Some "model:PANIC"
    | Some m -> if canon m <> canon obs then Some (show_outs m) else None in
  if impl_panicked then (diff, None) else
  let pf =
    if not (uniform_sct evs) then None
    else if not (p_C19_sound cfg.c_check evs obs) then Some "P_C19_sound"
    else if not (p_C19_silent cfg.c_check evs obs) then Some "P_C19_silent"
    else None in
  (diff, pf)

let report diffs pfs nontrivial =
  match List.filter_map (fun x -> x) pfs, List.filter_map (fun x -> x) diffs with
  | [], [] -> verdict_ok nontrivial
  | p :: _, [] -> verdict_pfail p
  | [], d :: _ -> verdict_diff d
  | p :: _, d :: _ -> verdict_both p d

let handle (i : string list) (o : string list) =
  match i with
  | ["N"; t] ->
    let model = system_time_to_ntp (z_of_shex t) in
    (match o, model with
     | ["ERR"], None -> verdict_ok true
     | [v], Some m when h v = m -> verdict_ok true
     | _, Some m -> verdict_diff (hex_of_n m)
     | _, None -> verdict_diff "ERR")
  | ["M"; v] ->
    let model = ntp_to_system_time (h v) in
    (match o, model with
     | ["ERR"], None -> verdict_ok true
     | [t], Some m when t <> "ERR" && t <> "PANIC" && z_of_shex t = m -> verdict_ok true
     | _, Some m -> verdict_diff (shex_of_z m)
     | _, None -> verdict_diff "ERR")
  | "S" :: d :: t0 :: xf :: dly :: ro :: skew :: sct :: chk :: order :: refresh :: cleanup :: _esym :: nobj :: [] ->
    if o = ["PANIC"] then verdict_diff "harness-panic"
    else begin
      let cfg = { c_check = (chk <> "0"); c_once = true } in
      let (ta, tb) = split_runs o in
      let ra = parse_run ta in let pan_a = !panicked in
      let rb = parse_run tb in let pan_b = !panicked in
      let (da, pa) = check_run cfg pan_a ra and (db, pb) = check_run cfg pan_b rb in
      let (evs_a, obs_a) = ra and (evs_b, obs_b) = rb in
      (* (c) run B is the same session under receiver skew 0 *)
      let pc = if (not cfg.c_check || all_sct evs_a) && not pan_a && not pan_b && not (p_C19_same obs_a obs_b) then Some "P_C19_same(skew)" else None in
      (* (d) closed form, for single-object sessions whose FDT is one packet and whose later instances are dropped *)
      let mk skew = { se_d = h d; se_t0 = z_of_shex t0; se_xf = z_of_shex xf; se_dly = z_of_shex dly; se_ro = z_of_shex ro;
                      se_skew = skew; se_sct = (sct <> "0"); se_chk = cfg.c_check; se_order = (order <> "0");
                      se_cleanup = (cleanup <> "0") } in
      let plain evs = List.filter (fun e -> not (is_end e)) evs in
      let single = nobj = "1" && refresh = "0" && not pan_a && not pan_b
                   && List.for_all (function EvFdtPkt (_, _, _, n, _, _) -> n = n_of_int 1 | _ -> true) evs_a in
      let session_checks p evs obs =
        match List.find_opt is_f evs with
        | Some (EvFdtPkt (_, wsct, _, _, Some (es, _), _)) ->
          (* what the sender put on the wire, against the sender-side functions of tools/mod.rs *)
          let want_sct = if p.se_sct then system_time_to_ntp (Z.add p.se_t0 p.se_xf) else None in
          let shape = session_events p wsct es = plain evs && wsct = want_sct
                      && (match parse_u32 es with
                          | Some v -> v = se_expires_ntp p
                          (* an Expires beyond the 32-bit NTP seconds is written in full by the sender and not representable *)
                          | None -> N.leb (n_of_hex "100000000") (se_expires_ntp p)) in
          ((if shape then None else Some "session-shape"),
           (if (session_ok p || session_ok_unchecked p) && not (p_C19_session p obs) then Some "P_C19_session" else None))
        | _ -> (Some "session-without-fdt", None) in
      let (ds, ps) =
        if single then begin
          let (d1, p1) = session_checks (mk (z_of_shex skew)) evs_a obs_a in
          let (d2, p2) = session_checks (mk Z0) evs_b obs_b in
          ([d1; d2], [p1; p2])
        end else ([], []) in
      let nontrivial = List.exists is_f evs_a && List.exists is_o evs_a in
      report ([da; db] @ ds) ([pa; pb; pc] @ ps) nontrivial
    end
  | "R" :: cfgtok :: _ ->
    if o = ["PANIC"] then verdict_diff "harness-panic"
    else begin
      let cfg = (match fields cfgtok with
          | ["cfg"; chk; once; _] -> { c_check = (chk <> "0"); c_once = (once <> "0") }
          | _ -> failwith "bad cfg token") in
      let (ta, tb) = split_runs o in
      let ra = parse_run ta in let pan_a = !panicked in
      let rb = parse_run tb in let pan_b = !panicked in
      let (da, pa) = check_run cfg pan_a ra and (db, pb) = check_run cfg pan_b rb in
      let (evs_a, obs_a) = ra and (_, obs_b) = rb in
      let pc = if (not cfg.c_check || all_sct evs_a) && not pan_a && not pan_b && not (p_C19_same obs_a obs_b) then Some "P_C19_same(shift)" else None in
      let nontrivial = List.exists is_f evs_a && List.exists is_o evs_a in
      report [da; db] [pa; pb; pc] nontrivial
    end
  | _ -> failwith "unknown line kind"

let () = run_driver handle
