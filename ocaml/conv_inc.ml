(* ---- shared helpers, textually appended after an extracted model (types positive, n, nat) ---- *)
let n_of_hex (s : string) : n =
  let bits = ref [] in
  String.iter (fun c ->
    let v = match c with
      | '0'..'9' -> Char.code c - 48
      | 'a'..'f' -> Char.code c - 87
      | 'A'..'F' -> Char.code c - 55
      | _ -> failwith ("bad hex: " ^ s) in
    bits := (v land 1 = 1) :: (v land 2 = 2) :: (v land 4 = 4) :: (v land 8 = 8) :: !bits) s;
  (* !bits is LSB first *)
  let msb_first = List.rev !bits in
  let rec strip = function false :: r -> strip r | l -> l in
  match strip msb_first with
  | [] -> N0
  | _ :: rest -> Npos (List.fold_left (fun p b -> if b then XI p else XO p) XH rest)

let hex_of_n (x : n) : string =
  match x with
  | N0 -> "0"
  | Npos p ->
    let rec bits p acc = match p with   (* returns LSB-first list *)
      | XH -> List.rev (true :: acc)
      | XO q -> bits q (false :: acc)
      | XI q -> bits q (true :: acc) in
    let lsb = bits p [] in
    let rec nibbles l acc = match l with
      | [] -> acc
      | _ ->
        let take k l = let rec go k l v w = if k = 0 then (v, l) else match l with
            | [] -> (v, [])
            | b :: r -> go (k - 1) r (if b then v lor w else v) (w * 2) in go k l 0 1 in
        let (v, r) = take 4 l in nibbles r (v :: acc) in
    let ns = nibbles lsb [] in
    String.concat "" (List.map (Printf.sprintf "%x") ns)

let rec nat_of_int (i : int) : nat = if i <= 0 then O else S (nat_of_int (i - 1))
let rec int_of_nat (x : nat) : int = match x with O -> 0 | S y -> 1 + int_of_nat y
let n_of_int (i : int) : n = n_of_hex (Printf.sprintf "%x" i)
let int_of_n (x : n) : int = int_of_string ("0x" ^ hex_of_n x)

let split_ws (s : string) : string list =
  List.filter (fun x -> x <> "") (String.split_on_char ' ' s)

(* a trace line is "<input tokens> | <output tokens>" *)
let split_case (line : string) : string list * string list =
  match String.index_opt line '|' with
  | None -> (split_ws line, [])
  | Some i -> (split_ws (String.sub line 0 i),
               split_ws (String.sub line (i + 1) (String.length line - i - 1)))

(* verdicts: only failing cases are printed, "<verdict> <1-based line number> ...";
   distinct non-trivial cases are counted on the digest of the input part *)
let n_ok = ref 0 and n_diff = ref 0 and n_pfail = ref 0 and n_known = ref 0
let lineno = ref 0
let cur_input = ref ""
let seen : (string, unit) Hashtbl.t = Hashtbl.create 100000
let kinds : (string, int ref) Hashtbl.t = Hashtbl.create 16
let bump_kind k = match Hashtbl.find_opt kinds k with Some r -> incr r | None -> Hashtbl.add kinds k (ref 1)
let verdict_ok nontrivial =
  incr n_ok;
  if nontrivial then begin
    let d = Digest.string !cur_input in
    if not (Hashtbl.mem seen d) then Hashtbl.add seen d ()
  end
let verdict_diff model_out = incr n_diff; Printf.printf "DIFF %d model=%s\n" !lineno model_out
let verdict_pfail why = incr n_pfail; Printf.printf "PFAIL %d %s\n" !lineno why
let verdict_both why model_out = incr n_pfail; incr n_diff; Printf.printf "PFAIL %d %s DIFF model=%s\n" !lineno why model_out
(* a case on which the property is known to fail (listed class); reported, not an alarm *)
let verdict_known cls = incr n_known; Printf.printf "KNOWN %d %s\n" !lineno cls

let run_driver (handle : string list -> string list -> unit) =
  let ic = if Array.length Sys.argv > 1 then open_in Sys.argv.(1) else stdin in
  (try
    while true do
      let line = input_line ic in
      incr lineno;
      if String.length line > 0 && line.[0] <> '#' then begin
        let (i, o) = split_case line in
        cur_input := String.concat " " i;
        (match i with k :: _ -> bump_kind k | [] -> ());
        (try handle i o with
         | Failure m -> verdict_diff ("driver-failure:" ^ String.map (fun c -> if c = ' ' then '_' else c) m)
         | Not_found -> verdict_diff "driver-failure:Not_found"
         | Invalid_argument m -> verdict_diff ("driver-failure:" ^ String.map (fun c -> if c = ' ' then '_' else c) m)
         | Stack_overflow -> verdict_diff "driver-stack-overflow")
      end
    done
  with End_of_file -> ());
  let ks = Hashtbl.fold (fun k r acc -> Printf.sprintf "%s:%d" k !r :: acc) kinds [] in
  Printf.printf "SUMMARY ok=%d diff=%d pfail=%d known=%d distinct_nontrivial=%d kinds=%s\n"
    !n_ok !n_diff !n_pfail !n_known (Hashtbl.length seen) (String.concat "," (List.sort compare ks))
