(* C08 / C20 driver.  argv: <trace> [c08|c20] [fixed|orig] *)
let mode = if Array.length Sys.argv > 2 then Sys.argv.(2) else "c08"

let bytes_of_hex s =
  if s = "-" then [] else
  List.init (String.length s / 2) (fun i -> n_of_int (int_of_string ("0x" ^ String.sub s (2 * i) 2)))
let hex_of_bytes l = if l = [] then "-" else String.concat "" (List.map (fun b -> Printf.sprintf "%02x" (int_of_n b)) l)

let fec_of = function
  | "nocode" -> NoCode | "rs28" -> RS28 | "rs28us" -> RS28US | "raptorq" -> RaptorQ | "raptor" -> Raptor
  | s -> failwith ("fec " ^ s)

(* oracle: repair payloads are not compared (canonicalised to []), only their number matters *)
let rep _fec _sbn _buf _k parity = List.init (int_of_n parity) (fun _ -> [])

(* oracle: raptor-code 1.0.10 SourceBlockEncoder::new: refuses K in {2,3}; cuts the block into K
   semi-equal symbols (Partition::new) *)
let raptor_src buf k =
  let len = List.length buf and k = int_of_n k in
  if k = 2 || k = 3 then None
  else if k = 0 then Some []
  else begin
    let il = (len + k - 1) / k and is_ = len / k in
    let jl = len - is_ * k in
    let js = k - jl in
    let rec take n l = if n = 0 then ([], l) else match l with [] -> ([], []) | x :: r -> let (a, b) = take (n - 1) r in (x :: a, b) in
    let rec go cnt size l acc = if cnt = 0 then (List.rev acc, l) else let (a, b) = take size l in go (cnt - 1) size b (a :: acc) in
    let (longs, rest) = go jl il buf [] in
    let (smalls, _) = go js is_ rest [] in
    Some (longs @ smalls)
  end

let canon_pkt p = if p.p_src then p else { p with p_payload = [] }

let parse_pkt k_of tok =
  match String.split_on_char ':' tok with
  | ["P"; sbn; esi; close; k; payload] ->
    let esi = n_of_hex esi and k = n_of_hex k in
    { p_sbn = n_of_hex sbn; p_esi = esi; p_payload = bytes_of_hex payload; p_close = (close = "1");
      p_k = k; p_src = N.ltb esi k }
  | _ -> failwith ("pkt " ^ tok)

let show_out = function
  | OPkt p -> Printf.sprintf "P:%s:%s:%d:%s:%s" (hex_of_n p.p_sbn) (hex_of_n p.p_esi) (if p.p_close then 1 else 0)
                (hex_of_n p.p_k) (hex_of_bytes p.p_payload)
  | ONone -> "NONE" | OPanic -> "PANIC" | OOutOfFuel -> "OUTOFFUEL"

let rec first_true i = function [] -> None | true :: _ -> Some (nat_of_int i) | false :: r -> first_true (i + 1) r

let handle (i : string list) (o : string list) =
  match i with
  | ["E"; fec; e; b; parity; window; closable; src; content; forces; reads] ->
    let content = bytes_of_hex content in
    let forces = if forces = "-" then [] else List.init (String.length forces) (fun i -> forces.[i] = '1') in
    let reads = if reads = "-" then [] else List.map n_of_hex (String.split_on_char ',' reads) in
    (match o with
     | _ :: "BADOTI" :: _ -> verdict_ok false
     | prof :: rest ->
       let c = { c_fec = fec_of fec; c_e = n_of_hex e; c_b = n_of_hex b; c_parity = n_of_hex parity;
                 c_window = nat_of_int (int_of_n (n_of_hex window)); c_closable = (closable = "1");
                 c_tlen = lenN content; c_debug = (prof = "dev") } in
       let blocks_buf = blocks_of_buffer rep raptor_src c content in
       (* a stream source is run through Model.StreamPos: the position the stream is handed over at
          ("stream@<hex>", 0 otherwise) and the seek of BlockEncoder::new are part of the model that is executed *)
       let stream_pos = match String.index_opt src '@' with
         | Some i -> n_of_hex (String.sub src (i + 1) (String.length src - i - 1)) | None -> n_of_hex "0" in
       let blocks = if src = "buf" then blocks_buf
         else transfer_blocks rep raptor_src true c { ss_bytes = content; ss_pos = stream_pos } reads in
       let fuel = nat_of_int (int_of_nat (total_shards blocks) + 3) in
       let model = enc_run fuel c forces (est_init blocks) in
       let model = List.map (function OPkt p -> OPkt (canon_pkt p) | x -> x) model in
       (* for C20 the expectation is the buffer run *)
       let model_buf = if src = "buf" then model else
           List.map (function OPkt p -> OPkt (canon_pkt p) | x -> x)
             (enc_run (nat_of_int (int_of_nat (total_shards blocks_buf) + 3)) c forces (est_init blocks_buf)) in
       let accepts = filedesc_accepts c in
       (* wire image of the FEC payload id: reported by the harness when (sbn, esi) does not survive the field widths *)
       if List.exists (fun t -> String.length t > 5 && String.sub t 0 5 = "WIRE:") rest then verdict_pfail "P_C08_wire_payload_id"
       else
       if List.mem "REFUSED" rest then (if accepts then verdict_diff "model-accepts" else verdict_ok false)
       else if List.mem "ENCERR" rest then verdict_diff "ENCERR"
       else if not accepts then begin
         (* the implementation transmits an object the model refuses: judge what it put on the wire *)
         let toks = List.filter (fun t -> String.length t > 1 && t.[0] = 'P' && t.[1] = ':') rest in
         let impl_pkts = List.map (fun t -> canon_pkt (parse_pkt () t)) toks in
         let endtok = List.nth rest (List.length rest - 1) in
         if mode <> "c20" && not ((endtok = "NONE") && p_C08_transfer c content (first_true 0 forces) impl_pkts)
         then verdict_both "P_C08_transfer" "model-refuses" else verdict_diff "model-refuses"
       end
       else begin
         let toks = List.filter (fun t -> String.length t > 1 && t.[0] = 'P' && t.[1] = ':') rest in
         let endtok = List.nth rest (List.length rest - 1) in
         let impl_pkts = List.map (fun t -> canon_pkt (parse_pkt () t)) toks in
         let impl = List.map (fun p -> OPkt p) impl_pkts @ [ (match endtok with "NONE" -> ONone | "PANIC" -> OPanic | _ -> OOutOfFuel) ] in
         let forced_at = first_true 0 forces in
         let p = (endtok = "NONE") && p_C08_transfer c content forced_at impl_pkts in
         let p20 = if src = "buf" then true else impl = model_buf in
         let same = (impl = model) in
         let nontrivial = List.length impl_pkts >= 2 in
         let show m = String.concat " " (List.map show_out m) in
         if mode = "c20" then begin
           if not p20 then (if same then verdict_pfail "P_C20_same_as_buffer" else verdict_both "P_C20_same_as_buffer" (show model))
           else if not same then verdict_diff (show model)
           else verdict_ok nontrivial
         end else begin
           if not p && known_D30 c then verdict_known "D30"
           else if not p then (if same then verdict_pfail "P_C08_transfer" else verdict_both "P_C08_transfer" (show model))
           else if not same then verdict_diff (show model)
           else verdict_ok nontrivial
         end
       end
     | [] -> failwith "empty output")
  | "Y" :: _ ->
    (* C20 under a content encoding: the run from a stream equals the run from a buffer (lengths, MD5, packets) *)
    (match o with
     | _ :: "BADOTI" :: _ -> verdict_ok false
     | _ :: rest ->
       let rec split acc = function
         | "//" :: r -> (List.rev acc, r)
         | x :: r -> split (x :: acc) r
         | [] -> (List.rev acc, []) in
       let (a, s) = split [] rest in
       if a = [] || s = [] then failwith "bad Y line"
       (* a content encoding on a stream source is refused when the object is created (D45): nothing is sent *)
       else if s = ["OBJERR"] then verdict_ok false
       else if a <> s then verdict_pfail "P_C20_same_as_buffer(content-encoded)"
       else verdict_ok (List.length a >= 4)
     | [] -> failwith "empty output")
  | _ -> failwith "unknown line kind"

let () = run_driver handle
