(* C07 driver: recomputes every trace line with the extracted Coq model and evaluates the
   Coq-defined predicates P_C07_* on the implementation's output. *)
let h = n_of_hex
let show4 (((a, b), c), d) = Printf.sprintf "%s,%s,%s,%s" (hex_of_n a) (hex_of_n b) (hex_of_n c) (hex_of_n d)
let show_opt = function None -> "PANIC" | Some v -> hex_of_n v
let nblocks b l e = let (((_, _), _), n) = block_partitioning b l e in n
let two = n_of_int 2

let handle (i : string list) (o : string list) =
  match i with
  | ["P"; b; l; e] ->
    let b = h b and l = h l and e = h e in
    let model = block_partitioning64 b l e in
    let nontrivial = N.leb two (nblocks b l e) in
    (match o, model with
     | [al; as_; nal; n], Some m ->
       let impl = (((h al, h as_), h nal), h n) in
       let p = p_C07_partition b l e impl in
       if not p then verdict_pfail "P_C07_partition"
       else if impl <> m then verdict_diff (show4 m)
       else verdict_ok nontrivial
     | ["PANIC"], None -> verdict_ok nontrivial
     | ["PANIC"], Some m -> verdict_both "panic" (show4 m)
     | _, _ -> verdict_diff "model-overflow-or-bad-line")
  | ["L"; b; l; e; s] ->
    let b = h b and l = h l and e = h e and s = h s in
    let (((al, as_), nal), n) = block_partitioning b l e in
    let model = block_length64 al as_ nal l e s in
    let nontrivial = N.leb two n && N.ltb s n in
    let impl = (match o with ["PANIC"] -> None | [v] -> Some (h v) | _ -> failwith "bad L line") in
    let p = p_C07_block_length b l e s impl in
    if not p then verdict_pfail "P_C07_block_length"
    else if impl <> model then verdict_diff (show_opt model)
    else verdict_ok nontrivial
  | ["S"; b; l; e] ->
    let b = h b and l = h l and e = h e in
    let (((al, as_), nal), n) = block_partitioning b l e in
    let model = sender_slices (nat_of_int (int_of_n n)) al as_ nal e l N0 N0 in
    let impl = List.map h o in
    let p = p_C07_wire_lengths b l e impl in
    if not p then verdict_pfail "P_C07_wire_lengths"
    else if impl <> model then verdict_diff (String.concat "," (List.map hex_of_n model))
    else verdict_ok (N.leb two n)
  | ["Z"; b; _; e] ->
    (* content-encoded object: the blocks on the wire partition the transfer length the sender announced *)
    let b = h b and e = h e in
    (match o with
     | tl :: lens ->
       let l = h tl in
       let (((al, as_), nal), n) = block_partitioning b l e in
       let model = sender_slices (nat_of_int (int_of_n n)) al as_ nal e l N0 N0 in
       let impl = List.map h lens in
       if not (p_C07_wire_lengths b l e impl) then verdict_pfail "P_C07_wire_lengths(transfer-length)"
       else if impl <> model then verdict_diff (String.concat "," (List.map hex_of_n model))
       else verdict_ok (N.leb two n)
     | _ -> failwith "bad Z line")
  | [("R" | "Q"); b; l; e] ->
    let b = h b and l = h l and e = h e in
    let n = nblocks b l e in
    let model = reconstructed_b n l e in
    (match o with
     | [z; b'] ->
       let z = h z and b' = h b' in
       let p = p_C07_reconstruction b l e b' in
       if not p then verdict_pfail "P_C07_reconstruction"
       else if z <> n || b' <> model then verdict_diff (hex_of_n n ^ "," ^ hex_of_n model)
       else verdict_ok (N.leb two n)
     | ["NONE"] -> verdict_ok false   (* the object was refused (Raptor blocks of 2 or 3 symbols) *)
     | _ -> failwith "bad R line")
  | _ -> failwith "unknown line kind"

let () = run_driver handle
