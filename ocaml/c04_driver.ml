(* C04 driver: for every datagram of every case the extracted checked parser model
   (observe_fixed : parse_alc_pkt / get_sender_current_time / parse_payload_id of the repaired code)
   is recomputed and compared with what flute's parser did, P_C04_parse is evaluated on the
   implementation's outcome, the reject path of Receiver::push_data / MultiReceiver::push is compared
   with the model (a datagram the model refuses must have been answered Err), and P_C04_case is
   evaluated on the observed calls, follow-up delivery, heap and time. *)
let byte_tbl : n array = Array.init 256 n_of_int
let nibble c = match c with
  | '0'..'9' -> Char.code c - 48 | 'a'..'f' -> Char.code c - 87 | 'A'..'F' -> Char.code c - 55
  | _ -> failwith "hex"
let ints_of_hex (s : string) : int list =
  if s = "-" then [] else List.init (String.length s / 2) (fun i -> nibble s.[2 * i] * 16 + nibble s.[2 * i + 1])
let nlist_of_ints (l : int list) : n list = List.map (fun b -> byte_tbl.(b)) l

let kvs toks = List.filter_map (fun t -> match String.index_opt t '=' with
    | Some i -> Some (String.sub t 0 i, String.sub t (i + 1) (String.length t - i - 1)) | None -> None) toks

let outcome_of_char = function 'O' -> OOk | 'E' -> OErr | 'P' -> OPanic | 'H' -> OHang | _ -> OCrash
let outcomes_of s = if s = "-" then [] else List.init (String.length s) (fun i -> outcome_of_char s.[i])
let code_of_n x = int_of_n x

(* compare one datagram: returns (pfail reasons, diff reasons) *)
let check_datagram (d : int list) (a : char) (s : char) (i : char) : string list * string list =
  let data = nlist_of_ints d in
  let Obs (mp, ms, mi) = observe_fixed data in
  let mp = code_of_n mp and ms = code_of_n ms and mi = code_of_n mi in
  let pf = ref [] and df = ref [] in
  if not (p_C04_parse data (outcome_of_char a)) then pf := (if a = 'P' then "parse-panicked" else "parse-accepted-short-datagram") :: !pf;
  if s = 'P' then pf := "sender-current-time-panicked" :: !pf;
  if i = 'P' then pf := "payload-id-panicked" :: !pf;
  let want_a = (match mp with 0 -> 'O' | 1 -> 'E' | _ -> 'P') in
  if want_a <> a then df := Printf.sprintf "parse:model=%c" want_a :: !df
  else if mp = 0 then begin
    let s_code = (match s with 'N' | 'T' -> 0 | 'E' -> 1 | 'P' -> 2 | _ -> 3) in
    if s_code <> ms then df := Printf.sprintf "sct:model=%d" ms :: !df;
    let i_code = (match i with 'O' -> 0 | 'E' -> 1 | 'P' -> 2 | _ -> 3) in
    if i_code <> mi then df := Printf.sprintf "pid:model=%d" mi :: !df
  end;
  (!pf, !df)

let model_rejects (d : int list) : bool =
  match parse_alc_pkt_fixed (nlist_of_ints d) with Ok _ -> false | _ -> true

let get kv k = try List.assoc k kv with Not_found -> failwith ("missing token " ^ k)
let geti kv k = int_of_string (get kv k)
let nat_n i = n_of_int (max 0 i)

let report pf df nontrivial =
  match pf, df with
  | [], [] -> verdict_ok nontrivial
  | [], d :: _ -> verdict_diff d
  | p :: _, [] -> verdict_pfail (String.concat "," (List.sort_uniq compare pf))
  | p :: _, d :: _ -> verdict_both (String.concat "," (List.sort_uniq compare pf)) d

let handle (i : string list) (o : string list) =
  match o with
  | ["HANG"] -> verdict_pfail "a-call-did-not-return-within-the-watchdog"
  | ["CRASH"] -> verdict_pfail "the-process-died(allocation-beyond-the-limit-or-abort)"
  | ["NOSESSION"] | ["BAD"] | ["GENPANIC"] -> verdict_ok false
  | _ ->
    let kv = kvs o in
    let kind = List.hd i in
    let pf = ref [] and df = ref [] in
    let add (p, d) = pf := p @ !pf; df := d @ !df in
    (* `-` stands for the empty string only when the sequence is empty; otherwise it is a per-datagram mark *)
    let star0 = (kind = "Y" && List.nth i 3 = "*") in
    let dash x = if (not star0) && (try geti kv "n" = 0 with _ -> false) && x = "-" then "" else x in
    let a = dash (get kv "A") and s = dash (get kv "S") and ii = dash (get kv "I") in
    let star = (kind = "Y" && List.nth i 3 = "*") in
    if star then begin
      (* 256 variants of one packet: index = substituted value *)
      let base = Array.of_list (ints_of_hex (get kv "base")) in
      let off = int_of_string (List.nth i 2) in
      let v = get kv "V" in
      for value = 0 to 255 do
        let d = Array.to_list (Array.mapi (fun k b -> if k = off then value else b) base) in
        add (check_datagram d a.[value] s.[value] ii.[value]);
        (match v.[value] with
         | 'P' -> pf := Printf.sprintf "a-call-panicked(value=%d)" value :: !pf
         | 'F' -> pf := Printf.sprintf "follow-up-session-not-delivered(value=%d)" value :: !pf
         | _ -> ())
      done;
      let heap = max (geti kv "Rh") (geti kv "Mh") and us = max (geti kv "Rt") (geti kv "Mt") in
      let c = { co_calls = []; co_followup = []; co_touched = true; co_delivered = true;
                co_heap = nat_n heap; co_n = nat_n (geti kv "n"); co_bytes = N0; co_max_us = nat_n us } in
      if not (p_C04_bounded c) then pf := Printf.sprintf "heap-or-time-beyond-the-bound(heap=%d,us=%d)" heap us :: !pf;
      report !pf !df (String.contains v 'o')
    end else begin
      let datagrams : int list option list =
        (match kind with
         | "B" ->
           let n = int_of_string (List.nth i 1) in
           if n = 0 then [Some []]
           else let prefix = ints_of_hex (List.nth i 2) in
             List.init 256 (fun b -> Some (prefix @ [b]))
         | "G" -> List.map (fun h -> Some (ints_of_hex h)) (List.tl i)
         | _ ->
           (* an empty sequence is written `D=-`; an empty datagram inside a sequence is `-` too *)
           if geti kv "n" = 0 then []
           else List.map (fun h -> if h = "=" then None else Some (ints_of_hex h)) (String.split_on_char ',' (get kv "D"))) in
      let r = dash (get kv "R") and m = dash (get kv "M") in
      let mutated = ref false in
      List.iteri (fun k d ->
          match d with
          | None -> ()
          | Some d ->
            mutated := true;
            if k < String.length a then begin
              add (check_datagram d a.[k] s.[k] ii.[k]);
              (* reject_leaves_state, observable part: what the model refuses was answered Err *)
              if model_rejects d then begin
                if k < String.length r && r.[k] <> 'E' && r.[k] <> 'P' then df := Printf.sprintf "receiver-accepted-a-datagram-the-model-refuses(%d)" k :: !df;
                if k < String.length m && m.[k] <> 'E' && m.[k] <> 'P' then df := Printf.sprintf "multireceiver-accepted-a-datagram-the-model-refuses(%d)" k :: !df
              end
            end) datagrams;
      let rx = get kv "Rx" and mx = get kv "Mx" in
      let calls = outcomes_of r @ outcomes_of rx @ outcomes_of m @ outcomes_of mx in
      let fu = outcomes_of (get kv "Rf") @ outcomes_of (get kv "Mf") in
      let heap = max (geti kv "Rh") (geti kv "Mh") and us = max (geti kv "Rt") (geti kv "Mt") in
      (* U lines: a genuine packet of the follow-up with an impossible block number displaces no data: whatever
         the call answered, the follow-up (which restarts the object with its first symbol) must be delivered *)
      let c = { co_calls = calls; co_followup = fu; co_touched = (kind <> "U" && get kv "touched" = "1");
                co_delivered = (get kv "Rd" = "1" && get kv "Md" = "1");
                co_heap = nat_n heap; co_n = nat_n (geti kv "n"); co_bytes = nat_n (geti kv "bytes"); co_max_us = nat_n us } in
      if not (p_C04_case c) then begin
        if not (p_C04_calls calls) then pf := ("a-call-panicked:" ^ (try get kv "W" with _ -> "?")) :: !pf;
        if not (p_C04_usable c) then pf := "follow-up-session-not-delivered" :: !pf;
        if not (p_C04_bounded c) then pf := Printf.sprintf "heap-or-time-beyond-the-bound(heap=%d,us=%d)" heap us :: !pf
      end;
      report !pf !df (kind = "B" || !mutated)
    end

let () = run_driver handle
