(* C06 driver.  Two modes:
     c06_driver <trace>            check every trace line of `fluteh wire`
     c06_driver --encode <in> <out>  for every "R ..." descriptor line of <in> write the bytes (hex) the
                                   extracted Gallina RFC ENCODER (rfc_alc_encode) produces; the harness feeds
                                   them to flute's parser.
   Line kinds (numbers hex, '-' = absent):
     BL psi cci tsi toi cp co cs                      | hex                 push_lct_header
     NT now_ns                                        | Ok ntp us|ERR / ERR system_time_to_ntp, ntp_to_system_time
     BP fec inst B E parity ss inband cci tsi toi fdtid cenc ibcenc co sbn esi sbl sct L prof now payload
                                                      | Ok hex / PANIC      new_alc_pkt
     R  m v c psi s o h res a b cp cci tsi toi n ext*n sbn.esi.sbl payload
                                                      | Ok ... / ERR / PANIC   parser on the RFC encoder's bytes
     M  m hex                                         | Ok ... / ERR / PANIC   parser on raw (mutated) bytes *)
let h = n_of_hex
let hx = hex_of_n
let byte_tab = Array.init 256 n_of_int
let bytes_of_hex (s : string) : n list =
  if s = "-" then [] else begin
    let k = String.length s / 2 in
    let rec go i acc = if i < 0 then acc
      else go (i - 1) (byte_tab.(int_of_string ("0x" ^ String.sub s (2 * i) 2)) :: acc) in
    go (k - 1) []
  end
let hex_of_bytes (l : n list) : string =
  if l = [] then "-" else begin
    let b = Buffer.create 64 in
    List.iter (fun x -> Buffer.add_string b (Printf.sprintf "%02x" (int_of_n x))) l;
    Buffer.contents b
  end
let z_of_str (s : string) : z =
  if String.length s > 0 && s.[0] = '-' then
    (match h (String.sub s 1 (String.length s - 1)) with N0 -> Z0 | Npos p -> Zneg p)
  else (match h s with N0 -> Z0 | Npos p -> Zpos p)
let bool_of s = (s = "1")
let opt_of s = if s = "-" then None else Some (h s)
let dots s = String.split_on_char '.' s
let show_opt = function None -> "-" | Some v -> hx v

let fec_of s = match fec_of_code (h s) with Some f -> f | None -> failwith "bad fec"
let ss_of s = match dots s with
  | ["-"] -> None
  | ["R"; m; g] -> Some (SSReedSolomon (h m, h g))
  | ["Q"; z; n; al] -> Some (SSRaptorQ (h z, h n, h al))
  | ["P"; z; n; al] -> Some (SSRaptor (h z, h n, h al))
  | _ -> failwith "bad ss"

(* ---------- descriptor of an RFC packet ---------- *)
let ext_of (tok : string) : rfc_ext =
  match dots tok with
  | ["F"; v; id] -> x_fdt (h v) (h id)
  | ["C"; c; r] -> x_cenc (h c) (h r)
  | ["T"; shi; slo; ert; slc; rs; pi; hi; lo; ev; sv] ->
    x_time { te_shi = bool_of shi; te_slo = bool_of slo; te_ert = bool_of ert; te_slc = bool_of slc;
             te_res = h rs; te_pi = h pi; te_hi = h hi; te_lo = h lo; te_ertv = h ev; te_slcv = h sv }
  | ["I0"; l; r; e; b] -> x_fti (FtiNoCode (h l, h r, h e, h b))
  | ["I5"; l; e; b; n] -> x_fti (FtiRS28 (h l, h e, h b, h n))
  | ["I129"; l; i; e; b; n] -> x_fti (FtiRS28US (h l, h i, h e, h b, h n))
  | ["I2"; l; m; g; e; b; n] -> x_fti (FtiRS2m (h l, h m, h g, h e, h b, h n))
  | ["I6"; l; r; t; z; n; al; pad] -> x_fti (FtiRaptorQ (h l, h r, h t, h z, h n, h al, h pad))
  | ["I1"; l; r; t; z; n; al] -> x_fti (FtiRaptor (h l, h r, h t, h z, h n, h al))
  | ["U"; het; hel; c] -> XVar (h het, h hel, bytes_of_hex c)
  | ["X"; het; c] -> XFix (h het, bytes_of_hex c)
  | _ -> failwith ("bad ext " ^ tok)

let rec take k l = if k = 0 then ([], l) else match l with
  | x :: r -> let (a, b) = take (k - 1) r in (x :: a, b)
  | [] -> failwith "short line"

(* returns (m_session, packet) *)
let pkt_of_desc (toks : string list) : n * rfc_pkt =
  match toks with
  | m :: v :: c :: psi :: s :: o :: hh :: rs :: a :: b :: cp :: cci :: tsi :: toi :: n :: rest ->
    let (exts, rest) = take (int_of_string ("0x" ^ n)) rest in
    (match rest with
     | [pid; payload] ->
       let x = { r_v = h v; r_c = h c; r_psi = h psi; r_s = h s; r_o = h o; r_h = h hh; r_res = h rs;
                 r_a = h a; r_b = h b; r_hdr_len = N0; r_cp = h cp; r_cci = h cci; r_tsi = h tsi; r_toi = h toi } in
       let es = List.map ext_of exts in
       let (sbn, esi, sbl) = (match dots pid with [x1; x2; x3] -> (h x1, h x2, h x3) | _ -> failwith "bad pid") in
       (* the session's m for GF(2^m); an EXT_FTI in the packet overrides it *)
       let m_eff = fti_m (omap (dec_fti (h cp)) (find_ext (n_of_int 64) es)) (h m) in
       let fields = (match pid_fields (h cp) m_eff sbn esi sbl with
           | Some f -> f
           | None -> [(sbn, n_of_int 16); (esi, n_of_int 16)]) in
       (h m, mk_rfc_pkt x es fields (bytes_of_hex payload))
     | _ -> failwith "bad R line")
  | _ -> failwith "bad R line"

(* ---------- printing / parsing of the parser observation ---------- *)
let show_ss = function
  | None -> "-"
  | Some (((k, a), b), c) -> Printf.sprintf "%s:%s:%s:%s" (hx k) (hx a) (hx b) (hx c)
let show_pid = function
  | Ok ((sbn, esi), sbl) -> Printf.sprintf "%s.%s.%s" (hx sbn) (hx esi) (show_opt sbl)
  | Err -> "ERR" | Panic -> "PANIC" | OutOfFuel -> "FUEL"
let show_sct = function
  | Ok None -> "-" | Ok (Some v) -> hx v | Err -> "ERR" | Panic -> "PANIC" | OutOfFuel -> "FUEL"
let show_obs (r : parse_obs res) : string =
  match r with
  | Err -> "ERR" | Panic -> "PANIC" | OutOfFuel -> "FUEL"
  | Ok o ->
    Printf.sprintf "Ok %s %s %s %s %d %d fdt=%s cenc=%s fti=%s sct=%s pid=%s off=%s"
      (hx o.po_cci) (hx o.po_tsi) (hx o.po_toi) (hx o.po_cp) (if o.po_co then 1 else 0) (if o.po_cs then 1 else 0)
      (match o.po_fdt with None -> "-" | Some (v, id) -> hx v ^ "." ^ hx id)
      (show_opt o.po_cenc)
      (match o.po_fti with None -> "-" | Some f ->
         Printf.sprintf "%s.%s.%s.%s.%s.%s.%s" (hx f.ob_fec) (hx f.ob_inst) (hx f.ob_B) (hx f.ob_E)
           (hx f.ob_parity) (show_ss f.ob_ss) (hx f.ob_L))
      (show_sct o.po_sct) (show_pid o.po_pid) (hx o.po_payload_off)

let after_eq s = match String.index_opt s '=' with
  | Some i -> String.sub s (i + 1) (String.length s - i - 1) | None -> failwith "no ="
let obs_of_tokens (o : string list) : parse_obs res =
  match o with
  | ["ERR"] -> Err
  | ["PANIC"] -> Panic
  | ["Ok"; cci; tsi; toi; cp; co; cs; fdt; cenc; fti; sct; pid; off] ->
    let fdt = (match dots (after_eq fdt) with ["-"] -> None | [v; id] -> Some (h v, h id) | _ -> failwith "fdt") in
    let cenc = opt_of (after_eq cenc) in
    let fti = (match dots (after_eq fti) with
        | ["-"] -> None
        | [f; i; b; e; p; ss; l] ->
          let ss = (match String.split_on_char ':' ss with
              | ["-"] -> None
              | [k; a; b'; c] -> Some (((h k, h a), h b'), h c)
              | _ -> failwith "ss") in
          Some { ob_fec = h f; ob_inst = h i; ob_B = h b; ob_E = h e; ob_parity = h p; ob_ss = ss; ob_L = h l }
        | _ -> failwith "fti") in
    let sct = (match after_eq sct with "-" -> Ok None | "ERR" -> Err | "PANIC" -> Panic | v -> Ok (Some (h v))) in
    let pid = (match dots (after_eq pid) with
        | ["ERR"] -> Err | ["PANIC"] -> Panic
        | [a; b; c] -> Ok ((h a, h b), opt_of c)
        | _ -> failwith "pid") in
    Ok { po_cci = h cci; po_tsi = h tsi; po_toi = h toi; po_cp = h cp; po_co = bool_of co; po_cs = bool_of cs;
         po_fdt = fdt; po_cenc = cenc; po_fti = fti; po_sct = sct; po_pid = pid; po_payload_off = h (after_eq off) }
  | _ -> failwith "bad parser output"

let two = n_of_int 2

let handle (i : string list) (o : string list) =
  match i with
  | ["BL"; psi; cci; tsi; toi; cp; co; cs] ->
    let psi = h psi and cci = h cci and tsi = h tsi and toi = h toi and cp = h cp in
    let co = bool_of co and cs = bool_of cs in
    let model = push_lct_header [] psi cci tsi toi cp co cs in
    (match o with
     | [hexs] ->
       let impl = bytes_of_hex hexs in
       if not (p_C06_lct psi cci tsi toi cp co cs impl) then verdict_pfail "P_C06_lct"
       else if impl <> model then verdict_diff (hex_of_bytes model)
       else verdict_ok (N.ltb (n_of_int 0xFFFF) toi || N.ltb (n_of_int 0xFFFF) tsi || N.ltb N0 cci)
     | _ -> verdict_both "panic" (hex_of_bytes model))
  | ["NT"; now] ->
    let now = z_of_str now in
    let model = system_time_to_ntp now in
    let impl, back = (match o with
        | ["Ok"; ntp; "ERR"] -> (Ok (h ntp), Err)
        | ["Ok"; ntp; us] -> (Ok (h ntp), Ok (h us))
        | ["ERR"] -> (Err, Err)
        | _ -> (Panic, Panic)) in
    let model_back = (match model with Ok v -> ntp_to_system_time v | _ -> Err) in
    if not (p_C06_ntp now impl) then verdict_pfail "P_C06_ntp"
    else if impl <> model || back <> model_back then
      verdict_diff (match model with Ok v -> hx v | _ -> "ERR")
    else verdict_ok true
  | ["BP"; fec; inst; b; e; parity; ss; inband; cci; tsi; toi; fdtid; cenc; ibcenc; co; sbn; esi; sbl; sct; l; prof; now; payload] ->
    let oti = { o_fec = fec_of fec; o_inst = h inst; o_B = h b; o_E = h e; o_parity = h parity;
                o_ss = ss_of ss; o_inband_fti = bool_of inband } in
    let pkt = { k_payload = bytes_of_hex payload; k_transfer_length = h l; k_esi = h esi; k_sbn = h sbn;
                k_toi = h toi; k_fdt_id = opt_of fdtid; k_cenc = h cenc; k_inband_cenc = bool_of ibcenc;
                k_close_object = bool_of co; k_source_block_length = h sbl; k_sct = bool_of sct } in
    let prof = if prof = "2" then RFC6726 else RFC3926 in
    let now = z_of_str now and cci = h cci and tsi = h tsi in
    let model = new_alc_pkt oti cci tsi pkt prof now in
    let impl = (match o with
        | ["Ok"; hexs] -> Ok (bytes_of_hex hexs)
        | ["PANIC"] -> Panic
        | _ -> failwith "bad BP output") in
    let show = (match model with Ok b -> "Ok_" ^ hex_of_bytes b | Panic -> "PANIC" | _ -> "ERR") in
    let inr = build_in_range oti cci tsi pkt now in
    if not (p_C06_build oti cci tsi pkt prof now impl) then
      (* recorded finding D32: packets carrying a Raptor (FEC id 1) EXT_FTI; the correspondence stays exact *)
      (if known_d32_build oti pkt then (if impl <> model then verdict_diff show else verdict_known "D32")
       else if impl <> model then verdict_both "P_C06_build" show else verdict_pfail "P_C06_build")
    else if impl <> model then verdict_diff show
    else verdict_ok inr
  | "R" :: desc ->
    let (m, p) = pkt_of_desc desc in
    let bytes = rfc_alc_encode p in
    let model = observe_parse_fixed m bytes in
    let impl = obs_of_tokens o in
    let demanded = wf_pkt p && parse_demand m p in
    if not (p_C06_parse m p impl) then
      (if known_d32_parse p then
         (if impl <> model then verdict_diff (String.map (fun c -> if c = ' ' then '_' else c) (show_obs model))
          else verdict_known "D32")
       else if impl <> model then verdict_both "P_C06_parse" (String.map (fun c -> if c = ' ' then '_' else c) (show_obs model))
       else verdict_pfail "P_C06_parse")
    else if impl <> model then verdict_diff (String.map (fun c -> if c = ' ' then '_' else c) (show_obs model))
    else verdict_ok demanded
  | ["M"; m; hexs] ->
    let bytes = bytes_of_hex hexs in
    let model = observe_parse_fixed (h m) bytes in
    let impl = obs_of_tokens o in
    if impl <> model then verdict_diff (String.map (fun c -> if c = ' ' then '_' else c) (show_obs model))
    else verdict_ok (match model with Ok _ -> true | _ -> false)
  | _ -> failwith "unknown line kind"

let encode_mode inf outf =
  let ic = open_in inf and oc = open_out outf in
  (try
     while true do
       let line = input_line ic in
       let (i, _) = split_case line in
       (match i with
        | "R" :: desc ->
          (try
             let (_, p) = pkt_of_desc desc in
             output_string oc (hex_of_bytes (rfc_alc_encode p)); output_char oc '\n'
           with Failure m -> output_string oc ("!" ^ m ^ "\n"))
        | _ -> output_string oc "!not-an-R-line\n")
     done
   with End_of_file -> ());
  close_in ic; close_out oc

let () =
  if Array.length Sys.argv >= 4 && Sys.argv.(1) = "--encode" then encode_mode Sys.argv.(2) Sys.argv.(3)
  else run_driver handle
