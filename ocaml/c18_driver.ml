(* C18 driver: replays every trace line of `fluteh multi` with the extracted Coq model
   (Model/Multi.v, Model/TsiFilter.v) and evaluates the Coq-defined predicates P_C18_* on the
   IMPLEMENTATION's observations.  Line formats: see harness/src/c18.rs. *)
let h = n_of_hex
let z_of_int (i : int) : z =
  if i = 0 then Z0
  else if i > 0 then (match n_of_int i with Npos p -> Zpos p | N0 -> Z0)
  else (match n_of_int (- i) with Npos p -> Zneg p | N0 -> Z0)

let split c s = String.split_on_char c s
let parse_ep (s : string) : endpoint =
  match split '.' s with
  | [a; b; c] -> { ep_src = (if a = "-" then None else Some (h a)); ep_dst = h b; ep_port = h c }
  | _ -> failwith ("bad endpoint " ^ s)
let show_ep (e : endpoint) =
  Printf.sprintf "%s.%s.%s" (match e.ep_src with None -> "-" | Some s -> hex_of_n s) (hex_of_n e.ep_dst) (hex_of_n e.ep_port)
let show_key ((e, t) : key) = show_ep e ^ "!" ^ hex_of_n t

(* the per-session machine used for the replay: stateless; the result of a push is known for the
   synthetic probes (kind E: Err, K and C: Ok) and unknown ("") for real session packets *)
type pk = { tsi : n; close : bool; kind : string }
let x_tsi (p : pk) = p.tsi
let x_close (p : pk) = p.close
let x_init (_ : key) = ()
let x_push () (p : pk) (_ : z) = ((), (match p.kind with "E" | "D" -> "err" | "K" | "C" | "O" -> "ok" | _ -> ""))
let x_cleanup () (_ : z) = ((), "")
let x_drop () = ""
let step st op = mstep x_tsi x_close x_init x_push x_cleanup x_drop st op

(* one operation of a line: the model operation (None for harness-only ops: sleep, spin) *)
type lop = { tok : string; mk : (key -> bool) -> z -> pk op option; push_key : key option; kind : string }

let big = z_of_int 1_000_000_000_000_000
let nbig = z_of_int (-1_000_000_000_000_000)

let parse_fop (p : string list) : fOp option =
  match p with
  | ["a"; e; t] -> Some (FAdd (parse_ep e, h t))
  | ["r"; e; t] -> Some (FRemove (parse_ep e, h t))
  | ["A"; e] -> Some (FAddAll (parse_ep e))
  | ["R"; e] -> Some (FRemoveAll (parse_ep e))
  | _ -> None

let mk_push ep pk = fun _ t0 -> Some (OPush (ep, pk, Z0, t0))

let parse_op (tok : string) : lop =
  let p = split '!' tok in
  let none = { tok; mk = (fun _ _ -> None); push_key = None; kind = "" } in
  match p with
  | ["L+"] -> { none with mk = (fun _ _ -> Some OAddListener) }
  | ["F0"] -> { none with mk = (fun _ _ -> Some (OSetFiltering false)) }
  | ["F1"] -> { none with mk = (fun _ _ -> Some (OSetFiltering true)) }
  | ["C"] -> { none with mk = (fun closed _ -> Some (OCleanup (Z0, (fun k -> if closed k then big else nbig)))); kind = "cleanup" }
  | ["Y"] -> none
  | ["pX"; e] -> { none with mk = mk_push (parse_ep e) None; kind = "X" }
  | [("pE" | "pK" | "pC" | "pD" | "pO") as k; e; t] ->
    let ep = parse_ep e and tsi = h t in
    let kind = String.sub k 1 1 in
    { tok; mk = mk_push ep (Some { tsi; close = (kind = "C" || kind = "D"); kind }); push_key = Some (ep, tsi); kind }
  | _ ->
    (match parse_fop p with
     | Some f -> { none with mk = (fun _ _ -> Some (OFilter f)) }
     | None ->
       if String.length tok > 2 && String.sub tok 0 2 = "L-" then
         let id = h (String.sub tok 2 (String.length tok - 2)) in
         { none with mk = (fun _ _ -> Some (ORemoveListener id)) }
       else if String.length tok > 1 && tok.[0] = 'Z' then none
       else failwith ("bad op " ^ tok))

(* observation token: res[@t0-t1]/ev,ev,... *)
type obs = { res : string; t0 : int; t1 : int; notes : (n * bool * key) list; ids : n list; wev : (key * string) list }

let parse_obs (tok : string) : obs =
  let i = try String.index tok '/' with Not_found -> failwith ("bad obs " ^ tok) in
  let head = String.sub tok 0 i and tail = String.sub tok (i + 1) (String.length tok - i - 1) in
  let res, t0, t1 =
    match split '@' head with
    | [r] -> (r, 0, 0)
    | [r; ts] -> (match split '-' ts with [a; b] -> (r, int_of_string a, int_of_string b) | _ -> failwith "bad stamps")
    | _ -> failwith "bad obs head" in
  let notes = ref [] and ids = ref [] and wev = ref [] in
  List.iter (fun e ->
    if e <> "" then begin
      let p = split '!' e in
      match p with
      | [x] when String.length x > 2 && String.sub x 0 2 = "id" -> ids := h (String.sub x 2 (String.length x - 2)) :: !ids
      | x :: ep :: tsi :: rest when String.length x >= 2 && x.[0] = 'w' ->
        wev := ((parse_ep ep, h tsi), e) :: !wev; ignore rest
      | [x; ep; tsi] when x.[0] = 'o' || x.[0] = 'c' ->
        notes := (h (String.sub x 1 (String.length x - 1)), x.[0] = 'o', (parse_ep ep, h tsi)) :: !notes
      | _ -> failwith ("bad event " ^ e)
    end) (split ',' tail);
  { res; t0; t1; notes = List.rev !notes; ids = List.rev !ids; wev = List.rev !wev }

let canon_notes l = List.sort compare (List.map (fun (l, b, k) -> (hex_of_n l, b, show_key k)) l)
let model_notes evs = List.filter_map (function EvNotify (l, b, k) -> Some (l, b, k) | _ -> None) evs
let show_notes l = String.concat "," (List.map (fun (l, b, k) -> (if b then "o" else "c") ^ l ^ "!" ^ k) (canon_notes l))

(* Inside one call the callbacks of different objects come in hash-map iteration order
   (Receiver::objects is a HashMap with a per-instance random state): stable sort by TOI,
   the order of the callbacks of one object is kept (DESIGN 4: canonical observables). *)
let toi_of (e : string) = match split '!' e with _ :: _ :: _ :: toi :: _ -> int_of_n (h toi) | _ -> 0
let canon_wev (w : (key * string) list) = List.stable_sort (fun (_, a) (_, b) -> compare (toi_of a) (toi_of b)) w

(* group writer events by their argument key, keeping order *)
let group_by_key (w : (key * string) list) : (key * string) list =
  let w = canon_wev w in
  let keys = List.fold_left (fun acc (k, _) -> if List.exists (fun k' -> key_eqb k' k) acc then acc else acc @ [k]) [] w in
  List.map (fun k -> (k, String.concat ";" (List.filter_map (fun (k', e) -> if key_eqb k' k then Some e else None) w))) keys

type replay = {
  mutable diffs : string list;
  mutable pfails : string list;
  mutable timing_skip : bool;
  mutable impl_evs : string ev list;            (* the implementation's observations as events, in order *)
  mutable impl_steps : (lop * obs) list;
  mutable processed_obs : bool option list;
  mutable model_ops : pk op list;
  mutable listeners : (n * int * int option * unit mState) list;   (* id, first event index, end index, state at registration *)
  mutable keys : key list;
  mutable n_notes : int;
  mutable n_processed : int;
}

let add_key r k = if not (List.exists (fun k' -> key_eqb k' k) r.keys) then r.keys <- r.keys @ [k]

(* Replays one run: [lops] with one observation token each, then the drop token.
   [tmo_us]: session time-out in microseconds.  [stamps]: the observations carry time stamps. *)
let replay_run (en : bool) (tmo_us : int option) (lops : lop list) (toks : string list) (stamps : bool) : replay =
  let r = { diffs = []; pfails = []; timing_skip = false; impl_evs = []; impl_steps = []; processed_obs = [];
            model_ops = []; listeners = []; keys = []; n_notes = 0; n_processed = 0 } in
  let diff s = r.diffs <- s :: r.diffs in
  let tmo_z = (match tmo_us with None -> None | Some t -> Some (z_of_int t)) in
  let st = ref (minit en tmo_z : unit mState) in
  let acts : (string, int * int) Hashtbl.t = Hashtbl.create 16 in
  let nops = List.length lops in
  if List.length toks <> nops + 1 then failwith (Printf.sprintf "expected %d observation tokens, got %d" (nops + 1) (List.length toks));
  let impl_rev = ref [] in
  let idx = ref 0 in
  List.iter2 (fun lop tok ->
    let o = parse_obs tok in
    r.impl_steps <- r.impl_steps @ [(lop, o)];
    List.iter (fun (_, _, k) -> add_key r k) o.notes;
    (match lop.push_key with Some k -> add_key r k | None -> ());
    r.n_notes <- r.n_notes + List.length o.notes;
    let closed k = List.exists (fun (_, b, k') -> (not b) && key_eqb k' k) o.notes in
    (* timing sanity and choice of the readings for a cleanup *)
    let closed_for_model =
      if lop.kind = "cleanup" && stamps then begin
        match tmo_z with
        | None -> closed
        | Some _ ->
          let have_listener = !st.m_listeners <> [] in
          (fun k ->
             match Hashtbl.find_opt acts (show_key k) with
             | None -> closed k
             | Some (a0, a1) ->
               let must = is_expired tmo_z (z_of_int a1) (z_of_int o.t0)
               and may = is_expired tmo_z (z_of_int a0) (z_of_int o.t1) in
               if have_listener then begin
                 if live !st k then begin
                   (* "exactly one close per session end (close-session packet, expiry or receiver drop)": a close by
                      a cleanup while the session was pushed to less than the time-out ago has none of these causes,
                      and an idle session that a cleanup does not end misses its close *)
                   if closed k && not may then begin
                     diff (Printf.sprintf "step%d:%s-closed-before-its-time-out" !idx (show_key k));
                     r.pfails <- Printf.sprintf "P_C18_close_has_a_cause(step%d:%s:closed-before-its-time-out)" !idx (show_key k) :: r.pfails
                   end;
                   if (not (closed k)) && must then begin
                     diff (Printf.sprintf "step%d:%s-idle-beyond-time-out-not-closed" !idx (show_key k));
                     r.pfails <- Printf.sprintf "P_C18_expiry_closes(step%d:%s:idle-beyond-time-out-not-closed)" !idx (show_key k) :: r.pfails
                   end
                 end;
                 closed k
               end else begin
                 if live !st k && must <> may then r.timing_skip <- true;
                 must
               end)
      end else closed in
    (match lop.mk closed_for_model (z_of_int o.t0) with
     | None -> ()
     | Some op ->
       r.model_ops <- r.model_ops @ [op];
       (match step !st op with
        | None -> diff (Printf.sprintf "step%d:model-overflow" !idx)
        | Some (st', evs) ->
          (* result *)
          let mres = List.fold_left (fun acc e -> match e with
              | EvParseErr -> "err" | EvSkip _ | EvNoSession _ -> "ok"
              | EvOut (_, s) -> if acc = "-" then s else acc
              | _ -> acc) "-" evs in
          if mres <> "" && mres <> o.res && lop.kind <> "cleanup" then
            diff (Printf.sprintf "step%d:%s:result-model=%s-impl=%s" !idx lop.tok mres o.res);
          (* notifications, order-insensitive inside one call *)
          if canon_notes (model_notes evs) <> canon_notes o.notes then
            diff (Printf.sprintf "step%d:%s:listener-events-model=[%s]-impl=[%s]" !idx lop.tok
                    (show_notes (model_notes evs)) (show_notes o.notes));
          (* listener ids *)
          let mids = List.filter_map (function EvListenerId i -> Some i | _ -> None) evs in
          if mids <> o.ids then diff (Printf.sprintf "step%d:listener-id" !idx);
          (match op with
           | OAddListener -> List.iter (fun i -> r.listeners <- r.listeners @ [(i, List.length !impl_rev, None, !st)]) o.ids
           | ORemoveListener id ->
             r.listeners <- List.map (fun (i, a, b, s) -> if i = id && b = None then (i, a, Some (List.length !impl_rev), s) else (i, a, b, s)) r.listeners
           | _ -> ());
          (* last activity bounds of the sessions the model keeps *)
          (match lop.push_key with
           | Some k when List.exists (function EvOut _ -> true | _ -> false) evs
                         && not (List.exists (function EvEnd _ -> true | _ -> false) evs) ->
             Hashtbl.replace acts (show_key k) (o.t0, o.t1)
           | _ -> ());
          if List.exists (function EvOut _ -> true | _ -> false) evs && lop.push_key <> None then r.n_processed <- r.n_processed + 1;
          st := st'));
    (* the implementation's observations as events *)
    let evs_impl =
      List.map (fun (l, b, k) -> EvNotify (l, b, k)) o.notes
      @ (match lop.push_key with
         | Some k -> [EvOut (k, o.res ^ ";" ^ String.concat ";" (List.map snd (canon_wev o.wev)))]
         | None -> List.map (fun (k, s) -> EvOut (k, "c;" ^ s)) (group_by_key o.wev)) in
    impl_rev := List.rev_append evs_impl !impl_rev;
    (* what the observation says about "processed" *)
    (match lop.mk (fun _ -> false) Z0 with
     | None -> ()
     | Some _ ->
       let pobs =
         match lop.push_key with
         | None -> None
         | Some _ ->
           if lop.kind = "E" then Some (o.res = "err")
           (* a close-session packet reaches Receiver::push only if its session exists: Err proves it was processed *)
           else if lop.kind = "D" then (if o.res = "err" then Some true else None)
           else if o.notes <> [] || o.wev <> [] then Some true
           else None in
       r.processed_obs <- r.processed_obs @ [pobs]);
    incr idx) lops (List.filteri (fun i _ -> i < nops) toks);
  (* drop *)
  let o = parse_obs (List.nth toks nops) in
  List.iter (fun (_, _, k) -> add_key r k) o.notes;
  let devs = mdrop x_drop !st in
  if canon_notes (model_notes devs) <> canon_notes o.notes then
    diff (Printf.sprintf "drop:listener-events-model=[%s]-impl=[%s]" (show_notes (model_notes devs)) (show_notes o.notes));
  let evs_impl = List.map (fun (l, b, k) -> EvNotify (l, b, k)) o.notes
                 @ List.map (fun (k, s) -> EvOut (k, "d;" ^ s)) (group_by_key o.wev) in
  impl_rev := List.rev_append evs_impl !impl_rev;
  r.impl_evs <- List.rev !impl_rev;
  r

let rec drop_n n l = if n <= 0 then l else match l with [] -> [] | _ :: t -> drop_n (n - 1) t
let rec take_n n l = if n <= 0 then [] else match l with [] -> [] | x :: t -> x :: take_n (n - 1) t

(* the predicates on the implementation's observations of one run *)
let check_run (en : bool) (r : replay) =
  let pf s = r.pfails <- s :: r.pfails in
  if not (p_C18_processed x_tsi en r.model_ops r.processed_obs) then pf "P_C18_processed";
  List.iter (fun (l, a, b, st_reg) ->
    let window = (match b with None -> drop_n a r.impl_evs | Some e -> take_n (e - a) (drop_n a r.impl_evs)) in
    List.iter (fun k ->
      let t = lk_trace l k window in
      let ok =
        if live st_reg k then p_C18_listener_late_trace t
        else (match b with
            | None -> p_C18_listener_trace t
            | Some _ -> (* removed before the end: a prefix of a word of (open closed)* *)
              p_C18_listener_trace (if List.length t mod 2 = 1 then t @ [false] else t)) in
      if not ok then pf (Printf.sprintf "P_C18_listener_trace(l%s,%s)=[%s]" (hex_of_n l) (show_key k)
                           (String.concat "" (List.map (fun b -> if b then "o" else "c") t)))) r.keys) r.listeners

(* bin/check fetches the input of at most 2000 reported lines per run: after 1000 failing
   cases only count (the summary stays exact), so that every reported case has its input *)
let n_reported = ref 0
let verdict_diff m = if !n_reported < 1000 then (incr n_reported; verdict_diff m) else incr n_diff
let verdict_pfail w = if !n_reported < 1000 then (incr n_reported; verdict_pfail w) else incr n_pfail
let verdict_both w m = if !n_reported < 1000 then (incr n_reported; verdict_both w m) else (incr n_pfail; incr n_diff)

let finish (rs : replay list) (nontrivial : bool) =
  let diffs = List.concat_map (fun r -> List.rev r.diffs) rs and pfails = List.concat_map (fun r -> List.rev r.pfails) rs in
  let cut l = String.concat "+" (take_n 3 l) in
  if List.exists (fun r -> r.timing_skip) rs && pfails = [] then verdict_ok false
  else match pfails, diffs with
    | [], [] -> verdict_ok nontrivial
    | [], d -> verdict_diff (cut d)
    | p, [] -> verdict_pfail (cut p)
    | p, d -> verdict_both (cut p) (cut d)

let parse_tmo t = if t = "-" then None else Some (int_of_n (h t) * 1000)

let g_ep e = { ep_src = (if e land 1 = 1 then Some (n_of_int 7) else None); ep_dst = n_of_int (1 + e / 2); ep_port = h "bb8" }
let g_fop i =
  if i < 8 then FAdd (g_ep (i / 2), n_of_int (1 + i mod 2))
  else if i < 16 then FRemove (g_ep ((i - 8) / 2), n_of_int (1 + i mod 2))
  else if i < 20 then FAddAll (g_ep (i - 16))
  else FRemoveAll (g_ep (i - 20))

let handle (i : string list) (o : string list) =
  match i, o with
  | _, ["TIMING"] -> verdict_ok false
  | _, ["PANIC"] -> verdict_both "implementation-panic" "no-panic"
  | "G" :: idx, [mask] ->
    let fops = List.map (fun x -> g_fop (int_of_n (h x))) idx in
    let mask = int_of_n (h mask) in
    let probes = List.concat_map (fun e -> List.map (fun t -> (g_ep e, n_of_int (1 + t))) [0; 1]) [0; 1; 2; 3] in
    let ops = List.map (fun f -> OFilter f) fops
              @ List.map (fun (ep, tsi) -> OPush (ep, Some { tsi; close = false; kind = "E" }, Z0, Z0)) probes in
    (match mrun x_tsi x_close x_init x_push x_cleanup x_drop (minit true None : unit mState) ops with
     | None -> verdict_diff "model-overflow"
     | Some (_, steps) ->
       let flags = drop_n (List.length fops) (run_processed ops steps) in
       let mmask = List.fold_left (fun (acc, b) f -> ((if f = Some true then acc lor (1 lsl b) else acc), b + 1)) (0, 0) flags |> fst in
       let pok = List.for_all (fun (b, (ep, tsi)) -> p_C18_filter fops ep tsi (mask land (1 lsl b) <> 0))
           (List.mapi (fun b p -> (b, p)) probes) in
       if not pok then (if mmask <> mask then verdict_both "P_C18_filter" (Printf.sprintf "%x" mmask) else verdict_pfail "P_C18_filter")
       else if mmask <> mask then verdict_diff (Printf.sprintf "%x" mmask)
       else verdict_ok (idx <> [] && mask <> 0 && mask <> 255))
  | "M" :: en :: tmo :: ops, toks ->
    let en = (en = "1") in
    let lops = List.map parse_op ops in
    let r = replay_run en (parse_tmo tmo) lops toks true in
    check_run en r;
    finish [r] (r.n_notes > 0 && r.n_processed > 0)
  | ["X"; n; tmo], toks ->
    let n = int_of_n (h n) in
    let ops = ["L+"] @ List.init n (fun j -> Printf.sprintf "pE!-.1.bb8!%x" (j + 1)) @ ["Y"; "C"] in
    let r = replay_run false (parse_tmo tmo) (List.map parse_op ops) toks true in
    check_run false r;
    finish [r] (r.n_notes > 0)
  | "I" :: en :: tmo :: nl :: ns :: rest, toks ->
    let en = (en = "1") and nl = int_of_n (h nl) and ns = int_of_n (h ns) in
    let sess = List.map (fun d -> match split '!' d with
        | ep :: tsi :: _ -> (parse_ep ep, h tsi) | _ -> failwith "bad session") (take_n ns rest) in
    let sched = drop_n ns rest in
    let none = { tok = ""; mk = (fun _ _ -> None); push_key = None; kind = "" } in
    let lops = List.init nl (fun _ -> parse_op "L+")
               @ List.map (fun tok ->
                   match int_of_string_opt tok with
                   | Some i -> let (ep, tsi) = List.nth sess i in
                     { tok; mk = mk_push ep (Some { tsi; close = false; kind = "d" }); push_key = Some (ep, tsi); kind = "d" }
                   | None ->
                     if tok.[0] = 'c' && String.length tok > 1 && int_of_string_opt (String.sub tok 1 (String.length tok - 1)) <> None then
                       let (ep, tsi) = List.nth sess (int_of_string (String.sub tok 1 (String.length tok - 1))) in
                       { tok; mk = mk_push ep (Some { tsi; close = true; kind = "C" }); push_key = Some (ep, tsi); kind = "C" }
                     else if tok = "" then none else parse_op tok) sched in
    (* split the observation tokens into runs *)
    let runs = List.fold_right (fun t acc -> if t = "||" then [] :: acc else (match acc with x :: r -> (t :: x) :: r | [] -> [[t]])) toks [[]] in
    if List.length runs <> ns + 1 then failwith "bad number of runs";
    let tmo = parse_tmo tmo in
    let inter = replay_run en tmo lops (List.hd runs) false in
    check_run en inter;
    let pf s = inter.pfails <- s :: inter.pfails in
    (* writer arguments: callbacks made while a packet of key k is pushed carry k *)
    List.iteri (fun j (lop, ob) ->
      match lop.push_key with
      | Some k -> if not (p_C18_writer_args k (List.map fst ob.wev)) then
          pf (Printf.sprintf "P_C18_writer_args(step%d,%s)" j (show_key k))
      | None -> ()) inter.impl_steps;
    let ls = List.map (fun (l, _, _, _) -> l) inter.listeners in
    let alone = List.mapi (fun j k ->
      let sel_lops = List.filter (fun lop -> match lop.push_key with Some k' -> is_key k k' | None -> true) lops in
      let r = replay_run en tmo sel_lops (List.nth runs (j + 1)) false in
      (* consistency of the restriction with the Coq definition *)
      if List.length (filter (op_sel x_tsi (is_key k)) inter.model_ops) <> List.length r.model_ops then
        r.diffs <- "restriction-mismatch" :: r.diffs;
      if not (p_C18_isolation (fun a b -> a = b) k ls inter.impl_evs r.impl_evs) then
        pf (Printf.sprintf "P_C18_isolation(%s)" (show_key k));
      r) sess in
    let delivered = List.filter (fun k ->
      List.exists (fun (_, ob) -> List.exists (fun (k', e) -> key_eqb k' k && String.length e > 2 && String.sub e 0 2 = "wD") ob.wev) inter.impl_steps) sess in
    finish (inter :: alone) (List.length delivered >= 2)
  | _ -> failwith "unknown line kind"

let () = run_driver handle
