(* C15 driver: recomputes every history with the extracted Coq model of the TOI life cycle and
   evaluates the Coq-defined predicates P_C15_history / P_C15_wire on the IMPLEMENTATION's
   observations.  Line formats are described in harness/src/c15.rs. *)
let h = n_of_hex
let nat_of_hex s = nat_of_int (int_of_string ("0x" ^ s))
let split_on c s = if s = "-" || s = "" then [] else String.split_on_char c s

let width_of = function
  | "10" -> ToiMax16 | "20" -> ToiMax32 | "30" -> ToiMax48
  | "40" -> ToiMax64 | "50" -> ToiMax80 | "70" -> ToiMax112
  | s -> failwith ("bad width " ^ s)

let bytes_of_hex (s : string) : n list =
  if s = "-" then [] else
    List.init (String.length s / 2) (fun i -> n_of_hex (String.sub s (2 * i) 2))
let hex_of_bytes (l : n list) : string =
  if l = [] then "-" else String.concat "" (List.map (fun b -> Printf.sprintf "%02x" (int_of_n b)) l)

(* a decimal attribute as the list of its digits; anything that is not a digit becomes 99 so
   that the predicate rejects it *)
let digits_of_string (s : string) : n list =
  List.init (String.length s) (fun i ->
    match s.[i] with '0'..'9' as c -> n_of_int (Char.code c - 48) | _ -> n_of_int 99)
let string_of_digits (l : n list) : string =
  String.concat "" (List.map (fun d -> let i = int_of_n d in if i < 10 then string_of_int i else "?") l)

let tail s k = String.sub s k (String.length s - k)

let parse_op (t : string) : op =
  let num k = nat_of_hex (tail t k) in
  match t.[0] with
  | 'A' -> OAlloc
  | 'D' | 'T' -> ODrop (num 1)
  | 'O' -> (match t with "O" -> OAdd (None, AddOk) | "OE" -> OAdd (None, AddFailEarly)
                       | "OL" -> OAdd (None, AddFailLate) | _ -> failwith ("bad op " ^ t))
  | 'H' -> (match t.[1] with
            | 'E' -> OAdd (Some (num 2), AddFailEarly)
            | 'L' -> OAdd (Some (num 2), AddFailLate)
            | _ -> OAdd (Some (num 1), AddOk))
  | 'S' -> OStart (num 1)
  | 'F' -> OFinish (num 1)
  | 'R' -> ORemove (num 1)
  | 'C' -> OChurn (h (tail t 1))
  | _ -> failwith ("bad op " ^ t)

let parse_pkt (s : string) : pkt =
  match String.split_on_char '.' s with
  | [id; toi; raw] -> ((nat_of_hex id, h toi), bytes_of_hex raw)
  | _ -> failwith ("bad pkt " ^ s)

let parse_out (t : string) : obs =
  if t = "PANIC" then (RPanic, []) else
  if t = "HANG" then (RHang, []) else
  match String.split_on_char ';' t with
  | [r; fdt] ->
    let fdt = List.map digits_of_string (split_on ',' fdt) in
    let res =
      if r = "e" then RErr else if r = "n" then RNone else
      match r.[0], tail r 2 with
      | 'v', x -> RVal (h x)
      | 'p', x -> RPkts (List.map parse_pkt (split_on ',' x))
      | 'c', x -> RVals (List.map h (split_on ',' x))
      | _ -> failwith ("bad result " ^ r) in
    (res, fdt)
  | _ -> failwith ("bad out " ^ t)

(* order of packets and of FDT entries is not part of the property; the FDT is compared by the
   values of the attributes (their text is judged by the predicate: canonical decimal) *)
let canon_res r = match r with RPkts l -> RPkts (List.sort compare l) | x -> x
let canon_model ((r, vals) : out) = (canon_res r, List.sort compare vals)
let canon_impl ((r, fdt) : obs) = (canon_res r, List.sort compare (List.map dec_value fdt))

let show_res = function
  | RVal v -> "v:" ^ hex_of_n v
  | RErr -> "e" | RNone -> "n" | RPanic -> "PANIC" | RHang -> "HANG"
  | RPkts l -> "p:" ^ (if l = [] then "-" else String.concat "," (List.map (fun ((id, toi), raw) ->
      Printf.sprintf "%x.%s.%s" (int_of_nat id) (hex_of_n toi) (hex_of_bytes raw)) l))
  | RVals l -> "c:" ^ (match l with [] -> "-" | _ ->
      let k = List.length l in
      if k <= 6 then String.concat "," (List.map hex_of_n l)
      else Printf.sprintf "%s,..(%d)..,%s" (hex_of_n (List.hd l)) k (hex_of_n (List.nth l (k - 1))))
let show_out ((r, vals) : out) =
  if is_fatal r then show_res r else
  show_res r ^ ";" ^ (if vals = [] then "-" else String.concat "," (List.map (fun v -> string_of_digits (to_decimal v)) vals))
let show_outs l = String.concat "_" (List.map show_out l)

let rec first_diff i a b = match a, b with
  | [], [] -> None
  | x :: a', y :: b' -> if x = y then first_diff (i + 1) a' b' else Some i
  | _, _ -> Some i

(* at most 300 PFAIL lines are printed per trace (all are counted) *)
let printed = ref 0
let verdict_pfail why = if !printed < 300 then (incr printed; verdict_pfail why) else incr n_pfail
let verdict_both why m = if !printed < 300 then (incr printed; verdict_both why m) else (incr n_pfail; incr n_diff)

let handle (i : string list) (o : string list) =
  match i with
  | "H" :: w :: init :: tsi :: _thr :: ops ->
    let w = width_of w in
    let ops = List.map parse_op ops in
    let impl = List.map parse_out o in
    let init_v, rnd =
      if init = "R" then
        (None, (match impl with
                | (RVal v, _) :: _ -> v          (* the draw, as far as it can be observed *)
                | (RPanic, _) :: _ -> N0
                | _ -> failwith "a history with a random initial value must start with A"))
      else (Some (h init), N0) in
    let c = { c_width = w; c_init = init_v; c_rnd = rnd; c_tsi = h tsi } in
    let model = run c (sender_new c) ops in
    let p = p_C15_history w ops impl in
    let same = (List.map canon_impl impl = List.map canon_model model) in
    let allocs = List.length (List.filter (function OAlloc | OAdd (_, _) | OChurn _ -> true | _ -> false) ops) in
    let rel = List.exists (function ODrop _ | OFinish _ | ORemove _ | OChurn _ | OAdd (_, AddFailLate) -> true | _ -> false) ops in
    let nontrivial = allocs >= 2 && rel in
    if not p then begin
      let where = match first_diff 0 (List.map canon_impl impl) (List.map canon_model model) with
        | Some k -> Printf.sprintf "P_C15_history(first_difference_from_model_at_op_%d)" k
        | None -> "P_C15_history(model_agrees:defect_present_in_model_of_current_code)" in
      if same then verdict_pfail where else verdict_both where (show_outs model)
    end
    else if not same then verdict_diff (show_outs model)
    else verdict_ok nontrivial
  | ["W"; toi; tsi] ->
    let toi = h toi and tsi = h tsi in
    (match o with
     | [raw; parsed] ->
       let raw = bytes_of_hex raw and parsed = h parsed in
       let mraw = toi_field_bytes toi (h_of_tsi tsi) in
       let p = p_C15_wire toi raw parsed in
       let same = (raw = mraw) && (parsed = be_decode mraw) in
       if not p then (if same then verdict_pfail "P_C15_wire" else verdict_both "P_C15_wire" (hex_of_bytes mraw))
       else if not same then verdict_diff (hex_of_bytes mraw ^ "," ^ hex_of_n (be_decode mraw))
       else verdict_ok (N.ltb (n_of_int 65535) toi)
     | _ -> failwith "bad W line")
  | _ -> failwith "unknown line kind"

let () = run_driver handle
