(* Receiver driver (C09, C03, C17 ...).  argv: <trace> <property> *)
let prop = if Array.length Sys.argv > 2 then Sys.argv.(2) else "c09"

let z_of_string (s : string) : z =
  (* decimal, possibly large: Horner with the extracted arithmetic on N *)
  let neg = String.length s > 0 && s.[0] = '-' in
  let s = if neg then String.sub s 1 (String.length s - 1) else s in
  let acc = ref N0 in
  String.iter (fun c -> acc := N.add (N.mul !acc (n_of_int 10)) (n_of_int (Char.code c - 48))) s;
  match !acc with N0 -> Z0 | Npos p -> if neg then Zneg p else Zpos p

let bytes_of_hex s =
  if s = "-" then [] else
  List.init (String.length s / 2) (fun i -> n_of_int (int_of_string ("0x" ^ String.sub s (2 * i) 2)))
let string_of_bytes l = String.init (List.length l) (fun i -> Char.chr (int_of_n (List.nth l i)))
let bytes_of_string s = List.init (String.length s) (fun i -> n_of_int (Char.code s.[i]))

let b64 (s : string) : string =
  let tbl = "ABCDEFGHIJKLMNOPQRSTUVWXYZabcdefghijklmnopqrstuvwxyz0123456789+/" in
  let n = String.length s in
  let buf = Buffer.create (n * 4 / 3 + 4) in
  let i = ref 0 in
  while !i < n do
    let b0 = Char.code s.[!i] in
    let b1 = if !i + 1 < n then Char.code s.[!i + 1] else 0 in
    let b2 = if !i + 2 < n then Char.code s.[!i + 2] else 0 in
    Buffer.add_char buf tbl.[b0 lsr 2];
    Buffer.add_char buf tbl.[((b0 land 3) lsl 4) lor (b1 lsr 4)];
    Buffer.add_char buf (if !i + 1 < n then tbl.[((b1 land 15) lsl 2) lor (b2 lsr 6)] else '=');
    Buffer.add_char buf (if !i + 2 < n then tbl.[b2 land 63] else '=');
    i := !i + 3
  done;
  Buffer.contents buf

let fec_of_id = function
  | 0 -> FNoCode | 1 -> FRaptor | 2 -> FRS2M | 5 -> FRS28 | 6 -> FRaptorQ | 129 -> FRS28US
  | x -> failwith (Printf.sprintf "fec id %d" x)
let cenc_of = function "null" -> CNull | "zlib" -> CZlib | "deflate" -> CDeflate | "gzip" -> CGzip | s -> failwith ("cenc " ^ s)

(* "fec,e,b,par,scheme" (hex) *)
let oti_of s =
  match String.split_on_char ',' s with
  | fec :: e :: b :: par :: scheme :: _ ->
    let sch = (match String.split_on_char '.' scheme with
        | [z; n; al] -> Some ((n_of_hex z, n_of_hex n), n_of_hex al)
        | _ -> None) in
    { ro_fec = fec_of_id (int_of_string ("0x" ^ fec)); ro_e = n_of_hex e; ro_b = n_of_hex b; ro_parity = n_of_hex par; ro_scheme = sch }
  | _ -> failwith ("oti " ^ s)

let opt f s = if s = "-" then None else Some (f s)

let split_tilde s = String.split_on_char '~' s

let kvs toks = List.filter_map (fun t -> match String.index_opt t '=' with
    | Some i -> Some (String.sub t 0 i, String.sub t (i + 1) (String.length t - i - 1)) | None -> None) toks

let rec take n l = if n <= 0 then [] else match l with [] -> [] | x :: r -> x :: take (n - 1) r

let handle (i : string list) (o : string list) =
  match o with
  | ["NOSESSION"] | ["SENDERPANIC"] | ["BAD"] -> verdict_ok false
  | ["HANG"] -> verdict_pfail "receiver-or-sender-hang"
  | ["CRASH"] -> verdict_pfail "process-crashed"
  | _ ->
    let line = String.concat " " i in
    let secs = List.map split_ws (String.split_on_char ';' line) in
    let v = List.find (fun s -> s <> [] && List.hd s = "V") secs in
    let c = kvs v in
    let get k d = try List.assoc k c with Not_found -> d in
    let xsec = (try List.find (fun s -> s <> [] && List.hd s = "X") secs with Not_found -> ["X"; "all"]) in
    let channel = List.nth xsec 1 in
    let altered = (channel = "flip" || channel = "trunc") in
    (* tables *)
    let ftbl = Hashtbl.create 8 and gtbl = Hashtbl.create 8 in
    let atbl = Hashtbl.create 8 in       (* toi -> (transfer count, metadata the sender was given) *)
    let finsts = ref [] in               (* (fdt id, parsed instance, number of packets) *)
    let refused = ref [] in
    let parse_meta fields =
      (match fields with
       | [cl; ct; clen; tlen; md5; groups; etag; cache] ->
         let cc = (match cache.[0] with
             | 'N' -> (n_of_int 0, N0) | 'S' -> (n_of_int 1, N0)
             | 'E' -> (n_of_int 2, n_of_int (int_of_string (String.sub cache 1 (String.length cache - 1))))
             | _ -> (n_of_int 3, N0)) in
         { m_cl = bytes_of_hex cl; m_ctype = opt bytes_of_hex ct; m_clen = opt n_of_hex clen; m_tlen = opt n_of_hex tlen;
           m_md5 = opt bytes_of_hex md5;
           m_groups = (if groups = "-" then [] else List.map bytes_of_hex (String.split_on_char '.' groups));
           m_etag = opt bytes_of_hex etag; m_cache = cc }
       | _ -> failwith "meta fields") in
    let wmeta : (string * string, ometa) Hashtbl.t = Hashtbl.create 8 in
    (* fdtmut=clmd5: the content the FDT describes (Content-Length, Content-MD5) when the payload the
       packets carry inflates to something else: the sender's object as far as C03 is concerned *)
    let claimed : (n, n list) Hashtbl.t = Hashtbl.create 2 in
    List.iter (fun tok -> match split_tilde tok with
        | ["F"; xml; inst] -> Hashtbl.replace ftbl xml inst
        | ["F"; xml; inst; id; npk] -> Hashtbl.replace ftbl xml inst; finsts := (id, inst, int_of_string ("0x" ^ npk)) :: !finsts
        | ["G"; toi; ce; transfer; content] -> Hashtbl.replace gtbl (n_of_hex toi) (cenc_of ce, bytes_of_hex transfer, bytes_of_hex content)
        | "A" :: toi :: tc :: fields -> Hashtbl.replace atbl (n_of_hex toi) (int_of_string tc, parse_meta fields)
        | ["R"; idx; tlen] -> refused := (int_of_string idx, n_of_hex tlen) :: !refused
        | ["C"; toi; ct] -> Hashtbl.replace claimed (n_of_hex toi) (bytes_of_hex ct)
        | _ -> ()) o;
    (* altered bytes under a content encoding, or an FDT describing a prefix of what the packets inflate to
       (clmd5): what the writer sees depends on the chunks the real inflater hands out, which the inflate
       oracle does not know - the model's calls are not compared, the predicates are still judged *)
    let abstain = ref ((altered || get "fdtmut" "-" = "clmd5") && get "cenc" "null" <> "null") in
    let parse_fdt (xml : n list) : fdtinst option =
      let key = (if xml = [] then "-" else String.concat "" (List.map (fun b -> Printf.sprintf "%02x" (int_of_n b)) xml)) in
      match Hashtbl.find_opt ftbl key with
      | None -> abstain := true; None
      | Some "ERR" | Some "PANIC" -> None
      | Some inst ->
        (match String.split_on_char '/' inst with
         | [exp; ioti; files] ->
           let files = if files = "-" then [] else List.map (fun f ->
               match String.split_on_char ':' f with
               | [toi; ce; ot; tl; md5; clen; nocache] ->
                 { ff_toi = (if toi = "bad" then n_of_hex "ffffffffffffffffffffffffffffffff" else n_of_hex toi);
                   ff_cenc = cenc_of ce; ff_oti = opt oti_of ot; ff_tlen = n_of_hex tl;
                   ff_md5 = opt bytes_of_hex md5; ff_clen = opt n_of_hex clen; ff_nocache = (nocache = "1") }
               | _ -> failwith ("file " ^ f)) (String.split_on_char '+' files) in
           Some { fi_files = files; fi_oti = opt oti_of ioti; fi_expires = opt z_of_string exp }
         | _ -> failwith ("inst " ^ inst)) in
    let bld = get "bld" "S" and opn = get "opn" "1" in
    let nth_clamped s k = s.[min k (String.length s - 1)] in
    let wrf = (try Some (int_of_string (get "wrf" "-")) with _ -> None) in
    let e_fec toi fec sbn k e size shards =
      (* ground truth: the genuine (padded) block; only when every source symbol is present for the
         fountain codes, or k symbols for Reed-Solomon with genuine payloads *)
      match Hashtbl.find_opt gtbl toi with
      | None -> abstain := true; None
      | Some (_, transfer, _) ->
        if altered then (abstain := true; None)
        else begin
          let k_i = int_of_n k and e_i = int_of_n e in
          let nsrc = List.length (List.filter (fun (esi, _) -> int_of_n esi < k_i) shards) in
          let enough = (match fec with
              | FRS28 | FRS28US -> List.length shards >= k_i
              | _ -> nsrc = k_i) in
          if not enough then begin
            (match fec with
             | FRaptorQ | FRaptor -> if List.length shards >= k_i then abstain := true
             | _ -> ());
            None
          end else begin
            (* locate the block in the transfer bytes: blocks are contiguous, every block but the last has size bytes *)
            let tl = List.length transfer in
            (* recompute the offset of block sbn from the partition of the object's OTI: the driver knows b from V *)
            let b = n_of_int (int_of_string (get "b" "4")) in
            let (((al, as_), nal), _) = block_partitioning b (n_of_int tl) e in
            let sbn_i = int_of_n sbn and al = int_of_n al and as_ = int_of_n as_ and nal = int_of_n nal in
            let off = (if sbn_i <= nal then sbn_i * al else nal * al + (sbn_i - nal) * as_) * e_i in
            let blen = min (k_i * e_i) (max 0 (tl - off)) in
            let rec drop n l = if n <= 0 then l else match l with [] -> [] | _ :: r -> drop (n - 1) r in
            let data = take blen (drop off transfer) in
            (match fec with
             | FRaptor -> Some data
             | _ -> Some (data @ List.init (k_i * e_i - blen) (fun _ -> N0)))
          end
        end in
    let e_inflate ce acc finished =
      (* the only decoded output the oracle knows is the whole content once all transfer bytes are in *)
      let found = Hashtbl.fold (fun _ (c2, transfer, content) acc' ->
          if acc' <> None then acc' else if c2 = ce && transfer = acc && finished then Some content else acc') gtbl None in
      match found with
      | Some ct -> Some ct
      | None -> if finished then (abstain := true; Some []) else Some [] in
    let env = { e_debug = true; e_md5_enabled = (get "md5" "1" = "1");
                e_builder = (fun _ n -> match nth_clamped bld (int_of_nat n) with 'A' -> WAlready | 'X' -> WAbort | _ -> WStore);
                e_open_ok = (fun (_, n) -> nth_clamped opn (int_of_nat n) = '1');
                e_write_ok = (fun _ k -> match wrf with Some w -> int_of_nat k <> w | None -> true);
                e_fec = e_fec;
                e_md5 = (fun l -> bytes_of_string (b64 (Digest.string (string_of_bytes l))));
                e_inflate = e_inflate } in
    let cfg = { cf_max_err = n_of_int (int_of_string (get "maxerr" "0"));
                cf_max_cache = n_of_int (try int_of_string (get "cache" "10485760") with _ -> 10485760);
                cf_once = (get "once" "1" = "1"); cf_exp_check = (get "exp" "1" = "1") } in
    (* walk the events *)
    let now = z_of_string "1700000001000000000" in
    let st = ref recv0 and ctx = ref ctx0 in
    let diff = ref None in
    let impl_calls : (string * string, wcall list) Hashtbl.t = Hashtbl.create 8 in   (* (toi, n) -> calls, reversed *)
    let impl_builder = ref [] in
    let add_call key c = Hashtbl.replace impl_calls key (c :: (try Hashtbl.find impl_calls key with Not_found -> [])) in
    let dropped = ref false in
    let impl_panic = ref false in
    let c17_fail = ref None in
    let soft = ref false in   (* the only disagreement so far is the return code of a call: the model goes on *)
    let after_cleanup = ref false in
    let got_syms = ref [] in
    let fdt_pkts = ref [] in
    let max_ledger = ref 0 in
    let nev = ref 0 in
    let last_model_q = ref (0, 0) in
    let oarr = Array.of_list o in
    (* the (objects, failed) counts the implementation reports after the event at position i *)
    let next_q i =
      let r = ref None in
      (try for j = i + 1 to Array.length oarr - 1 do
           match split_tilde oarr.(j) with
           | ["Q"; a; b] -> r := Some (int_of_string a, int_of_string b); raise Exit
           | ("D" | "U" | "K" | "Z") :: _ -> raise Exit
           | _ -> ()
         done with Exit -> ());
      !r in
    Array.iteri (fun tok_i tok ->
      match split_tilde tok with
      | "F" :: _ | "G" :: _ | "A" :: _ | "R" :: _ | "C" :: _ -> ()
      | "c" :: "M" :: toi :: n :: fields -> Hashtbl.replace wmeta (toi, n) (parse_meta fields)
      | ["c"; "B"; toi; ans] -> impl_builder := (toi, ans) :: !impl_builder
      | ["c"; "O"; toi; n; ok] -> add_call (toi, n) (CallOpen (ok = "1"))
      | ["c"; "W"; toi; n; data; ok] -> add_call (toi, n) (CallWrite (bytes_of_hex data, ok = "1"))
      | ["c"; "C"; toi; n] -> add_call (toi, n) CallComplete
      | ["c"; "E"; toi; n] -> add_call (toi, n) CallError
      | ["c"; "I"; toi; n] -> add_call (toi, n) CallInterrupted
      | ["H"; bytes] ->
        if prop = "c17" && !c17_fail = None then begin
          let e_i = int_of_string (get "e" "16") and b_i = int_of_string (get "b" "4") in
          let fdte = (try int_of_string (get "fdte" "1400") with _ -> 1400) in
          let cache = (try int_of_string (get "cache" "10485760") with _ -> 10485760) in
          (* flood scenario: `arg` more FDT instance ids, each of which may cache up to the FDT object's own
             fixed limit of 1 MiB in datagrams of 60 kB, until the time-out has elapsed and cleanup ran *)
          (* fdthalf: `arg` more FDT instance ids that stay unfinished, each bounded like any FDT object *)
          let flood = (channel = "fdtflood" || channel = "fdthalf" || channel = "fdtmany") in
          let nflood = (if flood then (try int_of_string (List.nth xsec 3) with _ -> 0) else 0) in
          let cache = if flood then max cache 1048576 else cache in
          (* fatsym: datagrams of up to 60 kB for an object whose blocks are accounted in symbols of e bytes *)
          let maxpk = if flood then 60200 else if channel = "fatsym" then 8200 else max e_i fdte + 128 in
          if not (p_C17_heap_cfg (n_of_int (Hashtbl.length gtbl)) (n_of_int (Hashtbl.length ftbl + nflood)) (n_of_int cache)
                    (n_of_int maxpk) (n_of_int (e_i * b_i)) (z_of_string bytes)) then
            c17_fail := Some (Printf.sprintf "P_C17_heap_cfg@ev%d:heap=%s" !nev bytes)
        end;
        if prop = "c17" && (!diff = None || !soft) && not !abstain then begin
          let e_i = int_of_string (get "e" "16") and b_i = int_of_string (get "b" "4") in
          let fdte = (try int_of_string (get "fdte" "1400") with _ -> 1400) in
          let maxpkt = n_of_int (max e_i fdte + 128) and maxblk = n_of_int (e_i * b_i) in
          if int_of_n (recv_ledger !st) > !max_ledger then max_ledger := int_of_n (recv_ledger !st);
          if not (p_C17_bounds cfg maxpkt maxblk !st) then c17_fail := Some (Printf.sprintf "P_C17_bounds@ev%d" !nev)
          else if not (p_C17_heap !st (z_of_string bytes)) then
            c17_fail := Some (Printf.sprintf "P_C17_heap@ev%d:heap=%s:ledger=%d:items=%d" !nev bytes
                                (int_of_n (recv_ledger !st)) (int_of_n (recv_items !st)))
        end
      | ["Q"; nbobj; nberr] ->
        if (!diff = None || !soft) && !after_cleanup && prop = "c17" && !c17_fail = None
           && not (p_C17_cleanup_releases (n_of_int (fst !last_model_q)) (n_of_int (int_of_string nbobj))) then
          c17_fail := Some (Printf.sprintf "P_C17_cleanup_releases@ev%d:held=%s:expected_at_most=%d" !nev nbobj (fst !last_model_q));
        after_cleanup := false;
        if (!diff = None || !soft) && !last_model_q <> (int_of_string nbobj, int_of_string nberr) then begin
          diff := Some (Printf.sprintf "ev%d:queries:model=%d,%d" !nev (fst !last_model_q) (snd !last_model_q)); soft := false
        end
      | ev ->
        incr nev;
        let (mev, ires) = (match ev with
            | ["D"; toi; flags; fdtid; cp; oti; ce; sct; pid; payload; datalen; res] ->
              let flags = int_of_string flags in
              let a_oti = (if oti = "-" then None else
                             match List.rev (String.split_on_char ',' oti) with
                             | tl :: rest -> Some (oti_of (String.concat "," (List.rev rest)), n_of_hex tl)
                             | [] -> None) in
              (if toi <> "0" then
                 let pidb = bytes_of_hex pid in
                 (match fec_of_cp (n_of_hex cp) with
                  | Some f -> (match parse_pid f pidb with
                      | Some ((sbn, esi), _) -> got_syms := (n_of_hex toi, (sbn, esi)) :: !got_syms
                      | None -> ())
                  | None -> ())
               else fdt_pkts := (fdtid, pid) :: !fdt_pkts);
              let p = { a_toi = n_of_hex toi; a_close_obj = (flags land 1 = 1); a_close_sess = (flags land 2 = 2);
                        a_fdt_id = opt n_of_hex fdtid; a_oti = a_oti; a_cenc = opt cenc_of ce; a_sct = opt z_of_string sct;
                        a_cp = n_of_hex cp; a_pidbytes = bytes_of_hex pid;
                        a_payload = (if String.length payload > 1 && payload.[0] = 'z'
                                     then List.init (int_of_n (n_of_hex (String.sub payload 1 (String.length payload - 1)))) (fun _ -> N0)
                                     else bytes_of_hex payload);
                        a_datalen = n_of_hex datalen } in
              (RvPush (p, now), res)
            | ["U"; res] -> (RvUnparsable, res)
            | ["K"; _; eo; ef; res] ->
              (* entries marked '?' : the idle time could not be decided from outside the receiver
                 (it lies within the duration of a call): either answer is accepted - the subset
                 that reproduces the counts the implementation reports is taken *)
              let items s = if s = "-" then [] else String.split_on_char ',' s in
              let certain s = List.filter_map (fun x -> if String.contains x '?' then None else Some (n_of_hex x)) (items s) in
              let unsure s = List.filter_map (fun x -> if String.contains x '?' then Some (n_of_hex (String.sub x 0 (String.length x - 1))) else None) (items s) in
              let uo = unsure eo and uf = unsure ef in
              let rec subsets = function [] -> [[]] | x :: r -> let ss = subsets r in ss @ List.map (fun l -> x :: l) ss in
              let cands = if List.length uo + List.length uf > 8 then [([], [])] else
                  List.concat_map (fun a -> List.map (fun b -> (a, b)) (subsets uf)) (subsets uo) in
              let target = next_q tok_i in
              let pick = (try List.find (fun (a, b) ->
                  let ((_, s1), _) = recv_step env parse_fdt cfg !st (RvCleanup (now, certain eo @ a, certain ef @ b)) !ctx in
                  Some (List.length s1.rv_objects, List.length s1.rv_error) = target) cands
                 with Not_found -> ([], [])) in
              after_cleanup := true;
              (RvCleanup (now, certain eo @ fst pick, certain ef @ snd pick), res)
            | ["Z"; res] -> dropped := true; (RvDrop, res)
            | _ -> failwith ("event " ^ tok)) in
        if ires = "PANIC" then impl_panic := true;
        if !diff = None || !soft then begin
          let ((mres, s1), c1) = recv_step env parse_fdt cfg !st mev !ctx in
          let mres_s = if c1.c_panic then "PANIC" else (match mres with POk -> "Ok" | PErr -> "Err") in
          let ires_c = (match mev with RvUnparsable -> (if ires = "PANIC" then "PANIC" else "Err") | _ -> ires) in
          (* a datagram the parser rejects, or of a foreign TSI, changes nothing; flute answers Err or Ok *)
          if mres_s <> ires_c && not (mev = RvUnparsable && ires <> "PANIC") then
            (if !diff = None then (diff := Some (Printf.sprintf "ev%d:result:model=%s:impl=%s" !nev mres_s ires); soft := true));
          if Sys.getenv_opt "C09DEBUG" <> None then
            Printf.eprintf "ev%d %s impl=%s model=%s objs=%d err=%d completed=%d log=%d\n" !nev (List.hd ev) ires mres_s
              (List.length s1.rv_objects) (List.length s1.rv_error) (List.length s1.rv_completed) (List.length c1.c_log);
          st := s1; ctx := { c1 with c_panic = false };
          last_model_q := (List.length s1.rv_objects, List.length s1.rv_error)
        end) oarr;
    (* per-writer call sequences: implementation vs model *)
    let keys = Hashtbl.fold (fun k _ acc -> k :: acc) impl_calls [] in
    let canon cs =
      (* chunking of writes is not part of any property: merge consecutive successful writes *)
      let rec go = function
        | CallWrite (a, true) :: CallWrite (b, ok) :: r -> go (CallWrite (a @ b, ok) :: r)
        | x :: r -> x :: go r
        | [] -> [] in
      let cs = if get "cenc" "null" <> "null" then List.filter (fun c -> match c with CallWrite _ -> false | _ -> true) cs else cs in
      (* with a content encoding how much an inflater has produced for a partial input is oracle
         dependent: only the order of the other calls is compared (content is judged by P_C03/P_C09) *)
      go (List.filter (fun c -> match c with CallWrite ([], true) -> false | _ -> true) cs) in
    let model_wids = List.sort_uniq compare (List.filter_map (fun e -> match e with
        | EvOpen ((t, n), _) -> Some (hex_of_n t, string_of_int (int_of_nat n)) | _ -> None) !ctx.c_log) in
    if !diff = None && not !abstain then begin
      let all_keys = List.sort_uniq compare (keys @ model_wids) in
      List.iter (fun (toi, n) ->
        if !diff = None then begin
          let ic = canon (List.rev (try Hashtbl.find impl_calls (toi, n) with Not_found -> [])) in
          let mc = canon (calls_of (n_of_hex toi, nat_of_int (int_of_string n)) !ctx.c_log) in
          if ic <> mc then diff := Some (Printf.sprintf "writer-%s-%s:calls-differ" toi n)
        end) all_keys;
      (* builder calls per TOI *)
      let mb = List.sort compare (List.filter_map (fun e -> match e with
          | EvBuilder (t, a) -> Some (hex_of_n t, (match a with WStore -> "S" | WAlready -> "A" | WAbort -> "X")) | _ -> None) !ctx.c_log) in
      if !diff = None && mb <> List.sort compare !impl_builder then diff := Some "builder-calls-differ"
    end;
    (* predicates on the implementation's callbacks *)
    let pfail = ref None in
    let known_cls = ref None in
    let n_recoverable = ref 0 in
    let nwriters = ref 0 in
    List.iter (fun (toi, n) ->
      incr nwriters;
      let cs = List.rev (Hashtbl.find impl_calls (toi, n)) in
      let g = Hashtbl.find_opt gtbl (n_of_hex toi) in
      let clmd5 = (get "fdtmut" "-" = "clmd5") in
      let content = (match g with Some (_, _, ct) when not altered && not clmd5 && get "fdtmut" "-" <> "notl" -> Some ct | _ -> None) in
      if prop = "c09" then begin
        if not (p_C09_writer content !dropped cs) then pfail := Some (Printf.sprintf "P_C09_writer:%s.%s" toi n)
      end else if prop = "c03" then begin
        match g with
        | Some (_, _, ct) ->
          (* guarded: genuine bytes, or MD5 announced (object flag) and checked *)
          let osecs = List.filter (fun s -> s <> [] && List.hd s = "O") secs in
          let idx = int_of_n (n_of_hex toi) - 1 in
          let md5_announced = (try List.nth (List.nth osecs idx) 4 = "1" with _ -> false) in
          (* an FDT instance rewritten in transit (fdtmut=notl: Transfer-Length stripped) is not one the
             sender emitted: outside C03's quantifier unless the MD5 guards the object (untrusted FDTs are C04's) *)
          let guarded = ((not altered) && not clmd5 && get "fdtmut" "-" <> "notl") || (md5_announced && get "md5" "1" = "1") in
          let ct = (match Hashtbl.find_opt claimed (n_of_hex toi) with Some c -> c | None -> ct) in
          if not (p_C03_writer ct guarded cs) then pfail := Some (Printf.sprintf "P_C03_writer:%s.%s" toi n)
        | None -> ()
      end) keys;
    if prop = "c01" then begin
      (* an object is refused when it is added iff the wire format / the FEC scheme cannot carry it
         (model of FileDesc::new: Model/BlockEnc.filedesc_accepts) *)
      let osecs = List.filter (fun sct -> sct <> [] && List.hd sct = "O") secs in
      let next_toi = ref 1 in
      List.iteri (fun idx _ ->
        let tlen = (match List.assoc_opt idx !refused with
            | Some tl -> Some (tl, true)
            | None ->
              let r = (match Hashtbl.find_opt gtbl (n_of_int !next_toi) with
                  | Some (_, transfer, _) -> Some (n_of_int (List.length transfer), false)
                  | None -> None) in
              incr next_toi; r) in
        match tlen with
        | None -> ()
        | Some (tl, was_refused) ->
          let fec = (match get "fec" "nocode" with
              | "rs28" -> RS28 | "rs28us" -> RS28US | "raptorq" -> RaptorQ | "raptor" -> Raptor | _ -> NoCode) in
          let cfgm = { c_fec = fec; c_e = n_of_int (int_of_string (get "e" "16")); c_b = n_of_int (int_of_string (get "b" "4"));
                       c_parity = n_of_int (int_of_string (get "par" "0")); c_window = O; c_closable = false;
                       c_tlen = tl; c_debug = true } in
          let accepts = filedesc_accepts cfgm in
          if not (p_C01_refused_above_maximum fec cfgm.c_e cfgm.c_b tl (not was_refused)) && !pfail = None then
            pfail := Some (Printf.sprintf "P_C01_refused_above_maximum:object%d:tlen=%d" idx (int_of_n tl));
          if accepts = was_refused && !diff = None then
            diff := Some (Printf.sprintf "object%d:add_object:model-%s" idx (if accepts then "accepts" else "refuses"))) osecs
    end;
    if prop = "c01" || prop = "c02" || prop = "c16" then begin
      let known = ref None in
      Hashtbl.iter (fun toi (tc, given) ->
        let toi_s = hex_of_n toi in
        let ws = List.filter_map (fun (t, n) ->
            if t = toi_s then
              Some ((try Hashtbl.find wmeta (t, n) with Not_found -> given), List.rev (Hashtbl.find impl_calls (t, n)))
            else None) keys in
        (* writers that were created but never called (builder answered store, nothing else) do not exist in impl_calls *)
        match Hashtbl.find_opt gtbl toi with
        | None -> ()
        | Some (_, transfer, content) ->
          if prop = "c01" then begin
            let once = (get "once" "1" = "1") in
            let copies = if once then 1 else tc in
            if not (p_C01_object given content (n_of_int copies) ws) then begin
              (* recorded finding D20: no-cache objects are not remembered as completed *)
              let nocache = (fst given.m_cache = N0) in
              let ncomplete = List.length (List.filter (fun (_, cs) -> List.mem CallComplete cs) ws) in
              let all_exact = List.for_all (fun (m, cs) -> not (List.mem CallComplete cs) || (p_C01_object given content (n_of_int 1) [(m, cs)])) ws in
              (* D20: a no-cache object is not remembered as completed: extra copies, and trailing packets reopen a writer *)
              if nocache && ncomplete >= 1 && all_exact then known := Some "D20"
              (* D35: in being-transferred mode an FDT instance that does not list a completed object makes the
                 receiver forget it (gc_object_completed), so a later transfer is delivered again despite receive-once *)
              else if once && tc >= 2 && get "mode" "full" = "bt" && ncomplete >= 1 && ncomplete <= tc && all_exact
                      && List.for_all (fun (_, cs) -> not (List.mem CallError cs || List.mem CallInterrupted cs)) ws
              then (if !known = None then known := Some "D35")
              else pfail := Some (Printf.sprintf "P_C01_object:toi=%s" toi_s)
            end
          end else begin
            (* recoverability premise from what arrived *)
            let e = n_of_int (int_of_string (get "e" "16")) and b = n_of_int (int_of_string (get "b" "4")) in
            let tl = n_of_int (List.length transfer) in
            let (((al, as_), nal), nblk) = block_partitioning b tl e in
            let ks = List.init (int_of_n nblk) (fun i -> if i < int_of_n nal then al else as_) in
            let fec = get "fec" "nocode" in
            let rs = (fec = "rs28" || fec = "rs28us") in
            let got = List.filter_map (fun (t, se) -> if t = toi then Some se else None) !got_syms in
            (* an FDT instance listing the object must have arrived completely: every instance of this
               session travels in ceil(len/1400) packets; the driver counts distinct (id, payload id) *)
            let fdt_ok = List.exists (fun (id, inst, npk) ->
                let lists = (match String.split_on_char '/' inst with
                    | [_; _; files] -> List.exists (fun f -> match String.split_on_char ':' f with t :: _ -> t = toi_s | [] -> false)
                                         (String.split_on_char '+' files)
                    | _ -> false) in
                let arrived = List.length (List.sort_uniq compare (List.filter_map (fun (i, pid) -> if i = id then Some pid else None) !fdt_pkts)) in
                lists && arrived >= npk) !finsts in
            (* C16 (late join, no loss after the join): the premise is two full cycles of the objects AND OF THE
               FDT, whatever the FDT instances list - a sender that no longer announces a carouselled object
               must not make the statement vacuous.  Two complete receptions of FDT instances (the same one
               repeated or two different ones) stand for "two cycles of the FDT". *)
            let fdt_receptions = List.fold_left (fun acc (id, _, npk) ->
                let cnt = List.length (List.filter (fun (i, _) -> i = id) !fdt_pkts) in
                acc + (if npk > 0 then cnt / npk else 0)) 0 !finsts in
            let fdt_ok = if prop = "c16" then fdt_receptions >= 2 else fdt_ok in
            (* an empty object has no source block: the premise is read as 'its (single, empty) packet arrives' *)
            let recoverable = fdt_ok && (ks <> [] || got <> []) && blocks_recoverable rs (n_of_int (int_of_string (get "par" "0"))) ks N0 got
                              && get "bld" "S" = "S" && get "opn" "1" = "1" && get "wrf" "-" = "-" && not altered
                              (* stated premises of C02: relative order preserved, no receiver drop / cleanup in between,
                                 genuine FDT, the default (large) cache limit *)
                              && List.mem channel ["all"; "sub"; "dup"; "lossdup"; "late"; "mask"]
                              && not (List.exists (fun sct -> sct <> [] && List.hd sct = "E") secs)
                              && get "fdtmut" "-" = "-"
                              && (try int_of_string (get "cache" "10485760") >= 1048576 with _ -> true) in
            if not (p_C02_object recoverable content ws) then pfail := Some (Printf.sprintf "P_%s_object:toi=%s" (String.uppercase_ascii prop) toi_s)
            else if recoverable then incr n_recoverable
          end) atbl;
      (match !known, !pfail with Some k, None -> known_cls := Some k | _ -> ())
    end;
    if prop = "c17" then (match !c17_fail with Some w -> pfail := Some w | None -> ());
    if !impl_panic then pfail := Some "receiver-panicked";
    if !abstain then diff := None;
    (match !pfail, !diff with
     | Some why, Some d -> verdict_both why d
     | Some why, None -> verdict_pfail why
     | None, Some d -> verdict_diff d
     | None, None when !known_cls <> None -> (match !known_cls with Some k -> verdict_known k | None -> ())
     | None, None -> verdict_ok (if prop = "c02" || prop = "c16" then (!n_recoverable > 0) else if prop = "c17" then (!max_ledger > 0 && not !abstain) else (!nwriters >= 1 && not !abstain)))

let () = run_driver handle
