#!/bin/bash
# usage: build.sh cXX  — builds ocaml/build/cXX_driver from gen/cXX_model.ml + conv_inc.ml + cXX_driver.ml
set -e
cd "$(dirname "$0")"
id=$1
mkdir -p build
cat gen/${id}_model.ml conv_inc.ml ${id}_driver.ml > build/${id}_all.ml
cd build
ocamlfind ocamlopt -O3 -w -a -package str ${id}_all.ml -o ${id}_driver 2>/dev/null || ocamlfind ocamlopt -w -a ${id}_all.ml -o ${id}_driver
