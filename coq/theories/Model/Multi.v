(* Model of /repo/src/receiver/multireceiver.rs (MultiReceiver: push, cleanup, listen
   operations, listeners, Drop) and of the two members of receiver.rs that MultiReceiver
   relies on (Receiver::last_activity / is_expired).  Definitions only; proofs are in
   Proofs/MultiProofs.v.

   The model is generic in the per-session machine (the FLUTE `Receiver`):
     rinit k          Receiver::new(&k.endpoint, k.tsi, writer, config)
     rpush r p now    Receiver::push(&alc, now)        -> new state, everything it emits
     rcleanup r now   Receiver::cleanup(now)           -> new state, everything it emits
     rdrop r          drop(Box<Receiver>)              -> what the destructors emit
   "Everything it emits" (type O) = the returned Result and the ObjectWriterBuilder /
   ObjectWriter callbacks with their arguments.  The parse result of a datagram
   (alc::parse_alc_pkt) is an input of the model: [None] = parse error, [Some p] with
   [pkt_tsi p], [pkt_close p] = the LCT TSI and the close-session (A) flag.

   Time: `Instant::now()` readings inside flute are event arguments (Z, nanoseconds of a
   monotonic clock): [tnow] of a push is the reading stored in `last_activity`
   (receiver.rs:269); a cleanup reads the clock once per session (receiver.rs:123-132).
   `SystemTime` arguments ([now]) are only passed through to the session machine.

   mcleanup is the model of `cleanup` AFTER fixes/D24-cleanup-single-expiry-read.patch (one
   is_expired() evaluation per session); mcleanup_unfixed is the model of the code as found
   (two evaluations, multireceiver.rs:272-278 of the unpatched tree), kept for the D24
   witness.

   Listener ids (`listeners_id: u64`, += 1) and the filter counters can overflow: [None]
   = arithmetic-overflow panic (see Model/TsiFilter.v). *)
From FluteV Require Export Model.TsiFilter.
Open Scope bool_scope.
Open Scope N_scope.

(* ReceiverEndpoint { endpoint, tsi }  (multireceiver.rs:13-19), #[derive(Hash, Eq)] *)
Definition Key := (Endpoint * N)%type.
Definition key_eqb (a b : Key) : bool := ep_eqb (fst a) (fst b) && (snd a =? snd b).

(* Receiver::is_expired (receiver.rs:123-132): `elapsed()` saturates at zero *)
Definition is_expired (timeout : option Z) (last reading : Z) : bool :=
  match timeout with
  | None => false
  | Some d => (d <? Z.max 0 (reading - last))%Z
  end.

Section Multi.
  Variables R P O : Type.
  Variable pkt_tsi : P -> N.
  Variable pkt_close : P -> bool.
  Variable rinit : Key -> R.
  Variable rpush : R -> P -> Z -> R * O.
  Variable rcleanup : R -> Z -> R * O.
  Variable rdrop : R -> O.

  (* the part of a Receiver that MultiReceiver reads, and the rest *)
  Record Sess := mkSess { s_last : Z; s_st : R }.

  Record MState := mkM {
    m_sess : list (Key * Sess);      (* alc_receiver *)
    m_filter : TsiFilter;            (* tsifilter *)
    m_enable : bool;                 (* enable_tsi_filtering *)
    m_timeout : option Z;            (* config.session_timeout (None when config is None) *)
    m_listeners : list N;            (* keys of `listeners` *)
    m_next_id : N                    (* listeners_id *)
  }.

  (* MultiReceiver::new *)
  Definition minit (enable : bool) (timeout : option Z) : MState :=
    mkM [] tf_new enable timeout [] 0.

  Definition set_sess (st : MState) (s : list (Key * Sess)) : MState :=
    mkM s (m_filter st) (m_enable st) (m_timeout st) (m_listeners st) (m_next_id st).
  Definition set_filter (st : MState) (f : TsiFilter) : MState :=
    mkM (m_sess st) f (m_enable st) (m_timeout st) (m_listeners st) (m_next_id st).

  Inductive Ev :=
  | EvListenerId (id : N)                      (* value returned by add_listener *)
  | EvParseErr                                 (* push returned the parse error *)
  | EvSkip (k : Key)                           (* filtered: push returned Ok, nothing else *)
  | EvNoSession (k : Key)                      (* close-session for an unknown session: Ok *)
  | EvNew (k : Key)                            (* Receiver::new called for k *)
  | EvEnd (k : Key) (o : O)                    (* the Receiver of k dropped; what that emits *)
  | EvOut (k : Key) (o : O)                    (* Receiver::push / ::cleanup of k; what it emits *)
  | EvNotify (l : N) (is_open : bool) (k : Key). (* listener l: on_session_open / _closed (k) *)

  (* `for listener in self.listeners.values() { listener.on_session_*(&key) }` *)
  Definition notify (st : MState) (is_open : bool) (k : Key) : list Ev :=
    map (fun l => EvNotify l is_open k) (m_listeners st).

  (* MultiReceiver::push (209-263) with get_receiver (290-294) and
     get_receiver_or_create (296-314) *)
  Definition mpush (st : MState) (ep : Endpoint) (pkt : option P) (now tnow : Z)
    : MState * list Ev :=
    match pkt with
    | None => (st, [EvParseErr])
    | Some p =>
      let k : Key := (ep, pkt_tsi p) in
      if m_enable st && negb (tf_is_valid (m_filter st) ep (pkt_tsi p)) then (st, [EvSkip k])
      else if pkt_close p then
        match am_get key_eqb (m_sess st) k with
        | Some s =>
          let (r', o) := rpush (s_st s) p now in
          (set_sess st (am_remove key_eqb (m_sess st) k),
           [EvOut k o; EvEnd k (rdrop r')] ++ notify st false k)
        | None => (st, [EvNoSession k])
        end
      else
        match am_get key_eqb (m_sess st) k with
        | Some s =>
          let (r', o) := rpush (s_st s) p now in
          (set_sess st (am_set key_eqb (m_sess st) k (mkSess tnow r')), [EvOut k o])
        | None =>
          let (r', o) := rpush (rinit k) p now in
          (set_sess st (am_set key_eqb (m_sess st) k (mkSess tnow r')),
           notify st true k ++ [EvNew k; EvOut k o])
        end
    end.

  Definition sess_expired (st : MState) (rd : Key -> Z) (e : Key * Sess) : bool :=
    is_expired (m_timeout st) (s_last (snd e)) (rd (fst e)).

  Definition sess_cleanup (now : Z) (e : Key * Sess) : (Key * Sess) * Ev :=
    let (r', o) := rcleanup (s_st (snd e)) now in
    ((fst e, mkSess (s_last (snd e)) r'), EvOut (fst e) o).

  Definition ev_end (e : Key * Sess) : Ev := EvEnd (fst e) (rdrop (s_st (snd e))).

  (* MultiReceiver::cleanup after the D24 fix: one is_expired() per session decides both
     removal and notification.  Event order inside one call is the code's order up to
     hash-map iteration order (observables are compared per key). *)
  Definition mcleanup (st : MState) (now : Z) (rd : Key -> Z) : MState * list Ev :=
    let gone := filter (sess_expired st rd) (m_sess st) in
    let kept := filter (fun e => negb (sess_expired st rd e)) (m_sess st) in
    let cl := map (sess_cleanup now) kept in
    (set_sess st (map fst cl),
     map ev_end gone ++ map snd cl ++ flat_map (notify st false) (map fst gone)).

  (* MultiReceiver::cleanup as found (270-288): the keys to notify come from a first
     evaluation of is_expired() (readings rd1), `retain` removes by a second one (rd2). *)
  Definition mcleanup_unfixed (st : MState) (now : Z) (rd1 rd2 : Key -> Z) : MState * list Ev :=
    let output := map fst (filter (sess_expired st rd1) (m_sess st)) in
    let gone := filter (sess_expired st rd2) (m_sess st) in
    let kept := filter (fun e => negb (sess_expired st rd2 e)) (m_sess st) in
    let cl := map (sess_cleanup now) kept in
    (set_sess st (map fst cl),
     map ev_end gone ++ map snd cl ++ flat_map (notify st false) output).

  Inductive Op :=
  | OAddListener                                  (* add_listener *)
  | ORemoveListener (id : N)                      (* remove_listener *)
  | OSetFiltering (b : bool)                      (* set_tsi_filtering *)
  | OFilter (f : FOp)                             (* add_/remove_listen_(all_)tsi *)
  | OPush (ep : Endpoint) (pkt : option P) (now tnow : Z)
  | OCleanup (now : Z) (rd : Key -> Z).

  Definition mstep (st : MState) (op : Op) : option (MState * list Ev) :=
    match op with
    | OAddListener =>
      if m_next_id st =? u64_max then None
      else Some (mkM (m_sess st) (m_filter st) (m_enable st) (m_timeout st)
                     (m_listeners st ++ [m_next_id st]) (m_next_id st + 1),
                 [EvListenerId (m_next_id st)])
    | ORemoveListener id =>
      Some (mkM (m_sess st) (m_filter st) (m_enable st) (m_timeout st)
                (filter (fun l => negb (l =? id)) (m_listeners st)) (m_next_id st), [])
    | OSetFiltering b =>
      Some (mkM (m_sess st) (m_filter st) b (m_timeout st) (m_listeners st) (m_next_id st), [])
    | OFilter f =>
      match tf_step (m_filter st) f with
      | Some f' => Some (set_filter st f', [])
      | None => None
      end
    | OPush ep pkt now tnow => Some (mpush st ep pkt now tnow)
    | OCleanup now rd => Some (mcleanup st now rd)
    end.

  (* events are kept grouped per operation *)
  Fixpoint mrun (st : MState) (ops : list Op) : option (MState * list (list Ev)) :=
    match ops with
    | [] => Some (st, [])
    | op :: r =>
      match mstep st op with
      | None => None
      | Some (st', e1) =>
        match mrun st' r with
        | None => None
        | Some (st'', e2) => Some (st'', e1 :: e2)
        end
      end
    end.

  (* impl Drop for MultiReceiver (317-324), then the fields are dropped *)
  Definition mdrop (st : MState) : list Ev :=
    flat_map (notify st false) (map fst (m_sess st)) ++ map ev_end (m_sess st).

  (* a whole life of a MultiReceiver: operations, then drop; all events in order *)
  Definition mlife (st : MState) (ops : list Op) : option (list Ev) :=
    match mrun st ops with
    | Some (st', steps) => Some (concat steps ++ mdrop st')
    | None => None
    end.

  (* --- projections used by the statements --- *)

  (* what listener l saw about session k: true = open, false = closed *)
  Definition lk_trace (l : N) (k : Key) (evs : list Ev) : list bool :=
    flat_map (fun e => match e with
                       | EvNotify l' b k' => if (l' =? l) && key_eqb k' k then [b] else []
                       | _ => []
                       end) evs.

  (* the life of the session objects of key k: true = created, false = destroyed *)
  Definition life_trace (k : Key) (evs : list Ev) : list bool :=
    flat_map (fun e => match e with
                       | EvNew k' => if key_eqb k' k then [true] else []
                       | EvEnd k' _ => if key_eqb k' k then [false] else []
                       | _ => []
                       end) evs.

  (* restriction of an operation list / an event list to a set of session keys; operations
     that are not a (parsable) packet are global and always kept *)
  Definition op_sel (sel : Key -> bool) (op : Op) : bool :=
    match op with
    | OPush ep (Some p) _ _ => sel (ep, pkt_tsi p)
    | _ => true
    end.

  Definition ev_sel (sel : Key -> bool) (e : Ev) : bool :=
    match e with
    | EvListenerId _ | EvParseErr => true
    | EvSkip k | EvNoSession k | EvNew k | EvEnd k _ | EvOut k _ | EvNotify _ _ k => sel k
    end.

  Definition live (st : MState) (k : Key) : bool := am_mem key_eqb (m_sess st) k.
End Multi.

Arguments mkSess {R}. Arguments s_last {R}. Arguments s_st {R}.
Arguments mkM {R}. Arguments m_sess {R}. Arguments m_filter {R}. Arguments m_enable {R}.
Arguments m_timeout {R}. Arguments m_listeners {R}. Arguments m_next_id {R}.
Arguments minit {R}. Arguments live {R}.
Arguments EvListenerId {O}. Arguments EvParseErr {O}. Arguments EvSkip {O}.
Arguments EvNoSession {O}. Arguments EvNew {O}. Arguments EvEnd {O}. Arguments EvOut {O}.
Arguments EvNotify {O}.
Arguments OAddListener {P}. Arguments ORemoveListener {P}. Arguments OSetFiltering {P}.
Arguments OFilter {P}. Arguments OPush {P}. Arguments OCleanup {P}.
Arguments lk_trace {O}. Arguments life_trace {O}. Arguments ev_sel {O}.
Arguments op_sel {P}.
