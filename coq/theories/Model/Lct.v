(* Model of /repo/src/common/lct.rs : nb_bytes_128, nb_bytes_64, push_lct_header,
   inc_hdr_len, parse_lct_header, get_ext.  Mirrors the shifts, masks, u8/u32 arithmetic,
   slice bounds and early returns of the Rust code line by line.  Definitions only. *)
From FluteV Require Export Model.Bytes.
Open Scope N_scope.

(* 0xFFFF << k *)
Definition mask16 (k : N) : N := N.shiftl (N.ones 16) k.

(* lct.rs:95-129  (argument is a u128) *)
Definition nb_bytes_128 (x min : N) : N :=
  if negb (N.land x (mask16 112) =? 0) then 16
  else if negb (N.land x (mask16 96) =? 0) then 14
  else if negb (N.land x (mask16 80) =? 0) then 12
  else if negb (N.land x (mask16 64) =? 0) then 10
  else if negb (N.land x (mask16 48) =? 0) then 8
  else if negb (N.land x (mask16 32) =? 0) then 6
  else if negb (N.land x (mask16 16) =? 0) then 4
  else if negb (N.land x (mask16 0) =? 0) then 2
  else min.

(* lct.rs:131-149  (argument is a u64) *)
Definition nb_bytes_64 (x min : N) : N :=
  if negb (N.land x (mask16 48) =? 0) then 8
  else if negb (N.land x (mask16 32) =? 0) then 6
  else if negb (N.land x (mask16 16) =? 0) then 4
  else if negb (N.land x (mask16 0) =? 0) then 2
  else min.

(* lct.rs:252-275 : the width flags (C, S, O, H) flute selects for given CCI, TSI, TOI *)
Definition lct_flags (cci tsi toi : N) : N * N * N * N :=
  let cci_size := nb_bytes_128 cci 0 in
  let tsi_size := nb_bytes_64 tsi 2 in
  let toi_size := nb_bytes_128 toi 2 in
  let h_tsi := N.shiftr (N.land tsi_size 2) 1 in
  let h_toi := N.shiftr (N.land toi_size 2) 1 in
  let h := N.lor h_tsi h_toi in
  let o := N.land (N.shiftr toi_size 2) 3 in
  let s := N.land (N.shiftr tsi_size 2) 1 in
  let c := if cci_size <=? 4 then 0 else if cci_size <=? 8 then 1 else if cci_size <=? 12 then 2 else 3 in
  (c, s, o, h).

Definition lor_all (l : list N) : N := fold_left N.lor l 0.

(* lct.rs:276-288 : the first 32-bit word (all operands fit a u32, nothing is truncated;
   [psi] is an unmasked u8, so psi >= 4 spills into C and V) *)
Definition lct_word (psi cp : N) (close_object close_session : bool) (c s o h : N) : N :=
  let b := if close_object then 1 else 0 in
  let a := if close_session then 1 else 0 in
  let hdr_len := (2 + o + s + h + c) mod 256 in
  let v := 1 in
  lor_all [cp; N.shiftl hdr_len 8; N.shiftl b 16; N.shiftl a 17; N.shiftl h 20; N.shiftl o 21;
           N.shiftl s 23; N.shiftl psi 24; N.shiftl c 26; N.shiftl v 28].

(* lct.rs:242-305.  psi, cp : u8; cci, toi : u128; tsi : u64 *)
Definition push_lct_header (data : list N) (psi cci tsi toi cp : N)
           (close_object close_session : bool) : list N :=
  let '(c, s, o, h) := lct_flags cci tsi toi in
  let w := lct_word psi cp close_object close_session c s o h in
  data ++ be_encode 4 w
       ++ skipn (16 - N.to_nat ((c + 1) * 4)) (be_encode 16 cci)
       ++ skipn (8 - N.to_nat (s * 4 + h * 2)) (be_encode 8 tsi)
       ++ skipn (16 - N.to_nat (o * 4 + h * 2)) (be_encode 16 toi).

(* lct.rs:316-318 : data[2] += val on a u8 (index and overflow checks are panics) *)
Definition inc_hdr_len (data : list N) (val : N) : res (list N) :=
  match data with
  | b0 :: b1 :: b2 :: r => if b2 + val <? 256 then Ok (b0 :: b1 :: (b2 + val) :: r) else Panic
  | _ => Panic
  end.

Record lct_header := {
  lh_len : N;              (* header length in bytes = data[2] << 2 *)
  lh_cci : N;
  lh_tsi : N;
  lh_toi : N;
  lh_cp : N;
  lh_close_object : bool;
  lh_close_session : bool;
  lh_ext_offset : N
}.

Definition lenN (l : list N) : N := N.of_nat (length l).

(* lct.rs:319-414 *)
Definition parse_lct_header (data : list N) : res lct_header :=
  match nth_error data 2 with
  | None => Err                                   (* "Fail to read lct header size" *)
  | Some v =>
    let len := v * 4 in
    if lenN data <? len then Err
    else
      match nth_error data 3, nth_error data 0, nth_error data 1 with
      | Some cp, Some flags1, Some flags2 =>
        let s := N.land (N.shiftr flags2 7) 1 in
        let o := N.land (N.shiftr flags2 5) 3 in
        let h := N.land (N.shiftr flags2 4) 1 in
        let c := N.land (N.shiftr flags1 2) 3 in
        let a := N.land (N.shiftr flags2 1) 1 in
        let b := N.land flags2 1 in
        let version := N.shiftr flags1 4 in
        if negb (version =? 1) && negb (version =? 2) then Err
        else
          let cci_len := (c + 1) * 4 in
          let tsi_len := s * 4 + h * 2 in
          let toi_len := o * 4 + h * 2 in
          let cci_to := 4 + cci_len in
          let tsi_to := cci_to + tsi_len in
          let toi_to := tsi_to + toi_len in
          if (lenN data <? toi_to) || (16 <? cci_len) || (8 <? tsi_len) || (16 <? toi_len) then Err
          else if len <? toi_to then Err              (* "EXT offset outside LCT header" *)
          else
            let cci := be_decode (repeat 0 (16 - N.to_nat cci_len) ++ slice data 4 (N.to_nat cci_to)) in
            let tsi := be_decode (repeat 0 (8 - N.to_nat tsi_len) ++ slice data (N.to_nat cci_to) (N.to_nat tsi_to)) in
            let toi := be_decode (repeat 0 (16 - N.to_nat toi_len) ++ slice data (N.to_nat tsi_to) (N.to_nat toi_to)) in
            Ok {| lh_len := len; lh_cci := cci; lh_tsi := tsi; lh_toi := toi; lh_cp := cp;
                  lh_close_object := negb (b =? 0); lh_close_session := negb (a =? 0);
                  lh_ext_offset := toi_to |}
      | _, _, _ => Panic                          (* data[3] with a 3-byte datagram (D1, C04) *)
      end
  end.

(* the extension length in bytes computed from the HEL byte:
   current code (after fixes/D03):  (lct_ext_ext[1] as usize) << 2
   before the fix:                  (lct_ext_ext[1] << 2) as usize   -- a u8 shift, wraps *)
Definition hel_bytes (b1 : N) : N := b1 * 4.
Definition hel_bytes_u8 (b1 : N) : N := (b1 * 4) mod 256.

(* lct.rs:430-456, the loop; [e] is the remaining extension area *)
Fixpoint get_ext_walk (hel_of : N -> N) (fuel : nat) (e : list N) (ext : N) : res (option (list N)) :=
  match fuel with
  | O => OutOfFuel
  | S fuel' =>
    match e with
    | het :: b1 :: _ :: _ :: _ =>
      let hel := if 128 <=? het then 4 else hel_of b1 in
      if (hel =? 0) || (lenN e <? hel) then Err
      else if het =? ext then Ok (Some (firstn (N.to_nat hel) e))
      else get_ext_walk hel_of fuel' (skipn (N.to_nat hel) e) ext
    | _ => Ok None                                 (* fewer than 4 bytes left *)
    end
  end.

Definition get_ext_gen (hel_of : N -> N) (data : list N) (lct : lct_header) (ext : N) : res (option (list N)) :=
  if (lh_len lct <? lh_ext_offset lct) || (lenN data <? lh_len lct) then Panic   (* slice bounds *)
  else
    let area := slice data (N.to_nat (lh_ext_offset lct)) (N.to_nat (lh_len lct)) in
    get_ext_walk hel_of (S (length area)) area ext.

Definition get_ext := get_ext_gen hel_bytes.
Definition get_ext_unfixed := get_ext_gen hel_bytes_u8.
