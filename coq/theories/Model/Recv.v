(* Model of /repo/src/receiver/receiver.rs and /repo/src/receiver/fdtreceiver.rs.
   Oracle: [parse_fdt] = FdtInstance::parse + the accessors used by the receiver (per file: TOI,
   content encoding, OTI, lengths, MD5, cache directive; instance OTI; Expires).  Wall-clock
   time-outs (Instant::now) are events: [cleanup] receives the set of TOIs whose object timed out.
   Definitions only. *)
From FluteV Require Export Model.ObjRecv.
Open Scope N_scope.

Record fdtinst := mk_fi { fi_files : list fdtfile; fi_oti : option roti; fi_expires : option Z }.

Inductive fstate := FReceiving | FComplete | FError | FExpired.

Record fdtrecv := mk_fr {
  fr_id : N;
  fr_obj : option objrecv;
  fr_data : list N;
  fr_state : fstate;
  fr_inst : option fdtinst;
  fr_offset : option (Z * bool);    (* |sender time - receiver time| at the last packet, late flag *)
  fr_check : bool
}.

Record rconfig := mk_rcfg { cf_max_err : N; cf_max_cache : N; cf_once : bool; cf_exp_check : bool }.

Record recv := mk_recv {
  rv_objects : list (N * objrecv);
  rv_completed : list N;
  rv_error : list N;                 (* kept sorted ascending (BTreeSet) *)
  rv_fdt_receivers : list (N * fdtrecv);
  rv_fdt_current : list fdtrecv;     (* front first *)
  rv_closed : bool
}.
Definition recv0 : recv := mk_recv [] [] [] [] [] false.

Section WithEnv.
  Variable E : env.                  (* the user's writer builder / writers and the FEC, MD5, inflate oracles *)
  Variable parse_fdt : list N -> option fdtinst.
  Variable cfg : rconfig.

  (* the FDT object's internal writer: always stored, never fails, no MD5 *)
  Definition E_fdt : env :=
    mk_env (e_debug E) false (fun _ _ => WStore) (fun _ => true) (fun _ _ => true)
           (e_fec E) (e_md5 E) (e_inflate E).

  (* ---------- FdtReceiver ---------- *)
  Definition fr_new (id : N) : fdtrecv :=
    mk_fr id (Some (or_new 0 1048576)) [] FReceiving None None (cf_exp_check cfg).

  Definition server_time (f : fdtrecv) (now : Z) : Z :=
    match fr_offset f with
    | Some (off, true) => (now - off)%Z
    | Some (off, false) => (now + off)%Z
    | None => now
    end.

  Definition fr_is_expired (f : fdtrecv) (now : Z) : bool :=
    match fr_inst f with
    | Some i => match fi_expires i with
                | Some ex => (ex <? server_time f now)%Z
                | None => true
                end
    | None => true
    end.

  Definition fr_update_expired (f : fdtrecv) (now : Z) : fdtrecv :=
    match fr_state f with
    | FComplete => if fr_check f && fr_is_expired f now
                   then mk_fr (fr_id f) (fr_obj f) (fr_data f) FExpired (fr_inst f) (fr_offset f) (fr_check f)
                   else f
    | _ => f
    end.

  (* apply the FDT writer's callbacks recorded in a log *)
  Fixpoint apply_fdt_log (log : list wev) (f : fdtrecv) : fdtrecv :=
    match log with
    | [] => f
    | EvWrite _ d _ :: r =>
      apply_fdt_log r (mk_fr (fr_id f) (fr_obj f) (fr_data f ++ d) (fr_state f) (fr_inst f) (fr_offset f) (fr_check f))
    | EvComplete _ :: r =>
      apply_fdt_log r
        (match parse_fdt (fr_data f) with
         | Some i => mk_fr (fr_id f) (fr_obj f) (fr_data f) FComplete (Some i) (fr_offset f) (fr_check f)
         | None => mk_fr (fr_id f) (fr_obj f) (fr_data f) FError (fr_inst f) (fr_offset f) (fr_check f)
         end)
    | (EvError _ | EvInterrupted _) :: r =>
      apply_fdt_log r (mk_fr (fr_id f) (fr_obj f) (fr_data f) FError (fr_inst f) (fr_offset f) (fr_check f))
    | _ :: r => apply_fdt_log r f
    end.

  (* FdtReceiver::push; second component: panic flag *)
  Definition fr_push (p : apkt) (now : Z) (f : fdtrecv) : fdtrecv * bool :=
    let off := match a_sct p with
               | Some t => if (t <? now)%Z then Some ((now - t)%Z, true) else Some ((t - now)%Z, false)
               | None => fr_offset f
               end in
    let f0 := mk_fr (fr_id f) (fr_obj f) (fr_data f) (fr_state f) (fr_inst f) off (fr_check f) in
    match fr_obj f0 with
    | None => (f0, false)
    | Some o =>
      let (o1, c1) := or_push E_fdt p o ctx0 in
      let f1 := apply_fdt_log (c_log c1) f0 in
      let f2 :=
        match r_state o1 with
        | Receiving => mk_fr (fr_id f1) (Some o1) (fr_data f1) (fr_state f1) (fr_inst f1) (fr_offset f1) (fr_check f1)
        | Completed => mk_fr (fr_id f1) None (fr_data f1) (fr_state f1) (fr_inst f1) (fr_offset f1) (fr_check f1)
        | _ => mk_fr (fr_id f1) (Some o1) (fr_data f1) FError (fr_inst f1) (fr_offset f1) (fr_check f1)
        end in
      (f2, c_panic c1)
    end.

  (* ---------- Receiver ---------- *)
  Definition set_objects (r : recv) (x : list (N * objrecv)) : recv :=
    mk_recv x (rv_completed r) (rv_error r) (rv_fdt_receivers r) (rv_fdt_current r) (rv_closed r).
  Definition get_obj (r : recv) (toi : N) : option objrecv :=
    match find (fun p => fst p =? toi) (rv_objects r) with Some p => Some (snd p) | None => None end.
  Definition del_obj (toi : N) (l : list (N * objrecv)) : list (N * objrecv) :=
    filter (fun p => negb (fst p =? toi)) l.
  Definition put_obj (toi : N) (o : objrecv) (l : list (N * objrecv)) : list (N * objrecv) :=
    if existsb (fun p => fst p =? toi) l
    then map (fun p => if fst p =? toi then (toi, o) else p) l
    else l ++ [(toi, o)].

  Fixpoint insert_sorted (x : N) (l : list N) : list N :=
    match l with
    | [] => [x]
    | y :: r => if x =? y then l else if x <? y then x :: l else y :: insert_sorted x r
    end.

  (* removing an object from the map drops it *)
  Definition remove_obj (toi : N) (r : recv) (c : ctx) : recv * ctx :=
    match get_obj r toi with
    | Some o => (set_objects r (del_obj toi (rv_objects r)), or_drop o c)
    | None => (r, c)
    end.

  (* gc_object_error *)
  Fixpoint gc_error (fuel : nat) (r : recv) (c : ctx) : recv * ctx :=
    match fuel with
    | O => (r, c)
    | S f =>
      if cf_max_err cfg <? N.of_nat (length (rv_error r)) then
        match rv_error r with
        | [] => (r, c)
        | toi :: rest =>
          let r1 := mk_recv (rv_objects r) (rv_completed r) rest (rv_fdt_receivers r) (rv_fdt_current r) (rv_closed r) in
          let (r2, c2) := remove_obj toi r1 c in
          gc_error f r2 c2
        end
      else (r, c)
    end.

  (* check_object_state *)
  Definition check_state (toi : N) (r : recv) (c : ctx) : recv * ctx :=
    match get_obj r toi with
    | None => (r, c)
    | Some o =>
      match r_state o with
      | Receiving => (r, c)
      | Completed =>
        let comp := if r_nocache o then rv_completed r
                    else if existsb (N.eqb toi) (rv_completed r) then rv_completed r else rv_completed r ++ [toi] in
        remove_obj toi (mk_recv (rv_objects r) comp (rv_error r) (rv_fdt_receivers r) (rv_fdt_current r) (rv_closed r)) c
      | Interrupted | Errored =>
        let r1 := mk_recv (rv_objects r) (rv_completed r) (insert_sorted toi (rv_error r)) (rv_fdt_receivers r)
                          (rv_fdt_current r) (rv_closed r) in
        let (r2, c2) := gc_error (S (length (rv_error r1))) r1 c in
        remove_obj toi r2 c2
      end
    end.

  (* attach_latest_fdt_to_objects *)
  Fixpoint attach_all (id : N) (i : fdtinst) (tois : list N) (r : recv) (c : ctx) (attached : list N)
    : recv * ctx * list N :=
    match tois with
    | [] => (r, c, attached)
    | toi :: rest =>
      match get_obj r toi with
      | None => attach_all id i rest r c attached
      | Some o =>
        let '(ok, o1, c1) := or_attach E id (fi_files i) (fi_oti i) o c in
        attach_all id i rest (set_objects r (put_obj toi o1 (rv_objects r))) c1
                   (if ok then attached ++ [toi] else attached)
      end
    end.

  Fixpoint check_all (tois : list N) (r : recv) (c : ctx) : recv * ctx :=
    match tois with
    | [] => (r, c)
    | t :: rest => let (r1, c1) := check_state t r c in check_all rest r1 c1
    end.

  Inductive pres := POk | PErr.

  Definition push_fdt_obj (p : apkt) (now : Z) (r : recv) (c : ctx) : pres * recv * ctx :=
    match a_fdt_id p with
    | None => if a_close_obj p || a_close_sess p then (POk, r, c) else (PErr, r, c)
    | Some id =>
      if cf_once cfg && existsb (fun f => fr_id f =? id) (rv_fdt_current r) then (POk, r, c)
      else
        let f0 := match find (fun q => fst q =? id) (rv_fdt_receivers r) with
                  | Some q => snd q
                  | None => fr_new id
                  end in
        let store (f : fdtrecv) (r : recv) : recv :=
          mk_recv (rv_objects r) (rv_completed r) (rv_error r)
                  (if existsb (fun q => fst q =? id) (rv_fdt_receivers r)
                   then map (fun q => if fst q =? id then (id, f) else q) (rv_fdt_receivers r)
                   else rv_fdt_receivers r ++ [(id, f)])
                  (rv_fdt_current r) (rv_closed r) in
        match fr_state f0 with
        | FReceiving =>
          let (f1, pan) := fr_push p now f0 in
          let c0 := if pan then panicc c else c in
          let f2 := match fr_state f1 with FComplete => fr_update_expired f1 now | _ => f1 end in
          match fr_state f2 with
          | FReceiving => (POk, store f2 r, c0)
          | FError =>
            (* the failed instance is forgotten: a later copy of it can be received (D41) *)
            (PErr, mk_recv (rv_objects r) (rv_completed r) (rv_error r)
                           (filter (fun q => negb (fst q =? id)) (rv_fdt_receivers r))
                           (rv_fdt_current r) (rv_closed r), c0)
          | FExpired => (POk, store f2 r, c0)
          | FComplete =>
            (* the instance becomes the current one *)
            let r1 := mk_recv (rv_objects r) (rv_completed r) (rv_error r)
                              (filter (fun q => negb (fst q =? id)) (rv_fdt_receivers r))
                              (f2 :: rv_fdt_current r) (rv_closed r) in
            match fr_inst f2 with
            | None => (POk, mk_recv (rv_objects r1) (rv_completed r1) (rv_error r1) (rv_fdt_receivers r1)
                                    (firstn 10 (rv_fdt_current r1)) (rv_closed r1), c0)
            | Some i =>
              let '(r2, c2, attached) := attach_all id i (map fst (rv_objects r1)) r1 c0 [] in
              let (r3, c3) := check_all attached r2 c2 in
              (* gc_object_completed: keep only the TOIs listed by this instance *)
              let comp := match fi_files i with
                          | [] => rv_completed r3      (* instance.file is None: nothing is collected *)
                          | _ => filter (fun t => existsb (fun f => ff_toi f =? t) (fi_files i)) (rv_completed r3)
                          end in
              let cur := firstn 10 (rv_fdt_current r3) in
              (POk, mk_recv (rv_objects r3) comp (rv_error r3) (rv_fdt_receivers r3) cur (rv_closed r3), c3)
            end
          end
        | _ => (POk, r, c)
        end
    end.

  (* create_obj: attach the first complete, unexpired instance of fdt_current that lists the TOI *)
  Fixpoint create_attach (cur : list fdtrecv) (now : Z) (o : objrecv) (c : ctx) : list fdtrecv * objrecv * ctx :=
    match cur with
    | [] => ([], o, c)
    | f :: rest =>
      let f1 := fr_update_expired f now in
      match fr_state f1, fr_inst f1 with
      | FComplete, Some i =>
        let '(ok, o1, c1) := or_attach E (fr_id f1) (fi_files i) (fi_oti i) o c in
        if ok then (f1 :: rest, o1, c1)
        else let '(rest', o2, c2) := create_attach rest now o1 c1 in (f1 :: rest', o2, c2)
      | _, _ => let '(rest', o2, c2) := create_attach rest now o c in (f1 :: rest', o2, c2)
      end
    end.

  Definition is_first_symbol (p : apkt) : option bool :=
    match a_pid_inline p with
    | Some (sbn, esi) => Some ((sbn =? 0) && (esi =? 0))
    | None => None
    end.

  Definition push_obj (p : apkt) (now : Z) (r : recv) (c : ctx) : pres * recv * ctx :=
    let toi := a_toi p in
    let step1 : option (option recv) :=      (* None = Err; Some None = Ok (ignored); Some (Some r) = go on *)
      if existsb (N.eqb toi) (rv_completed r) then
        if cf_once cfg then Some None
        else match is_first_symbol p with
             | None => None
             | Some true => Some (Some (mk_recv (rv_objects r) (filter (fun t => negb (t =? toi)) (rv_completed r))
                                                (rv_error r) (rv_fdt_receivers r) (rv_fdt_current r) (rv_closed r)))
             | Some false => Some None
             end
      else Some (Some r) in
    match step1 with
    | None => (PErr, r, c)
    | Some None => (POk, r, c)
    | Some (Some r1) =>
      let step2 : option (option recv) :=
        if existsb (N.eqb toi) (rv_error r1) then
          match is_first_symbol p with
          | None => None
          | Some true => Some (Some (mk_recv (rv_objects r1) (rv_completed r1) (filter (fun t => negb (t =? toi)) (rv_error r1))
                                             (rv_fdt_receivers r1) (rv_fdt_current r1) (rv_closed r1)))
          | Some false => Some None
          end
        else Some (Some r1) in
      match step2 with
      | None => (PErr, r1, c)
      | Some None => (POk, r1, c)
      | Some (Some r2) =>
        let '(r3, o, c3) :=
          match get_obj r2 toi with
          | Some o => (r2, o, c)
          | None =>
            let '(cur, o1, c1) := create_attach (rv_fdt_current r2) now (or_new toi (cf_max_cache cfg)) c in
            (mk_recv (rv_objects r2 ++ [(toi, o1)]) (rv_completed r2) (rv_error r2) (rv_fdt_receivers r2) cur (rv_closed r2),
             o1, c1)
          end in
        let (o2, c4) := or_push E p o c3 in
        let r4 := set_objects r3 (put_obj toi o2 (rv_objects r3)) in
        let (r5, c5) := check_state toi r4 c4 in
        (POk, r5, c5)
      end
    end.

  Inductive rev :=
  | RvPush (p : apkt) (now : Z)
  | RvUnparsable                      (* parse_alc_pkt failed or TSI differs: no effect *)
  | RvCleanup (now : Z) (expired : list N) (expired_fdt : list N)  (* wall-clock time-outs: objects, unfinished FDT instances *)
  | RvDrop.

  Definition recv_step (r : recv) (e : rev) (c : ctx) : pres * recv * ctx :=
    match e with
    | RvUnparsable => (PErr, r, c)
    | RvPush p now =>
      let r0 := if a_close_sess p
                then mk_recv (rv_objects r) (rv_completed r) (rv_error r) (rv_fdt_receivers r) (rv_fdt_current r) true
                else r in
      if a_toi p =? 0 then push_fdt_obj p now r0 c else push_obj p now r0 c
    | RvCleanup now expired expired_fdt =>
      let step (acc : recv * ctx) (toi : N) : recv * ctx :=
        let (r1, c1) := acc in
        remove_obj toi (mk_recv (rv_objects r1) (rv_completed r1) (filter (fun t => negb (t =? toi)) (rv_error r1))
                                (rv_fdt_receivers r1) (rv_fdt_current r1) (rv_closed r1)) c1 in
      (* only objects still in the map can time out *)
      let expired := filter (fun t => existsb (fun q => fst q =? t) (rv_objects r)) expired in
      let (r1, c1) := fold_left step expired (r, c) in
      let frs := filter (fun q => match fr_state (snd q) with
                                  | FComplete => true
                                  | FReceiving => negb (existsb (N.eqb (fst q)) expired_fdt)
                                  | _ => false end)
                        (map (fun q => (fst q, fr_update_expired (snd q) now)) (rv_fdt_receivers r1)) in
      (POk, mk_recv (rv_objects r1) (rv_completed r1) (rv_error r1) frs (rv_fdt_current r1) (rv_closed r1), c1)
    | RvDrop =>
      let c1 := fold_left (fun cc q => or_drop (snd q) cc) (rv_objects r) c in
      (POk, set_objects r [], c1)
    end.

  Fixpoint recv_run (r : recv) (evs : list rev) (c : ctx) : list pres * recv * ctx :=
    match evs with
    | [] => ([], r, c)
    | e :: rest =>
      let '(x, r1, c1) := recv_step r e c in
      let '(xs, r2, c2) := recv_run r1 rest c1 in
      (x :: xs, r2, c2)
    end.
End WithEnv.
