(* Model of /repo/src/common/partition.rs (block_partitioning, block_length),
   of the receiver's reconstruction of B from RaptorQ/Raptor scheme information
   (common/alccodec/alcraptorq.rs, alcraptor.rs) and of the sender's running slices
   (sender/blockencoder.rs read_block_buffer).  Definitions only; proofs are in
   Proofs/PartitionProofs.v. *)
From Coq Require Export List NArith Lia Bool.
Export ListNotations.
Open Scope bool_scope.
Open Scope N_scope.

(* num_integer::div_ceil / div_floor on unsigned integers *)
Definition div_ceil (a b : N) : N := if a mod b =? 0 then a / b else a / b + 1.
Definition div_floor (a b : N) : N := a / b.

(* partition.rs:25-50, over unbounded naturals *)
Definition block_partitioning (b l e : N) : N * N * N * N :=
  if b =? 0 then (0, 0, 0, 0)
  else if e =? 0 then (0, 0, 0, 0)
  else
    let t := div_ceil l e in
    let n := div_ceil t b in
    if n =? 0 then (0, 0, 0, 0)
    else (div_ceil t n, div_floor t n, t - div_floor t n * n, n).

(* partition.rs:66-94, over unbounded naturals with truncated subtraction made explicit:
   [None] is the Rust subtraction underflow (panic in a debug build, wrap in release). *)
Definition csub (a b : N) : option N := if b <=? a then Some (a - b) else None.

Definition block_length (al as_ nal l e sbn : N) : option N :=
  let large := al * e in
  let small := as_ * e in
  if sbn + 1 <? nal then Some large
  else if sbn + 1 =? nal then
    if nal * large <=? l then Some large
    else csub l ((nal - 1) * large)
  else
    match csub l (nal * large) with
    | None => None
    | Some l' =>
      let s := sbn - nal in
      if (s + 1) * small <=? l' then Some small
      else csub l' (s * small)
    end.

(* The same two functions with u64 arithmetic: every +, *, - is checked; [None] = overflow *)
Definition U64 : N := 18446744073709551616.
Definition cadd64 (a b : N) : option N := if a + b <? U64 then Some (a + b) else None.
Definition cmul64 (a b : N) : option N := if a * b <? U64 then Some (a * b) else None.
Definition obind {A B} (o : option A) (f : A -> option B) : option B :=
  match o with Some x => f x | None => None end.
Notation "x <- o ;; k" := (obind o (fun x => k)) (at level 61, o at next level, right associativity).

Definition div_ceil64 (a b : N) : option N :=
  if a mod b =? 0 then Some (a / b) else cadd64 (a / b) 1.

Definition block_partitioning64 (b l e : N) : option (N * N * N * N) :=
  if b =? 0 then Some (0, 0, 0, 0)
  else if e =? 0 then Some (0, 0, 0, 0)
  else
    t <- div_ceil64 l e ;;
    n <- div_ceil64 t b ;;
    if n =? 0 then Some (0, 0, 0, 0)
    else
      al <- div_ceil64 t n ;;
      let as_ := t / n in
      p <- cmul64 as_ n ;;
      nal <- csub t p ;;
      Some (al, as_, nal, n).

Definition block_length64 (al as_ nal l e sbn : N) : option N :=
  large <- cmul64 al e ;;
  small <- cmul64 as_ e ;;
  s1 <- cadd64 sbn 1 ;;
  if s1 <? nal then Some large
  else if s1 =? nal then
    ls <- cmul64 nal large ;;
    if ls <=? l then Some large
    else
      n1 <- csub nal 1 ;;
      p <- cmul64 n1 large ;;
      csub l p
  else
    p <- cmul64 nal large ;;
    l' <- csub l p ;;
    s <- csub sbn nal ;;
    s1' <- cadd64 s 1 ;;
    ss <- cmul64 s1' small ;;
    if ss <=? l' then Some small
    else
      q <- cmul64 s small ;;
      csub l' q.

(* Receiver side, alcraptorq.rs:97-98 / alcraptor.rs:89-90: B rebuilt from Z (= number of
   source blocks written by the sender), L and E. *)
Definition reconstructed_b (z l e : N) : N := div_ceil (div_ceil l z) e.

(* Sender side, blockencoder.rs read_block_buffer: the running [offset, end) slices of the
   content, one per block, until the end of the content is reached ([fuel] = number of blocks). *)
Fixpoint sender_slices (fuel : nat) (al as_ nal e len : N) (sbn off : N) : list N :=
  match fuel with
  | O => []
  | S f =>
    let bl := if sbn <? nal then al else as_ in
    let e0 := off + bl * e in
    let e1 := if len <? e0 then len else e0 in
    (e1 - off) :: (if e1 =? len then [] else sender_slices f al as_ nal e len (sbn + 1) e1)
  end.

(* Receiver side: block lengths for sbn = 0 .. n-1 *)
Fixpoint receiver_lengths (n : nat) (al as_ nal l e : N) (sbn : N) : list (option N) :=
  match n with
  | O => []
  | S n' => block_length al as_ nal l e sbn :: receiver_lengths n' al as_ nal l e (sbn + 1)
  end.
