(* Model of the receiver's object plane:
     /repo/src/receiver/objectreceiver.rs, blockdecoder.rs, blockwriter.rs, fec/nocode.rs and the
     control part of fec/rscodec.rs.
   Packets are already parsed (the parser is the subject of Model/Lct.v / Alc.v, C06 and C04).
   Oracles (function arguments): FEC reconstruction, MD5, inflate, the writer builder and the
   writers' open/write results.  Panics of the Rust code are the explicit outcome [panicked].
   Definitions only. *)
From Coq Require Export List NArith ZArith Lia Bool.
From FluteV Require Export Model.Partition.
Export ListNotations.
Open Scope bool_scope.
Open Scope N_scope.

Inductive rfec := FNoCode | FRS28 | FRS28US | FRS2M | FRaptorQ | FRaptor.
Inductive cenc := CNull | CZlib | CDeflate | CGzip.

Record roti := mk_roti {
  ro_fec : rfec; ro_e : N; ro_b : N; ro_parity : N;
  ro_scheme : option (N * N * N)     (* RaptorQ/Raptor: (Z, N, Al) *)
}.

(* a parsed ALC packet, as objectreceiver.rs sees it *)
Record apkt := mk_apkt {
  a_toi : N;
  a_close_obj : bool;
  a_close_sess : bool;
  a_fdt_id : option N;               (* EXT_FDT *)
  a_oti : option (roti * N);         (* EXT_FTI: OTI and transfer length *)
  a_cenc : option cenc;              (* EXT_CENC *)
  a_sct : option Z;                  (* EXT_TIME sender current time, ns *)
  a_cp : N;                          (* LCT codepoint (= FEC encoding id of the packet) *)
  a_pidbytes : list N;               (* the FEC payload id bytes (4, or 8 for codepoint 129) *)
  a_payload : list N;
  a_datalen : N                      (* pkt.data.len() *)
}.

(* FEC payload id: every scheme's get_fec_payload_id re-reads the packet's payload-id bytes with
   its own layout and fails when their number does not match (alccodec/*.rs) *)
Definition be_val (l : list N) : N := fold_left (fun acc b => acc * 256 + b) l 0.
Definition parse_pid (f : rfec) (bytes : list N) : option (N * N * option N) :=
  match f with
  | FNoCode | FRaptor =>
    if Nat.eqb (length bytes) 4 then let v := be_val bytes in Some (v / 65536, v mod 65536, None) else None
  | FRS28 =>
    if Nat.eqb (length bytes) 4 then let v := be_val bytes in Some (v / 256, v mod 256, None) else None
  | FRaptorQ =>
    if Nat.eqb (length bytes) 4 then let v := be_val bytes in Some (v / 16777216, v mod 16777216, None) else None
  | FRS28US =>
    if Nat.eqb (length bytes) 8 then
      let v := be_val bytes in Some (v / 4294967296, v mod 65536, Some ((v / 65536) mod 65536)) else None
  | FRS2M => None
  end.
Definition fec_of_cp (cp : N) : option rfec :=
  if cp =? 0 then Some FNoCode else if cp =? 1 then Some FRaptor else if cp =? 2 then Some FRS2M
  else if cp =? 5 then Some FRS28 else if cp =? 6 then Some FRaptorQ else if cp =? 129 then Some FRS28US else None.
Definition a_pid_with (oti_fec : rfec) (p : apkt) : option (N * N * option N) := parse_pid oti_fec (a_pidbytes p).
Definition a_pid_inline (p : apkt) : option (N * N) :=
  match fec_of_cp (a_cp p) with
  | Some f => match parse_pid f (a_pidbytes p) with Some (sbn, esi, _) => Some (sbn, esi) | None => None end
  | None => None
  end.

(* ---------- block decoder ---------- *)
Record bdec := mk_bdec {
  bd_completed : bool; bd_init : bool; bd_size : N; bd_k : N;
  bd_shards : list (N * list N);     (* (esi, symbol), first copy wins *)
  bd_data : option (list N);
  bd_alloc : bool                    (* decoder present (not deallocated) *)
}.
Definition bdec_new : bdec := mk_bdec false false 0 0 [] None false.

Definition has_esi (esi : N) (sh : list (N * list N)) : bool := existsb (fun p => fst p =? esi) sh.
Definition get_esi (esi : N) (sh : list (N * list N)) : option (list N) :=
  match find (fun p => fst p =? esi) sh with Some p => Some (snd p) | None => None end.

Fixpoint concat_src (n : nat) (i : N) (sh : list (N * list N)) : option (list N) :=
  match n with
  | O => Some []
  | S n' => match get_esi i sh, concat_src n' (i + 1) sh with
            | Some d, Some r => Some (d ++ r)
            | _, _ => None
            end
  end.

Definition count_lt (bound : N) (sh : list (N * list N)) : N :=
  N.of_nat (length (filter (fun p => fst p <? bound) sh)).

Definition is_some_b {A} (x : option A) : bool := match x with Some _ => true | None => false end.
Definition lenN_ {A} (l : list A) : N := N.of_nat (length l).
Fixpoint eqb_bytes (x y : list N) : bool :=
  match x, y with
  | [], [] => true
  | p :: x', q :: y' => (p =? q) && eqb_bytes x' y'
  | _, _ => false
  end.

Definition rs_ok (k parity : N) : bool := (0 <? k) && (0 <? parity) && (k + parity <=? 256).

Inductive wans := WStore | WAlready | WAbort.        (* ObjectWriterBuilderResult *)
(* a writer is identified by its object's TOI and the number of writers the builder had already
   created for that TOI (hash-map iteration order in the receiver must not matter) *)
Definition wid := (N * nat)%type.
Definition wid_eqb (a b : wid) : bool := (fst a =? fst b) && Nat.eqb (snd a) (snd b).
Inductive wev :=
| EvBuilder (toi : N) (ans : wans)
| EvOpen (w : wid) (ok : bool)
| EvWrite (w : wid) (data : list N) (ok : bool)
| EvComplete (w : wid) | EvError (w : wid) | EvInterrupted (w : wid).

Inductive ostate := Receiving | Completed | Interrupted | Errored.
Inductive wstate := WIdle | WClosed | WOpened | WErr.

Record bwriter := mk_bw {
  bw_sbn : N; bw_left : N; bw_clen_left : option N; bw_cenc : cenc;
  bw_inited : bool;                 (* inflate decoder created *)
  bw_dead : bool;                   (* its ring buffer was sized from an empty first block: it accepts nothing *)
  bw_acc : list N;                  (* transfer bytes handed to the block writer so far *)
  bw_md5ctx : bool; bw_md5 : option (list N)
}.

Record objrecv := mk_or {
  r_state : ostate; r_toi : N;
  r_oti : option roti;
  r_cache : list apkt; r_cache_size : N; r_max : N;
  r_blocks : list bdec; r_off : N;
  r_tlen : option N; r_cenc : option cenc; r_md5 : option (list N); r_md5chk : bool;
  r_al : N; r_as : N; r_nal : N;
  r_writer : option (wid * wstate);  (* writer id, session state *)
  r_bw : option bwriter;
  r_fdt_id : option N;
  r_nb_alloc : N; r_alloc_size : N;
  r_clen : option N;
  r_nocache : bool                   (* cache_control == Some(NoCache) *)
}.

Definition or_new (toi max : N) : objrecv :=
  mk_or Receiving toi None [] 0 max [] 0 None None None false 0 0 0 None None None 0 0 None false.

(* what one file entry of an FDT instance says about an object (FdtInstance::get_file + accessors) *)
Record fdtfile := mk_ff {
  ff_toi : N; ff_cenc : cenc; ff_oti : option roti; ff_tlen : N; ff_md5 : option (list N);
  ff_clen : option N; ff_nocache : bool }.

Record env := mk_env {
  e_debug : bool;                                    (* debug_assert! active *)
  e_md5_enabled : bool;                              (* ObjectWriter::enable_md5_check *)
  e_builder : N -> nat -> wans;                      (* toi, number of builder calls for this TOI so far *)
  e_open_ok : wid -> bool;                           (* writer id *)
  e_write_ok : wid -> nat -> bool;                   (* writer id, write call index *)
  e_fec : N -> rfec -> N -> N -> N -> N -> list (N * list N) -> option (list N);  (* toi fec sbn k e size shards *)
  e_md5 : list N -> list N;                          (* base64(md5(bytes)) *)
  e_inflate : cenc -> list N -> bool -> option (list N)  (* all transfer bytes so far, finished -> decoded so far; None = error *)
}.

(* mutable context threaded through a step: next writer id, per-writer write counts, log, panic *)
Record ctx := mk_ctx { c_next : list (N * nat); c_wcount : list (wid * nat); c_log : list wev; c_panic : bool }.
Definition ctx0 : ctx := mk_ctx [] [] [] false.
(* builder calls made so far for a TOI *)
Definition ncalls (c : ctx) (toi : N) : nat :=
  match find (fun p => fst p =? toi) (c_next c) with Some p => snd p | None => O end.
Definition inc_calls (c : ctx) (toi : N) : ctx :=
  mk_ctx ((toi, S (ncalls c toi)) :: filter (fun p => negb (fst p =? toi)) (c_next c)) (c_wcount c) (c_log c) (c_panic c).
Definition logc (c : ctx) (e : wev) : ctx := mk_ctx (c_next c) (c_wcount c) (c_log c ++ [e]) (c_panic c).
Definition panicc (c : ctx) : ctx := mk_ctx (c_next c) (c_wcount c) (c_log c) true.
Definition wcount (c : ctx) (w : wid) : nat :=
  match find (fun p => wid_eqb (fst p) w) (c_wcount c) with Some p => snd p | None => O end.
Definition inc_wcount (c : ctx) (w : wid) : ctx :=
  mk_ctx (c_next c) ((w, S (wcount c w)) :: filter (fun p => negb (wid_eqb (fst p) w)) (c_wcount c)) (c_log c) (c_panic c).

Section WithEnv.
  Variable E : env.

  (* ---------- setters ---------- *)
  Definition set_state (o : objrecv) (s : ostate) : objrecv :=
    mk_or s (r_toi o) (r_oti o) (r_cache o) (r_cache_size o) (r_max o) (r_blocks o) (r_off o) (r_tlen o) (r_cenc o)
          (r_md5 o) (r_md5chk o) (r_al o) (r_as o) (r_nal o) (r_writer o) (r_bw o) (r_fdt_id o) (r_nb_alloc o)
          (r_alloc_size o) (r_clen o) (r_nocache o).
  Definition set_wstate (o : objrecv) (ws : wstate) : objrecv :=
    mk_or (r_state o) (r_toi o) (r_oti o) (r_cache o) (r_cache_size o) (r_max o) (r_blocks o) (r_off o) (r_tlen o) (r_cenc o)
          (r_md5 o) (r_md5chk o) (r_al o) (r_as o) (r_nal o)
          (match r_writer o with Some (w, _) => Some (w, ws) | None => None end)
          (r_bw o) (r_fdt_id o) (r_nb_alloc o) (r_alloc_size o) (r_clen o) (r_nocache o).
  Definition clear_bufs (o : objrecv) : objrecv :=
    mk_or (r_state o) (r_toi o) (r_oti o) [] 0 (r_max o) [] (r_off o) (r_tlen o) (r_cenc o)
          (r_md5 o) (r_md5chk o) (r_al o) (r_as o) (r_nal o) (r_writer o) (r_bw o) (r_fdt_id o) (r_nb_alloc o)
          (r_alloc_size o) (r_clen o) (r_nocache o).
  Definition set_blocks (o : objrecv) (bl : list bdec) (off nb sz : N) (bw : option bwriter) : objrecv :=
    mk_or (r_state o) (r_toi o) (r_oti o) (r_cache o) (r_cache_size o) (r_max o) bl off (r_tlen o) (r_cenc o)
          (r_md5 o) (r_md5chk o) (r_al o) (r_as o) (r_nal o) (r_writer o) bw (r_fdt_id o) nb sz (r_clen o) (r_nocache o).

  (* ObjectReceiver::complete / error *)
  Definition complete (o : objrecv) (c : ctx) : objrecv * ctx :=
    let o1 := clear_bufs (set_wstate (set_state o Completed) WClosed) in
    match r_writer o with
    | Some (w, _) => (o1, logc c (EvComplete w))
    | None => (o1, c)
    end.
  Definition error (o : objrecv) (interrupted : bool) (c : ctx) : objrecv * ctx :=
    let o1 := clear_bufs (set_wstate (set_state o (if interrupted then Interrupted else Errored)) WErr) in
    match r_writer o with
    | Some (w, _) => (o1, logc c (if interrupted then EvInterrupted w else EvError w))
    | None => (o1, c)
    end.

  (* ---------- BlockDecoder ---------- *)
  Definition RAPTORQ_KMAX : N := 56403.    (* K'_max of RFC 6330, fec/raptorq.rs *)
  Definition RAPTOR_KMAX : N := 8192.      (* K_max of RFC 5053, fec/raptor.rs *)
  (* fec/raptor.rs (fixes/D10): size of the largest source symbol of a Raptor block; shorter symbols
     are handed to the decoder padded with zeros up to it *)
  Definition raptor_symbol_size (size k : N) : N := div_ceil size (N.max k 1).
  Definition pad_to (t : N) (payload : list N) : list N :=
    payload ++ repeat 0 (N.to_nat (t - lenN_ payload)).
  (* BlockDecoder::init: Some = Ok, None = Err *)
  Definition bd_init_block (oti : roti) (k size : N) (b : bdec) : option bdec :=
    if bd_init b then Some b
    else
      match ro_fec oti with
      | FNoCode => Some (mk_bdec (bd_completed b) true size k [] None true)
      | FRS28 | FRS28US => if rs_ok k (ro_parity oti) then Some (mk_bdec (bd_completed b) true size k [] None true) else None
      | FRS2M => None          (* fixes/D33: "decoder is not implemented" is an error, the block gets no decoder *)
      | FRaptorQ =>
        (* fixes/D28: RaptorQDecoder::new refuses parameters outside the raptorq crate's range *)
        match ro_scheme oti with
        | Some (_, n, al) =>
          if (ro_e oti =? 0) || (al =? 0) || negb (ro_e oti mod al =? 0) || (n =? 0) || (k =? 0) || (RAPTORQ_KMAX <? k)
          then None
          else Some (mk_bdec (bd_completed b) true size k [] None true)
        | None => None
        end
      | FRaptor =>
        (* fixes/D34: RaptorDecoder::new refuses a block outside the raptor_code crate's range *)
        match ro_scheme oti with
        | Some _ => if (k =? 0) || (RAPTOR_KMAX <? k) then None
                    else Some (mk_bdec (bd_completed b) true size k [] None true)
        | None => None
        end
      end.

  (* BlockDecoder::push; second component: panic (debug_assert!(decoder.is_some())) *)
  Definition bd_push (toi : N) (oti : roti) (sbn esi : N) (payload : list N) (b : bdec) : bdec * bool :=
    if bd_completed b then (b, false)
    else if negb (bd_alloc b) then (b, e_debug E)
    else if ro_e oti <? lenN_ payload then (b, false)   (* D47: a symbol longer than the encoding symbol length is discarded *)
    else
      let k := bd_k b in
      let accept :=
        match ro_fec oti with
        | FNoCode => esi <? k
        | FRS28 | FRS28US => esi <? k + ro_parity oti
        | FRaptorQ => lenN_ payload =? ro_e oti      (* fixes/D10: any other size is discarded *)
        | _ => true
        end in
      let payload :=
        match ro_fec oti with
        | FRaptor => pad_to (raptor_symbol_size (bd_size b) k) payload   (* fixes/D10 *)
        | _ => payload
        end in
      let already_done := match ro_fec oti, bd_data b with
                          | (FRS28 | FRS28US | FRaptorQ | FRaptor), Some _ => true
                          | _, _ => false
                          end in
      let sh := if accept && negb (has_esi esi (bd_shards b)) && negb already_done
                then bd_shards b ++ [(esi, payload)] else bd_shards b in
      let data :=
        match bd_data b with
        | Some d => Some d
        | None =>
          match ro_fec oti with
          | FNoCode => if count_lt k sh =? k then concat_src (N.to_nat k) 0 sh else None
          | FRS28 | FRS28US =>
            if k <=? N.of_nat (length sh) then
              (if count_lt k sh =? k then concat_src (N.to_nat k) 0 sh
               else e_fec E toi (ro_fec oti) sbn k (ro_e oti) (bd_size b) sh)
            else None
          | _ => e_fec E toi (ro_fec oti) sbn k (ro_e oti) (bd_size b) sh
          end
        end in
      (mk_bdec (is_some_b data) true (bd_size b) k sh data true, false).

  (* ---------- BlockWriter ---------- *)
  Definition bw_new (tlen : N) (clen : option N) (ce : cenc) (md5 : bool) : bwriter :=
    mk_bw 0 tlen clen ce false false [] md5 None.

  (* writer.write(): logs the call, consults the oracle; false = Err *)
  Definition do_write (w : wid) (data : list N) (c : ctx) : bool * ctx :=
    let ok := e_write_ok E w (wcount c w) in
    (ok, inc_wcount (logc c (EvWrite w data ok)) w).

  Inductive bwres := BwNotMine | BwOk (b : bwriter) | BwErr | BwPanic.

  (* BlockWriter::write for cenc = Null is concrete; for a content encoding the decoded output so
     far is an oracle of the accumulated transfer bytes, written as one call with the new suffix *)
  Definition bw_write (w : wid) (sbn : N) (b : bdec) (bw : bwriter) (c : ctx) : bwres * ctx :=
    if negb (bw_sbn bw =? sbn) then (BwNotMine, c)
    else
      match bd_data b with
      | None => (BwErr, c)                       (* block.source_block()? *)
      | Some data0 =>
        let data := if lenN_ data0 <? bw_left bw then data0 else firstn (N.to_nat (bw_left bw)) data0 in
        let acc := bw_acc bw ++ data in
        let left := bw_left bw - lenN_ data in
        let finished := left =? 0 in
        match bw_cenc bw with
        | CNull =>
          let (ok, c1) := do_write w data c in
          if ok then
            (BwOk (mk_bw (bw_sbn bw + 1) left (bw_clen_left bw) CNull false false acc (bw_md5ctx bw && negb finished)
                         (if finished && bw_md5ctx bw then Some (e_md5 E acc) else bw_md5 bw)), c1)
          else (BwErr, c1)
        | ce =>
          (* a ring buffer sized from an empty first block accepts nothing: the next non-empty block
             stalls and is reported as an error *)
          if bw_dead bw && negb (lenN_ data =? 0) then (BwErr, c)
          else
          let dead := bw_dead bw || (negb (bw_inited bw) && (lenN_ data =? 0)) in
            match e_inflate E ce (bw_acc bw) false, e_inflate E ce acc finished with
            | Some before, Some after =>
              let fresh := skipn (length before) after in
              let (ok, c1) := match fresh with [] => (true, c) | _ => do_write w fresh c end in
              if ok then
                (BwOk (mk_bw (bw_sbn bw + 1) left (bw_clen_left bw) ce true dead acc (bw_md5ctx bw && negb finished)
                             (if finished && bw_md5ctx bw then Some (e_md5 E after) else bw_md5 bw)), c1)
              else (BwErr, c1)
            | _, _ => (BwErr, c)
            end
        end
      end.

  (* ---------- ObjectReceiver ---------- *)
  Definition nb_block (o : objrecv) : N := r_off o + N.of_nat (length (r_blocks o)).

  (* init_blocks_partitioning *)
  Definition init_partition (o : objrecv) : objrecv :=
    if 0 <? nb_block o then o
    else
      match r_oti o, r_tlen o with
      | Some oti, Some tl =>
        let '(al, as_, nal, n) := block_partitioning (ro_b oti) tl (ro_e oti) in
        mk_or (r_state o) (r_toi o) (r_oti o) (r_cache o) (r_cache_size o) (r_max o)
              (repeat bdec_new (N.to_nat (N.min n 2048))) (r_off o) (r_tlen o) (r_cenc o)
              (r_md5 o) (r_md5chk o) al as_ nal (r_writer o) (r_bw o) (r_fdt_id o) (r_nb_alloc o)
              (r_alloc_size o) (r_clen o) (r_nocache o)
      | _, _ => o
      end.

  (* init_object_writer *)
  Definition init_writer (o : objrecv) (c : ctx) : objrecv * ctx :=
    match r_writer o with
    | Some _ => (o, c)
    | None =>
      match r_fdt_id o, r_cenc o, r_tlen o, r_oti o with
      | Some _, Some ce, Some tl, Some _ =>
        let n := ncalls c (r_toi o) in
        let ans := e_builder E (r_toi o) n in
        let c1 := inc_calls (logc c (EvBuilder (r_toi o) ans)) (r_toi o) in
        match ans with
        | WAlready => (set_state o Completed, c1)
        | WAbort => (set_state o Errored, c1)
        | WStore =>
          let w : wid := (r_toi o, n) in
          let c2 := c1 in
          let md5chk := match r_md5 o with Some _ => e_md5_enabled E | None => r_md5chk o end in
          let o1 := mk_or (r_state o) (r_toi o) (r_oti o) (r_cache o) (r_cache_size o) (r_max o) (r_blocks o) (r_off o)
                          (r_tlen o) (r_cenc o) (r_md5 o) md5chk (r_al o) (r_as o) (r_nal o) (Some (w, WIdle))
                          (r_bw o) (r_fdt_id o) (r_nb_alloc o) (r_alloc_size o) (r_clen o) (r_nocache o) in
          let ok := e_open_ok E w in
          let c3 := logc c2 (EvOpen w ok) in
          if negb ok then error o1 false c3
          else
            let bw := if tl =? 0 then None else Some (bw_new tl (r_clen o) ce md5chk) in
            (mk_or (r_state o1) (r_toi o1) (r_oti o1) (r_cache o1) (r_cache_size o1) (r_max o1) (r_blocks o1) (r_off o1)
                   (r_tlen o1) (r_cenc o1) (r_md5 o1) md5chk (r_al o1) (r_as o1) (r_nal o1) (Some (w, WOpened))
                   bw (r_fdt_id o1) (r_nb_alloc o1) (r_alloc_size o1) (r_clen o1) (r_nocache o1), c3)
        end
      | _, _, _, _ => (o, c)
      end
    end.

  Fixpoint upd_nthb (i : nat) (f : bdec -> bdec) (l : list bdec) : list bdec :=
    match l, i with
    | [], _ => []
    | x :: r, O => f x :: r
    | x :: r, S j => x :: upd_nthb j f r
    end.

  Inductive res := ROk (o : objrecv) | RErr (o : objrecv).

  (* write_blocks: flush completed blocks in SBN order starting at sbn *)
  Fixpoint write_blocks (fuel : nat) (sbn : N) (o : objrecv) (c : ctx) : res * ctx :=
    match fuel with
    | O => (ROk o, c)
    | S f =>
      match r_writer o, r_bw o with
      | Some (w, WOpened), Some bw =>
        if (r_off o <=? sbn) && (sbn - r_off o <? N.of_nat (length (r_blocks o))) then
          let idx := N.to_nat (sbn - r_off o) in
          let b := nth idx (r_blocks o) bdec_new in
          if negb (bd_completed b) then (ROk o, c)
          else
            match bw_write w sbn b bw c with
            | (BwNotMine, c1) => (ROk o, c1)
            | (BwErr, c1) => (RErr o, c1)
            | (BwPanic, c1) => (RErr o, panicc c1)
            | (BwOk bw', c1) =>
              let sz := r_alloc_size o - bd_size b in
              let nb := r_nb_alloc o - 1 in
              let (bl, off) := if Nat.eqb idx 0 then (tl (r_blocks o), r_off o + 1)
                               else (upd_nthb idx (fun x => mk_bdec (bd_completed x) (bd_init x) 0 (bd_k x) [] None false) (r_blocks o), r_off o) in
              let o1 := set_blocks o bl off nb sz (Some bw') in
              if bw_left bw' =? 0 then
                let md5_valid := match r_md5 o1, bw_md5 bw' with
                                 | Some want, Some got => eqb_bytes want got
                                 | _, _ => true
                                 end in
                if md5_valid then let (o2, c2) := complete o1 c1 in (ROk o2, c2)
                else let (o2, c2) := error o1 false c1 in (ROk o2, c2)
              else write_blocks f (sbn + 1) o1 c1
            end
        else (ROk o, c)
      | _, _ => (ROk o, c)
      end
    end.

  Definition nb_blocks_of (oti : roti) (tlen : N) : N :=
    let '(_, _, _, n) := block_partitioning (ro_b oti) tlen (ro_e oti) in n.

  (* push_to_block2 *)
  Definition push_to_block2 (p : apkt) (o : objrecv) (c : ctx) : res * ctx :=
    match r_oti o, r_tlen o with
    | Some oti, Some tlen =>
      match a_pid_with (ro_fec oti) p with
      | None => (RErr o, c)
      | Some (sbn, esi, sbl) =>
        if tlen =? 0 then
          (* an empty object is completed only once an FDT instance has given it a writer (D37) *)
          match r_writer o with
          | None => (ROk o, c)
          | Some _ => let (o1, c1) := complete o c in (ROk o1, c1)
          end
        else if sbn <? r_off o then (ROk o, c)
        else if match sbl with None => nb_blocks_of oti tlen <=? sbn | Some _ => false end then (RErr o, c)
        else
          let off := sbn - r_off o in
          if (N.of_nat (length (r_blocks o)) <=? off) && (4096 <? off) then (RErr (set_state o Errored), c)
          else
            let bl0 := if N.of_nat (length (r_blocks o)) <=? off
                       then r_blocks o ++ repeat bdec_new (N.to_nat off + 1 - length (r_blocks o))
                       else r_blocks o in
            let idx := N.to_nat off in
            let b := nth idx bl0 bdec_new in
            if bd_completed b then (ROk (set_blocks o bl0 (r_off o) (r_nb_alloc o) (r_alloc_size o) (r_bw o)), c)
            else
              let o0 := set_blocks o bl0 (r_off o) (r_nb_alloc o) (r_alloc_size o) (r_bw o) in
              (* block initialisation *)
              let init_res : option (option (bdec * N * N)) :=   (* None = panic; Some None = Err *)
                if bd_init b then Some (Some (b, r_nb_alloc o, r_alloc_size o))
                else
                  let k := match sbl with Some v => v | None => if sbn <? r_nal o then r_al o else r_as o end in
                  let blen : option N :=
                    match sbl with
                    | Some _ => Some (k * ro_e oti)
                    | None => block_length64 (r_al o) (r_as o) (r_nal o) tlen (ro_e oti) sbn
                    end in
                  match blen with
                  | None => None                                   (* u64 underflow in block_length *)
                  | Some bl =>
                    if (2 <=? r_nb_alloc o) && (r_max o <? r_alloc_size o + bl) then Some None
                    else match bd_init_block oti k bl b with
                         | None => Some None
                         | Some b' => Some (Some (b', r_nb_alloc o + 1, r_alloc_size o + bl))
                         end
                  end in
              match init_res with
              | None => (RErr o0, panicc c)
              | Some None => (RErr (set_state o0 Errored), c)
              | Some (Some (b1, nb, sz)) =>
                let (b2, pan) := bd_push (r_toi o) oti sbn esi (a_payload p) b1 in
                let c1 := if pan then panicc c else c in
                let o1 := set_blocks o0 (upd_nthb idx (fun _ => b2) bl0) (r_off o) nb sz (r_bw o) in
                if bd_completed b2 then write_blocks (S (length (r_blocks o1))) sbn o1 c1
                else (ROk o1, c1)
              end
      end
    | _, _ => (RErr o, panicc c)   (* debug_assert!(oti.is_some()) / unwrap *)
    end.

  Definition push_to_block (p : apkt) (o : objrecv) (c : ctx) : res * ctx :=
    match push_to_block2 p o c with
    | (ROk o1, c1) =>
      if a_close_obj p then
        (* without a writer the FDT has not been attached yet: the object may be complete in memory (D44) *)
        match r_state o1, r_writer o1 with
        | Receiving, Some _ => let (o2, c2) := error o1 true c1 in (ROk o2, c2)
        | _, _ => (ROk o1, c1)
        end
      else (ROk o1, c1)
    | r => r
    end.

  (* push_from_cache: the cached packets are replayed in arrival order (VecDeque::pop_front, D43) *)
  Fixpoint drain_cache (cache : list apkt) (o : objrecv) (c : ctx) : objrecv * ctx :=
    match cache with
    | [] => (o, c)
    | p :: rest =>
      (* the popped packet is removed before it is pushed; error() clears what remains *)
      let o0 := mk_or (r_state o) (r_toi o) (r_oti o) rest (r_cache_size o) (r_max o) (r_blocks o) (r_off o)
                      (r_tlen o) (r_cenc o) (r_md5 o) (r_md5chk o) (r_al o) (r_as o) (r_nal o) (r_writer o)
                      (r_bw o) (r_fdt_id o) (r_nb_alloc o) (r_alloc_size o) (r_clen o) (r_nocache o) in
      match push_to_block p o0 c with
      | (ROk o1, c1) => match r_cache o1 with
                        | [] => (o1, c1)            (* complete()/error() cleared the cache *)
                        | _ => drain_cache rest o1 c1
                        end
      | (RErr o1, c1) => error o1 false c1
      end
    end.

  (* nothing is replayed before the OTI is known; an empty object has no block to wait for (D40) *)
  Definition cache_replay_blocked (o : objrecv) : bool :=
    match r_oti o with
    | None => true
    | Some _ => (nb_block o =? 0) && negb (match r_tlen o with Some 0 => true | _ => false end)
    end.

  Definition push_from_cache (o : objrecv) (c : ctx) : objrecv * ctx :=
    if cache_replay_blocked o then (o, c)
    else
      let (o1, c1) := drain_cache (r_cache o) o c in
      (mk_or (r_state o1) (r_toi o1) (r_oti o1) (r_cache o1) 0 (r_max o1) (r_blocks o1) (r_off o1)
             (r_tlen o1) (r_cenc o1) (r_md5 o1) (r_md5chk o1) (r_al o1) (r_as o1) (r_nal o1) (r_writer o1)
             (r_bw o1) (r_fdt_id o1) (r_nb_alloc o1) (r_alloc_size o1) (r_clen o1) (r_nocache o1), c1).

  (* ObjectReceiver::push *)
  Definition or_push (p : apkt) (o : objrecv) (c : ctx) : objrecv * ctx :=
    match r_state o with
    | Receiving =>
      (* set_fdt_id_from_pkt / set_cenc_from_pkt / set_oti_from_pkt *)
      let fid := match r_fdt_id o with
                 | Some x => Some x
                 | None => if a_toi p =? 0 then a_fdt_id p else None
                 end in
      let ce := match r_cenc o with
                | Some x => Some x
                | None => match a_cenc p with
                          | Some x => Some x
                          | None => if r_toi o =? 0 then Some CNull else None
                          end
                end in
      let '(oti, tl) :=
        match r_oti o, a_oti p with
        | None, Some (ot, l) => (Some ot, match r_tlen o with Some x => Some x | None => Some l end)
        | x, _ => (x, r_tlen o)
        end in
      let o1 := mk_or (r_state o) (r_toi o) oti (r_cache o) (r_cache_size o) (r_max o) (r_blocks o) (r_off o)
                      tl ce (r_md5 o) (r_md5chk o) (r_al o) (r_as o) (r_nal o) (r_writer o) (r_bw o) fid
                      (r_nb_alloc o) (r_alloc_size o) (r_clen o) (r_nocache o) in
      let o2 := init_partition o1 in
      let (o3, c3) := init_writer o2 c in
      match r_state o3 with
      | Receiving =>
      let (o4, c4) := push_from_cache o3 c3 in
      match r_state o4 with
      | Receiving =>
      match r_oti o4 with
      | None =>
        (* cache(): refused once the counter has reached the limit, else counted and kept *)
        if r_max o4 <=? r_cache_size o4 then error o4 false c4
        else (mk_or (r_state o4) (r_toi o4) (r_oti o4) (r_cache o4 ++ [p]) (r_cache_size o4 + a_datalen p) (r_max o4) (r_blocks o4)
                    (r_off o4) (r_tlen o4) (r_cenc o4) (r_md5 o4) (r_md5chk o4) (r_al o4) (r_as o4) (r_nal o4)
                    (r_writer o4) (r_bw o4) (r_fdt_id o4) (r_nb_alloc o4) (r_alloc_size o4) (r_clen o4) (r_nocache o4), c4)
      | Some _ =>
        match push_to_block p o4 c4 with
        | (ROk o5, c5) => (o5, c5)
        | (RErr o5, c5) => error o5 false c5
        end
      end
      | _ => (o4, c4)     (* completed or failed by the packets of the cache *)
      end
      | _ => (o3, c3)     (* the writer was refused or could not be opened *)
      end
    | _ => (o, c)
    end.

  (* ObjectReceiver::attach_fdt; returns whether it attached *)
  Definition or_attach (fdt_id : N) (files : list fdtfile) (inst_oti : option roti) (o : objrecv) (c : ctx)
    : bool * objrecv * ctx :=
    match r_fdt_id o with
    | Some _ => (false, o, c)
    | None =>
      match find (fun f => ff_toi f =? r_toi o) files with
      | None => (false, o, c)
      | Some f =>
        let ce := match r_cenc o with Some x => Some x | None => Some (ff_cenc f) end in
        let file_oti := match ff_oti f with Some x => Some x | None => inst_oti end in
        let '(oti, tl) :=
          match r_oti o with
          | Some x => (Some x, match r_tlen o with Some l => Some l | None => Some (ff_tlen f) end)
          | None => match file_oti with
                    | Some x => (Some x, Some (ff_tlen f))
                    | None => (None, match r_tlen o with Some l => Some l | None => Some (ff_tlen f) end)
                    end
          end in
        let o1 := mk_or (r_state o) (r_toi o) oti (r_cache o) (r_cache_size o) (r_max o) (r_blocks o) (r_off o)
                        tl ce (ff_md5 f) (r_md5chk o) (r_al o) (r_as o) (r_nal o) (r_writer o) (r_bw o) (Some fdt_id)
                        (r_nb_alloc o) (r_alloc_size o) (ff_clen f) (ff_nocache f) in
        let o2 := init_partition o1 in
        let (o3a, c3a) := init_writer o2 c in
        (* D48: an empty object has no block to wait for - the packet that created the receiver was the whole
           object and may have come before the FDT: it is complete as soon as it has its writer *)
        let (o3, c3) :=
          match r_tlen o3a, r_oti o3a, r_state o3a, r_writer o3a with
          | Some 0, Some _, Receiving, Some _ => complete o3a c3a
          | _, _, _, _ => (o3a, c3a)
          end in
        let (o4, c4) := push_from_cache o3 c3 in
        let '(o5, c5) := match write_blocks (S (length (r_blocks o4))) 0 o4 c4 with
                         | (ROk x, cx) => (x, cx)
                         | (RErr x, cx) => error x false cx
                         end in
        let (o6, c6) := push_from_cache o5 c5 in
        (true, o6, c6)
      end
    end.

  (* Drop for ObjectReceiver *)
  Definition or_drop (o : objrecv) (c : ctx) : ctx :=
    match r_writer o with
    | Some (_, WOpened) | Some (_, WIdle) => snd (error o false c)
    | _ => c
    end.
End WithEnv.
