(* Model of /repo/src/sender/block.rs and /repo/src/sender/blockencoder.rs.
   Bytes are N (0..255).  External FEC code is a function argument (oracle):
     [rep]        repair-symbol payloads of a block (Reed-Solomon parity / RaptorQ / Raptor repair)
     [raptor_src] the source symbols as the raptor-code crate cuts them
   Definitions only; proofs are in Proofs/BlockEncProofs.v. *)
From Coq Require Export List NArith Lia Bool.
From FluteV Require Export Model.Partition.
Export ListNotations.
Open Scope bool_scope.
Open Scope N_scope.

Inductive fec := NoCode | RS28 | RS28US | RaptorQ | Raptor.

Record shard := mk_shard { sh_esi : N; sh_data : list N }.
Record block := mk_blk { bk_sbn : N; bk_k : N; bk_shards : list shard }.

Record pkt := mk_pkt {
  p_sbn : N; p_esi : N; p_payload : list N; p_close : bool; p_k : N; p_src : bool }.

Record ecfg := mk_ecfg {
  c_fec : fec;
  c_e : N;            (* encoding symbol length *)
  c_b : N;            (* maximum source block length *)
  c_parity : N;       (* max number of parity symbols *)
  c_window : nat;     (* block_multiplex_windows (= interleave_blocks) *)
  c_closable : bool;  (* closabled_object (= is_last_transfer) *)
  c_tlen : N;         (* object.transfer_length *)
  c_debug : bool      (* debug_assert! active (dev profile) *)
}.

(* ---------- slicing ---------- *)
Definition sublist {A} (from to : N) (l : list A) : list A :=
  firstn (N.to_nat (to - from)) (skipn (N.to_nat from) l).

Fixpoint chunks_fuel {A} (fuel : nat) (e : nat) (l : list A) : list (list A) :=
  match fuel with
  | O => []
  | S f => match l with
           | [] => []
           | _ => firstn e l :: chunks_fuel f e (skipn e l)
           end
  end.
(* slice.chunks(e), e >= 1 *)
Definition chunks {A} (e : nat) (l : list A) : list (list A) := chunks_fuel (length l) e l.

Definition lenN {A} (l : list A) : N := N.of_nat (length l).
Definition pad (e : nat) (c : list N) : list N := c ++ repeat 0 (e - length c).

Fixpoint enumerate_from (i : N) (l : list (list N)) : list shard :=
  match l with
  | [] => []
  | x :: r => mk_shard i x :: enumerate_from (i + 1) r
  end.

(* ---------- Block::new_from_buffer (block.rs:21-72) ---------- *)
(* reed_solomon_erasure::ReedSolomon::new(k, parity): Err for k = 0, parity = 0, k + parity > 256 *)
Definition rs_new_ok (k parity : N) : bool := (0 <? k) && (0 <? parity) && (k + parity <=? 256).

Section Oracles.
  Variable rep : fec -> N -> list N -> N -> N -> list (list N).  (* fec sbn buffer k parity *)
  Variable raptor_src : list N -> N -> option (list (list N)).   (* buffer k; None = encoder refused *)

  Definition mk_block (c : ecfg) (sbn : N) (buf : list N) : option block :=
    if c_e c =? 0 then None
    else
      let e := N.to_nat (c_e c) in
      let k := div_ceil (lenN buf) (c_e c) in
      match c_fec c with
      | NoCode => Some (mk_blk sbn k (enumerate_from 0 (chunks e buf)))
      | RS28 | RS28US =>
        if rs_new_ok k (c_parity c)
        then Some (mk_blk sbn k
               (enumerate_from 0 (map (pad e) (chunks e buf))
                ++ enumerate_from k (rep (c_fec c) sbn buf k (c_parity c))))
        else None
      | RaptorQ =>
        Some (mk_blk sbn k
               (enumerate_from 0 (map (pad e) (chunks e buf))
                ++ enumerate_from k (rep RaptorQ sbn buf k (c_parity c))))
      | Raptor =>
        match raptor_src buf k with
        | None => None
        | Some src =>
          Some (mk_blk sbn k (enumerate_from 0 src
                              ++ enumerate_from (lenN src) (rep Raptor sbn buf k (c_parity c))))
        end
      end.

  (* ---------- read_block_buffer iterated (blockencoder.rs:159-193): the blocks of a buffer
     source, in the order read_window loads them; an Err of Block::new_from_buffer sets
     read_end, so the list stops there. ---------- *)
  Fixpoint blocks_buf (fuel : nat) (c : ecfg) (al as_ nal : N) (content : list N) (sbn off : N)
    : list block :=
    match fuel with
    | O => []
    | S f =>
      let bl := if sbn <? nal then al else as_ in
      let e0 := off + bl * c_e c in
      let e1 := if lenN content <? e0 then lenN content else e0 in
      match mk_block c sbn (sublist off e1 content) with
      | None => []
      | Some b => b :: (if e1 =? lenN content then []
                        else blocks_buf f c al as_ nal content (sbn + 1) e1)
      end
    end.

  Definition blocks_of_buffer (c : ecfg) (content : list N) : list block :=
    let '(al, as_, nal, n) := block_partitioning (c_b c) (c_tlen c) (c_e c) in
    match content with
    | [] => []                      (* content.is_empty(): read_end, no block *)
    | _ => blocks_buf (S (length content)) c al as_ nal content 0 0
    end.

  (* ---------- read_block_stream iterated (blockencoder.rs:195-233) ----------
     [reads] is the oracle read schedule: the i-th call of stream.read(buf) returns
     min(reads_i, |buf|, bytes left) bytes (0 = EOF); when the schedule is exhausted the
     stream returns everything asked for.  The block buffer is filled by a read loop
     that stops at EOF (a read returning 0). *)
  Fixpoint read_fill (fuel : nat) (want : N) (rest : list N) (reads : list N)
    : list N * list N * list N :=           (* (got, rest', reads') *)
    match fuel with
    | O => ([], rest, reads)
    | S f =>
      if want =? 0 then ([], rest, reads)
      else
        let (r, reads') := match reads with [] => (want, []) | r :: t => (r, t) end in
        let n := N.min (N.min r want) (lenN rest) in
        if n =? 0 then ([], rest, reads')
        else
          let got := firstn (N.to_nat n) rest in
          let rest' := skipn (N.to_nat n) rest in
          let '(g2, rest'', reads'') := read_fill f (want - n) rest' reads' in
          (got ++ g2, rest'', reads'')
    end.

  Fixpoint blocks_stream (fuel : nat) (c : ecfg) (al as_ nal : N)
           (rest : list N) (reads : list N) (sbn : N) : list block :=
    match fuel with
    | O => []
    | S f =>
      let bl := if sbn <? nal then al else as_ in
      let want := bl * c_e c in
      let '(got, rest', reads') := read_fill (S (N.to_nat want)) want rest reads in
      match got with
      | [] => []                                  (* result == 0: read_end *)
      | _ =>
        match mk_block c sbn got with
        | None => []
        | Some b => b :: blocks_stream f c al as_ nal rest' reads' (sbn + 1)
        end
      end
    end.

  Definition blocks_of_stream (c : ecfg) (content : list N) (reads : list N) : list block :=
    let '(al, as_, nal, n) := block_partitioning (c_b c) (c_tlen c) (c_e c) in
    blocks_stream (S (length content)) c al as_ nal content reads 0.
End Oracles.

(* ---------- FileDesc::new (filedesc.rs): which (OTI, transfer length) are accepted ---------- *)
Definition encodable (f : fec) (k parity : N) : bool :=
  match f with
  | RS28 | RS28US => (0 <? parity) && (k + parity <=? 256)
  | Raptor => negb ((k =? 2) || (k =? 3)) && (k + parity <=? 65536)   (* 16-bit ESI of the Raptor FEC Payload ID (D46) *)
  | RaptorQ => k + parity <=? 16777216                                 (* 24-bit ESI of the RaptorQ FEC Payload ID (D46) *)
  | NoCode => k <=? 65536          (* 16-bit ESI of the No-Code FEC Payload ID (D39) *)
  end.

Definition max_source_blocks_number (f : fec) : N :=
  match f with
  | NoCode => 65535 | RS28 => 255 | RS28US => 4294967295 | RaptorQ => 255 | Raptor => 65535
  end.

Definition max_transfer_length (f : fec) (e b : N) : N :=
  let cap := match f with RaptorQ => 1099511627775 | _ => 281474976710655 end in
  N.min cap (e * b * max_source_blocks_number f).

Definition filedesc_accepts (c : ecfg) : bool :=
  (c_tlen c <=? max_transfer_length (c_fec c) (c_e c) (c_b c))
  && (if 0 <? c_tlen c then
        let '(al, as_, nal, n) := block_partitioning (c_b c) (c_tlen c) (c_e c) in
        negb (n =? 0)
        && ((nal =? 0) || encodable (c_fec c) al (c_parity c))
        && (negb (nal <? n) || encodable (c_fec c) as_ (c_parity c))
      else true)
  && (let '(_, _, _, n) := block_partitioning (c_b c) (c_tlen c) (c_e c) in
      match c_fec c with
      | RaptorQ => n <=? 255
      | Raptor => n <=? 65535
      | _ => true
      end).

(* ---------- BlockEncoder::read (blockencoder.rs:63-138) ---------- *)
Record wblock := mk_wb { wb_sbn : N; wb_k : N; wb_rest : list shard }.

Record est := mk_est {
  s_window : list wblock;    (* self.blocks, with the shards not yet read *)
  s_future : list block;     (* blocks read_window will still load; [] <-> read_end *)
  s_idx : nat;               (* block_multiplex_index *)
  s_src_sent : N;            (* source_size_transferred *)
  s_nb_sent : N;             (* nb_pkt_sent *)
  s_stopped : bool
}.

Definition est_init (blocks : list block) : est := mk_est [] blocks 0 0 0 false.

Inductive outcome := OPkt (p : pkt) | ONone | OPanic | OOutOfFuel.

Fixpoint refill (w : nat) (win : list wblock) (fut : list block) (fuel : nat) {struct fuel}
  : list wblock * list block :=
  match fuel with
  | O => (win, fut)
  | S f =>
    if Nat.ltb (length win) w then
      match fut with
      | [] => (win, fut)
      | b :: r => refill w (win ++ [mk_wb (bk_sbn b) (bk_k b) (bk_shards b)]) r f
      end
    else (win, fut)
  end.

Fixpoint remove_nth {A} (i : nat) (l : list A) : list A :=
  match l, i with
  | [], _ => []
  | _ :: r, O => r
  | x :: r, S j => x :: remove_nth j r
  end.

Fixpoint replace_nth {A} (i : nat) (y : A) (l : list A) : list A :=
  match l, i with
  | [], _ => []
  | _ :: r, O => y :: r
  | x :: r, S j => x :: replace_nth j y r
  end.

Definition all_empty_except (i : nat) (win : list wblock) : bool :=
  forallb (fun jw => Nat.eqb (fst jw) i || match wb_rest (snd jw) with [] => true | _ => false end)
          (combine (seq 0 (length win)) win).

Fixpoint read_loop (fuel : nat) (c : ecfg) (force : bool) (s : est) : outcome * est :=
  match fuel with
  | O => (OOutOfFuel, s)
  | S f =>
    let (win, fut) := refill (c_window c) (s_window s) (s_future s) (S (length (s_future s))) in
    match win with
    | [] =>
      let s' := mk_est win fut (s_idx s) (s_src_sent s) (s_nb_sent s) (s_stopped s) in
      if s_nb_sent s =? 0 then
        if c_debug c && negb (c_tlen c =? 0) then (OPanic, s')
        else (OPkt (mk_pkt 0 0 [] true 0 false),
              mk_est win fut (s_idx s) (s_src_sent s) 1 (s_stopped s))
      else (ONone, s')
    | _ =>
      let idx := if Nat.leb (length win) (s_idx s) then 0%nat else s_idx s in
      match nth_error win idx with
      | None => (OPanic, s)   (* unreachable: idx < length win *)
      | Some wb =>
        match wb_rest wb with
        | [] =>
          read_loop f c force
            (mk_est (remove_nth idx win) fut idx (s_src_sent s) (s_nb_sent s) (s_stopped s))
        | sh :: rest =>
          let is_src := sh_esi sh <? wb_k wb in
          let src_sent := if is_src then s_src_sent s + lenN (sh_data sh) else s_src_sent s in
          let is_last_symbol := match rest with [] => true | _ => false end in
          let others_empty := all_empty_except idx win in
          let is_last_packet := (c_tlen c <=? src_sent) && is_last_symbol && others_empty in
          let p := mk_pkt (wb_sbn wb) (sh_esi sh) (sh_data sh)
                          (force || (c_closable c && is_last_packet)) (wb_k wb) is_src in
          (OPkt p,
           mk_est (replace_nth idx (mk_wb (wb_sbn wb) (wb_k wb) rest) win) fut (S idx)
                  src_sent (s_nb_sent s + 1) (s_stopped s))
        end
      end
    end
  end.

Definition enc_read (c : ecfg) (force : bool) (s : est) : outcome * est :=
  if s_stopped s then (ONone, s)
  else
    let s1 := if force then mk_est (s_window s) (s_future s) (s_idx s) (s_src_sent s) (s_nb_sent s) true
              else s in
    read_loop (S (S (length (s_window s) + length (s_future s)))) c force s1.

(* run the encoder: [forces] gives the force_close_object argument of each successive read;
   after the list is exhausted reads continue with force = false until None ([fuel] reads). *)
Fixpoint enc_run (fuel : nat) (c : ecfg) (forces : list bool) (s : est) : list outcome :=
  match fuel with
  | O => []
  | S f =>
    let (force, forces') := match forces with [] => (false, []) | x :: r => (x, r) end in
    let (o, s') := enc_read c force s in
    match o with
    | OPkt _ => o :: enc_run f c forces' s'
    | _ => [o]
    end
  end.

Definition total_shards (bl : list block) : nat :=
  fold_right (fun b acc => (length (bk_shards b) + acc)%nat) 0%nat bl.
