(* Model of /repo/src/tools/mod.rs : system_time_to_ntp, ntp_to_system_time.
   A SystemTime is its signed distance to the Unix epoch in nanoseconds ([Z]);
   the SystemTime returned by ntp_to_system_time is a whole number of microseconds ([N]). *)
From Coq Require Export ZArith.
From FluteV Require Export Model.Bytes.
Open Scope N_scope.

Definition NTP_UNIX_OFFSET : N := 2208988800.       (* seconds from 1900-01-01 to 1970-01-01 *)
Definition TWO32 : N := 4294967296.
Definition TWO64 : N := 18446744073709551616.

(* the 32-bit NTP fraction for a sub-second part given in microseconds:
   current code (after fixes/D21):  ((submicro * 2^32 + 999_999) / 1_000_000) as u32   (rounded up)
   before the fix:                  ((submicro * 2^32) / 1_000_000) as u32             (rounded down) *)
Definition ntp_fraction (submicro : N) : N := ((submicro * TWO32 + 999999) / 1000000) mod TWO32.
Definition ntp_fraction_floor (submicro : N) : N := ((submicro * TWO32) / 1000000) mod TWO32.

(* tools/mod.rs:10-21.  duration_since(UNIX_EPOCH) fails before the epoch;
   as_secs / subsec_micros; seconds_ntp << 32 silently drops bits 32.. of seconds_ntp *)
Definition system_time_to_ntp_gen (frac : N -> N) (t_ns : Z) : res N :=
  if (t_ns <? 0)%Z then Err
  else
    let d := Z.to_N t_ns in
    let seconds_utc := d / 1000000000 in
    let submicro := (d mod 1000000000) / 1000 in
    let seconds_ntp := seconds_utc + NTP_UNIX_OFFSET in
    Ok (N.lor ((seconds_ntp * TWO32) mod TWO64) (frac submicro)).

Definition system_time_to_ntp := system_time_to_ntp_gen ntp_fraction.
Definition system_time_to_ntp_unfixed := system_time_to_ntp_gen ntp_fraction_floor.

(* tools/mod.rs:24-36 : result in microseconds since the Unix epoch *)
Definition ntp_to_system_time (ntp : N) : res N :=
  let seconds_ntp := N.shiftr ntp 32 in
  if seconds_ntp <? NTP_UNIX_OFFSET then Err
  else
    let seconds_utc := seconds_ntp - NTP_UNIX_OFFSET in
    let fraction := N.land ntp 4294967295 in
    let submicro := (fraction * 1000000) / TWO32 in
    Ok (seconds_utc * 1000000 + submicro).
