(* C04: the parse side of /repo/src/common/lct.rs, alc.rs and alccodec/*.rs AFTER the fixes
     fixes/D01-lct-header-shorter-than-4-bytes.patch   (lct.rs: a datagram shorter than 4 bytes is an error)
     fixes/D02-rs28-fti-max-n-below-b.patch            (alcrs28.rs: max_n < B is an error, no u32 underflow)
     fixes/D04-rs2m-payload-id-shift-m-32.patch        (alcrs2m.rs: m >= 32 is an error, no shift overflow)
   with EVERY index, slice, subtraction, division, remainder and shift of the Rust code made an
   explicit checked operation: out of range / overflow / zero divisor is the outcome [Panic], exactly
   as in a build with overflow checks.  Model/Lct.v and Model/Alc.v (property C06) model the same
   functions with total [slice]/[nth] under the guards that precede them; here nothing is taken for
   granted, so that "the parser never panics" (Properties/C04.v, parse_total) is a statement about
   every indexing expression of the code and not about the way the model was written.
   The Raptor (FEC id 1) EXT_FTI layout is the one of the code in the tree (finding D32 is recorded,
   not repaired).  Definitions only; proofs are in Proofs/AlcFixedProofs.v. *)
From FluteV Require Export Model.Alc.
Open Scope N_scope.

(* ---------- checked primitives ---------- *)
(* l[i] *)
Definition cidx (l : list N) (i : nat) : res N :=
  match nth_error l i with Some v => Ok v | None => Panic end.
(* &l[from..to] *)
Definition cslice (l : list N) (from to : nat) : res (list N) :=
  if (to <? from)%nat || (length l <? to)%nat then Panic else Ok (slice l from to).
(* a - b on an unsigned type *)
Definition csubN (a b : N) : res N := if a <? b then Panic else Ok (a - b).
(* a % b, num_integer::div_ceil(a, b) *)
Definition cmodN (a b : N) : res N := if b =? 0 then Panic else Ok (a mod b).
Definition cdiv_ceil (a b : N) : res N := if b =? 0 then Panic else Ok (div_ceil_u a b).
(* uN::from_be_bytes(l[from..to].try_into().unwrap()) : the slice, then the conversion to [u8; n] *)
Definition cbe (l : list N) (from to : nat) : res N := s <-- cslice l from to ;; Ok (be_decode s).

(* did the call return (Ok or Err) ? *)
Definition returned {A} (r : res A) : bool := match r with Ok _ | Err => true | _ => false end.

(* ---------- lct.rs:319-421 parse_lct_header (after fixes/D01) ---------- *)
Definition parse_lct_header_fixed (data : list N) : res lct_header :=
  match nth_error data 2 with                      (* data.get(2) *)
  | None => Err
  | Some v =>
    let len := v * 4 in
    if lenN data <? len then Err
    else if lenN data <? 4 then Err                (* fixes/D01 *)
    else
      cp <-- cidx data 3 ;;
      flags1 <-- cidx data 0 ;;
      flags2 <-- cidx data 1 ;;
      let s := N.land (N.shiftr flags2 7) 1 in
      let o := N.land (N.shiftr flags2 5) 3 in
      let h := N.land (N.shiftr flags2 4) 1 in
      let c := N.land (N.shiftr flags1 2) 3 in
      let a := N.land (N.shiftr flags2 1) 1 in
      let b := N.land flags2 1 in
      let version := N.shiftr flags1 4 in
      if negb (version =? 1) && negb (version =? 2) then Err
      else
        let cci_len := (c + 1) * 4 in
        let tsi_len := s * 4 + h * 2 in
        let toi_len := o * 4 + h * 2 in
        let cci_to := 4 + cci_len in
        let tsi_to := cci_to + tsi_len in
        let toi_to := tsi_to + toi_len in
        if (lenN data <? toi_to) || (16 <? cci_len) || (8 <? tsi_len) || (16 <? toi_len) then Err
        else if len <? toi_to then Err
        else
          (* cci[(16 - cci_len)..].copy_from_slice(&data[4..cci_to]) and the two others *)
          pc <-- csubN 16 cci_len ;; pt <-- csubN 8 tsi_len ;; po <-- csubN 16 toi_len ;;
          dc <-- cslice data 4 (N.to_nat cci_to) ;;
          dt <-- cslice data (N.to_nat cci_to) (N.to_nat tsi_to) ;;
          dd <-- cslice data (N.to_nat tsi_to) (N.to_nat toi_to) ;;
          if negb (lenN dc =? 16 - pc) || negb (lenN dt =? 8 - pt) || negb (lenN dd =? 16 - po)
          then Panic                                (* copy_from_slice: length mismatch *)
          else
            Ok {| lh_len := len;
                  lh_cci := be_decode (repeat 0 (N.to_nat pc) ++ dc);
                  lh_tsi := be_decode (repeat 0 (N.to_nat pt) ++ dt);
                  lh_toi := be_decode (repeat 0 (N.to_nat po) ++ dd);
                  lh_cp := cp;
                  lh_close_object := negb (b =? 0); lh_close_session := negb (a =? 0);
                  lh_ext_offset := toi_to |}
  end.

(* lct.rs:436-464 get_ext is [Lct.get_ext]: its slice &data[ext_offset..len] is already checked
   ([Panic]) and its loop already carries fuel ([OutOfFuel]); the indexing inside the loop is by
   pattern matching on at least 4 remaining bytes. *)

(* ---------- alc.rs ---------- *)
(* alc.rs:351-381 parse_sct with its slices checked *)
Definition parse_sct_c (ext : list N) : res (option N) :=
  if lenN ext <? 4 then Panic                      (* debug_assert!(ext.len() >= 4) *)
  else
  use_hi <-- cidx ext 2 ;;
  let sct_hi := N.land (N.shiftr use_hi 7) 1 in
  let sct_low := N.land (N.shiftr use_hi 6) 1 in
  let ert := N.land (N.shiftr use_hi 5) 1 in
  let slc := N.land (N.shiftr use_hi 4) 1 in
  let expected_len := (sct_hi + sct_low + ert + slc + 1) * 4 in
  if negb (lenN ext =? expected_len) then Err
  else if sct_hi =? 0 then Ok None
  else
    ntp_seconds <-- cbe ext 4 8 ;;
    ntp_fraction <-- (if sct_low =? 1 then cbe ext 8 12 else Ok 0) ;;
    let ntp := N.lor (N.shiftl ntp_seconds 32) ntp_fraction in
    match ntp_to_system_time ntp with
    | Ok t => Ok (Some t)
    | Err => Err | Panic => Panic | OutOfFuel => OutOfFuel
    end.

(* alc.rs:262-280 : ext.try_into().unwrap() after the length test *)
Definition parse_ext_fdt_c (ext : list N) : res (option (N * N)) :=
  if negb (length ext =? 4)%nat then Err
  else
    x <-- cbe ext 0 4 ;;
    Ok (Some (N.land (N.shiftr x 20) 15, N.land x 1048575)).

(* ---------- alccodec/*.rs get_fti, every fti[i] / fti[a..b] checked ---------- *)
Definition parse_fti_nocode_c (fti : list N) : res (oti * N) :=
  if negb (length fti =? 16)%nat then Err
  else
    b1 <-- cidx fti 1 ;;
    if negb (b1 =? 4) then Err
    else
      t <-- cbe fti 2 10 ;; e <-- cbe fti 10 12 ;; b <-- cbe fti 12 16 ;;
      Ok ({| o_fec := NoCode; o_inst := 0; o_B := b; o_E := e; o_parity := 0; o_ss := None;
             o_inband_fti := true |}, N.shiftr t 16).

(* alcrs28.rs:36-76 after fixes/D02 *)
Definition parse_fti_rs28_fixed (fti : list N) : res (oti * N) :=
  if negb (length fti =? 12)%nat then Err
  else
    b1 <-- cidx fti 1 ;;
    if negb (b1 =? 3) then Err
    else
      t <-- cbe fti 0 8 ;; e <-- cbe fti 8 10 ;; b <-- cidx fti 10 ;; n <-- cidx fti 11 ;;
      if n <? b then Err                            (* fixes/D02 *)
      else
        par <-- csubN n b ;;
        Ok ({| o_fec := RS28; o_inst := 0; o_B := b; o_E := e; o_parity := par; o_ss := None;
               o_inband_fti := true |}, N.land t MASK48).

Definition parse_fti_rs28us_c (fti : list N) : res (oti * N) :=
  if negb (length fti =? 16)%nat then Err
  else
    b1 <-- cidx fti 1 ;;
    if negb (b1 =? 4) then Err
    else
      t <-- cbe fti 2 10 ;; inst <-- cbe fti 8 10 ;; e <-- cbe fti 10 12 ;;
      b <-- cbe fti 12 14 ;; n <-- cbe fti 14 16 ;;
      Ok ({| o_fec := RS28US; o_inst := inst; o_B := b; o_E := e;
             o_parity := n - b;                      (* checked_sub().unwrap_or_default() *)
             o_ss := None; o_inband_fti := true |}, N.shiftr t 16).

Definition parse_fti_rs2m_c (fti : list N) : res (oti * N) :=
  if negb (length fti =? 16)%nat then Err
  else
    b1 <-- cidx fti 1 ;;
    if negb (b1 =? 4) then Err
    else
      t <-- cbe fti 0 8 ;; m <-- cidx fti 8 ;; g <-- cidx fti 9 ;; e <-- cbe fti 10 12 ;;
      b <-- cbe fti 12 14 ;; n <-- cbe fti 14 16 ;;
      Ok ({| o_fec := RS2m; o_inst := 0; o_B := b; o_E := e;
             o_parity := n - b;                      (* saturating_sub *)
             o_ss := Some (SSReedSolomon (if m =? 0 then 8 else m) (if g =? 0 then 1 else g));
             o_inband_fti := true |}, N.land t MASK48).

Definition parse_fti_raptorq_c (fti : list N) : res (oti * N) :=
  if negb (length fti =? 16)%nat then Err
  else
    t0 <-- cbe fti 2 10 ;; t <-- cbe fti 8 10 ;; z <-- cidx fti 10 ;; n <-- cbe fti 11 13 ;;
    al <-- cidx fti 13 ;;
    let tl := N.shiftr t0 24 in
    if t =? 0 then Err else if z =? 0 then Err else if al =? 0 then Err
    else
      r <-- cmodN t al ;;
      if negb (r =? 0) then Err
      else
        block_size <-- cdiv_ceil tl z ;;
        b <-- cdiv_ceil block_size t ;;
        Ok ({| o_fec := RaptorQ; o_inst := 0; o_B := b mod U32; o_E := t; o_parity := 0;
               o_ss := Some (SSRaptorQ z n al); o_inband_fti := true |}, tl).

(* alcraptor.rs:52-110 as it is in the tree (40-bit length, symbol size in bytes 8..10, Z in 10..12) *)
Definition parse_fti_raptor_c (fti : list N) : res (oti * N) :=
  if negb (length fti =? 16)%nat then Err
  else
    t0 <-- cbe fti 2 10 ;; t <-- cbe fti 8 10 ;; z <-- cbe fti 10 12 ;; n <-- cidx fti 12 ;;
    al <-- cidx fti 13 ;;
    let tl := N.shiftr t0 24 in
    if t =? 0 then Err else if z =? 0 then Err else if al =? 0 then Err
    else
      r <-- cmodN t al ;;
      if negb (r =? 0) then Err
      else
        block_size <-- cdiv_ceil tl z ;;
        b <-- cdiv_ceil block_size t ;;
        Ok ({| o_fec := Raptor; o_inst := 0; o_B := b mod U32; o_E := t; o_parity := 0;
               o_ss := Some (SSRaptor z n al); o_inband_fti := true |}, tl).

Definition parse_fti_fixed (f : fec_id) (fti : list N) : res (oti * N) :=
  match f with
  | NoCode => parse_fti_nocode_c fti
  | RS28 => parse_fti_rs28_fixed fti
  | RS28US => parse_fti_rs28us_c fti
  | RS2m => parse_fti_rs2m_c fti
  | RaptorQ => parse_fti_raptorq_c fti
  | Raptor => parse_fti_raptor_c fti
  end.

Definition get_fti_fixed (f : fec_id) (data : list N) (lct : lct_header) : res (option (oti * N)) :=
  e <-- get_ext data lct 64 ;;
  match e with
  | None => Ok None
  | Some fti => r <-- parse_fti_fixed f fti ;; Ok (Some r)
  end.

(* ---------- FEC payload ids (alcrs2m.rs after fixes/D04) ---------- *)
Definition get_fec_payload_id_fixed (o : oti) (pid : list N) : res (N * N * option N) :=
  match o_fec o with
  | RS28US =>
    if negb (length pid =? 8)%nat then Err         (* data.try_into() : [u8; 8] *)
    else let x := be_decode pid in
         Ok (N.land (N.shiftr x 32) 4294967295, N.land x 65535, Some (N.land (N.shiftr x 16) 65535))
  | f =>
    if negb (length pid =? 4)%nat then Err         (* data.try_into() : [u8; 4] *)
    else
      let x := be_decode pid in
      match f with
      | NoCode | Raptor => Ok (N.shiftr x 16, N.land x 65535, None)
      | RS28 => Ok (N.shiftr x 8, N.land x 255, None)
      | RaptorQ => Ok (N.shiftr x 24, N.land x 16777215, None)
      | _ => let m := rs2m_m o in
             if 32 <=? m then Err                    (* fixes/D04 *)
             else
               (* payload_id_header >> m ; (1u32 << m) - 1u32 : both shifts are below the width *)
               mask <-- csubN ((2 ^ m) mod U32) 1 ;;
               Ok (N.shiftr x m, N.land x mask, None)
      end
  end.

(* ---------- alc.rs:168-226 parse_alc_pkt ---------- *)
Definition parse_alc_pkt_fixed (data : list N) : res alc_pkt :=
  lct <-- parse_lct_header_fixed data ;;
  match fec_of_code (lh_cp lct) with
  | None => Err
  | Some fec =>
    let idlen := pid_block_length fec in
    if lenN data <? idlen + lh_len lct then Err
    else
      fti <-- get_fti_fixed fec data lct ;;
      cenc_ext <-- get_ext data lct 193 ;;
      let cenc := match cenc_ext with
                  | Some ext => match parse_cenc ext with Ok c => Some c | _ => None end
                  | None => None
                  end in
      fdt <-- (if lh_toi lct =? 0 then
                 e <-- get_ext data lct 192 ;;
                 match e with Some ext => parse_ext_fdt_c ext | None => Ok None end
               else Ok None) ;;
      Ok {| a_lct := lct; a_oti := option_map fst fti; a_transfer_length := option_map snd fti;
            a_cenc := cenc; a_alc_off := lh_len lct; a_payload_off := idlen + lh_len lct;
            a_fdt := fdt |}
  end.

(* the panic that [parse_cenc] could raise (ext[1] of an extension of 4 bytes) is part of its result;
   parse_alc_pkt maps Err to None with .ok(): a Panic would unwind through it *)
Definition parse_cenc_returns (data : list N) (lct : lct_header) : bool :=
  match get_ext data lct 193 with
  | Ok (Some ext) => returned (parse_cenc ext)
  | _ => true
  end.

(* alc.rs:229-236 *)
Definition get_sender_current_time_fixed (data : list N) (a : alc_pkt) : res (option N) :=
  e <-- get_ext data (a_lct a) 2 ;;
  match e with
  | Some ext => parse_sct_c ext
  | None => Ok None
  end.

(* alc.rs:239-242 with the slice &pkt.data[alc_header_offset..payload_offset] checked *)
Definition parse_payload_id_fixed (data : list N) (a : alc_pkt) (o : oti) : res (N * N * option N) :=
  pid <-- cslice data (N.to_nat (a_alc_off a)) (N.to_nat (a_payload_off a)) ;;
  get_fec_payload_id_fixed o pid.

(* what the harness observes of one datagram: parse, then (when it parsed) the sender current time
   and the payload id read with the packet's own OTI *)
Inductive obs3 := Obs (parse sct pid : N).     (* 0 = Ok, 1 = Err, 2 = Panic/OutOfFuel, 3 = not applicable *)
Definition code_of {A} (r : res A) : N := match r with Ok _ => 0 | Err => 1 | _ => 2 end.
Definition observe_fixed (data : list N) : obs3 :=
  match parse_alc_pkt_fixed data with
  | Ok a =>
    Obs (if parse_cenc_returns data (a_lct a) then 0 else 2)
        (code_of (get_sender_current_time_fixed data a))
        (match a_oti a with Some o => code_of (parse_payload_id_fixed data a o) | None => 3 end)
  | r => Obs (code_of r) 3 3
  end.

(* what the C06 harness observes of one datagram, on the CURRENT (repaired) parser: same record as
   Model/Alc.observe_parse, every component computed with the checked functions above.  The C06
   correspondence compares the implementation with this function; the C06 theorems speak about
   Model/Alc.v, to which this one is tied by C04_fix_D1/D2/D4_conservative (equal except that the
   panics of the unrepaired code are errors now). *)
Definition observe_parse_fixed (m_session : N) (data : list N) : res parse_obs :=
  a <-- parse_alc_pkt_fixed data ;;
  match fec_of_code (lh_cp (a_lct a)) with
  | None => Err
  | Some f =>
    let o := match a_oti a with Some o => o | None => session_oti f m_session end in
    Ok {| po_cci := lh_cci (a_lct a); po_tsi := lh_tsi (a_lct a); po_toi := lh_toi (a_lct a);
          po_cp := lh_cp (a_lct a); po_co := lh_close_object (a_lct a); po_cs := lh_close_session (a_lct a);
          po_fdt := a_fdt a; po_cenc := a_cenc a;
          po_fti := match a_oti a, a_transfer_length a with
                    | Some o', Some tl => Some (oti_observation o' tl) | _, _ => None end;
          po_sct := get_sender_current_time_fixed data a;
          po_pid := parse_payload_id_fixed data a o;
          po_payload_off := a_payload_off a |}
  end.
