(* Model of /repo/src/receiver/tsifilter.rs (TSIFilter, TSI) and of
   /repo/src/common/udpendpoint.rs (UDPEndpoint as a hash-map key).
   Definitions only; proofs are in Proofs/MultiProofs.v.

   Abstractions (stated, not hidden):
   * the two `String`s of a UDPEndpoint are used by this code for (derived) equality and
     hashing only; they are modelled as numbers (the harness maps strings injectively);
   * a `HashMap<K, V>` is an association list with a decidable key equality; `get`,
     `contains_key`, `insert`/`get_mut` (am_set), `remove` (am_remove), `is_empty`.
     Iteration order is never used by tsifilter.rs.
   * the counters are `u64`; `+= 1` on u64::MAX is an arithmetic-overflow panic with
     overflow checks (debug builds; the harness builds both profiles with checks on) and
     is modelled as [None].  (Without overflow checks the counter would wrap to 0 with
     the key still present.)  Reaching it needs 2^64 - 1 adds. *)
From Coq Require Export List NArith ZArith Bool.
Export ListNotations.
Open Scope bool_scope.
Open Scope N_scope.

(* udpendpoint.rs:8-15  #[derive(PartialEq, Eq, Hash)] *)
Record Endpoint := mkEp { ep_src : option N; ep_dst : N; ep_port : N }.

Definition optN_eqb (a b : option N) : bool :=
  match a, b with
  | None, None => true
  | Some x, Some y => x =? y
  | _, _ => false
  end.

Definition ep_eqb (a b : Endpoint) : bool :=
  optN_eqb (ep_src a) (ep_src b) && (ep_dst a =? ep_dst b) && (ep_port a =? ep_port b).

(* tsifilter.rs:113-114  endpoint.clone() with source_address = None *)
Definition ep_no_src (e : Endpoint) : Endpoint := mkEp None (ep_dst e) (ep_port e).

Section AMap.
  Variables K V : Type.
  Variable keqb : K -> K -> bool.

  Fixpoint am_get (m : list (K * V)) (k : K) : option V :=
    match m with
    | [] => None
    | (k', v) :: r => if keqb k' k then Some v else am_get r k
    end.

  Definition am_mem (m : list (K * V)) (k : K) : bool :=
    match am_get m k with Some _ => true | None => false end.

  (* insert, or assignment through get_mut: replaces the value of an existing key *)
  Fixpoint am_set (m : list (K * V)) (k : K) (v : V) : list (K * V) :=
    match m with
    | [] => [(k, v)]
    | (k', v') :: r => if keqb k' k then (k', v) :: r else (k', v') :: am_set r k v
    end.

  Definition am_remove (m : list (K * V)) (k : K) : list (K * V) :=
    filter (fun e => negb (keqb (fst e) k)) m.

  Definition am_is_empty (m : list (K * V)) : bool :=
    match m with [] => true | _ => false end.
End AMap.
Arguments am_get {K V}. Arguments am_mem {K V}. Arguments am_set {K V}.
Arguments am_remove {K V}. Arguments am_is_empty {K V}.

Definition u64_max : N := 18446744073709551615.

(* struct TSI { endpoints: HashMap<UDPEndpoint, u64> }  (tsifilter.rs:3-5) *)
Definition CntMap := list (Endpoint * N).

(* struct TSIFilter (tsifilter.rs:7-10) *)
Record TsiFilter := mkTF {
  tf_tsi : list (N * CntMap);
  tf_bypass : CntMap
}.

(* TSIFilter::new *)
Definition tf_new : TsiFilter := mkTF [] [].

(* TSI::add (85-92) and add_endpoint_bypass (26-33): same shape *)
Definition cnt_add (m : CntMap) (ep : Endpoint) : option CntMap :=
  match am_get ep_eqb m ep with
  | Some c => if c =? u64_max then None else Some (am_set ep_eqb m ep (c + 1))
  | None => Some (am_set ep_eqb m ep 1)
  end.

(* TSI::remove (94-102) and remove_endpoint_bypass (35-43): same shape.
   Absent key: nothing.  Count 1 (or 0, which never occurs): the key is removed. *)
Definition cnt_remove (m : CntMap) (ep : Endpoint) : CntMap :=
  match am_get ep_eqb m ep with
  | Some c => if 1 <? c then am_set ep_eqb m ep (c - 1) else am_remove ep_eqb m ep
  | None => m
  end.

(* TSIFilter::add (45-52); TSI::new(endpoint) is the one-entry map *)
Definition tf_add (f : TsiFilter) (ep : Endpoint) (tsi : N) : option TsiFilter :=
  match am_get N.eqb (tf_tsi f) tsi with
  | Some t =>
    match cnt_add t ep with
    | Some t' => Some (mkTF (am_set N.eqb (tf_tsi f) tsi t') (tf_bypass f))
    | None => None
    end
  | None => Some (mkTF (am_set N.eqb (tf_tsi f) tsi [(ep, 1)]) (tf_bypass f))
  end.

(* TSIFilter::remove (54-61) *)
Definition tf_remove (f : TsiFilter) (ep : Endpoint) (tsi : N) : TsiFilter :=
  match am_get N.eqb (tf_tsi f) tsi with
  | Some t =>
    let t' := cnt_remove t ep in
    if am_is_empty t' then mkTF (am_remove N.eqb (tf_tsi f) tsi) (tf_bypass f)
    else mkTF (am_set N.eqb (tf_tsi f) tsi t') (tf_bypass f)
  | None => f
  end.

(* add_endpoint_bypass / remove_endpoint_bypass *)
Definition tf_add_bypass (f : TsiFilter) (ep : Endpoint) : option TsiFilter :=
  match cnt_add (tf_bypass f) ep with
  | Some b => Some (mkTF (tf_tsi f) b)
  | None => None
  end.

Definition tf_remove_bypass (f : TsiFilter) (ep : Endpoint) : TsiFilter :=
  mkTF (tf_tsi f) (cnt_remove (tf_bypass f) ep).

(* TSI::is_valid (108-116) *)
Definition cnt_is_valid (m : CntMap) (ep : Endpoint) : bool :=
  if am_mem ep_eqb m ep then true else am_mem ep_eqb m (ep_no_src ep).

(* TSIFilter::is_valid (63-73) *)
Definition tf_is_valid (f : TsiFilter) (ep : Endpoint) (tsi : N) : bool :=
  if am_mem ep_eqb (tf_bypass f) ep then true
  else match am_get N.eqb (tf_tsi f) tsi with
       | Some t => cnt_is_valid t ep
       | None => false
       end.

(* the four listen operations of MultiReceiver (multireceiver.rs:154-188) *)
Inductive FOp :=
| FAdd (ep : Endpoint) (tsi : N)        (* add_listen_tsi *)
| FRemove (ep : Endpoint) (tsi : N)     (* remove_listen_tsi *)
| FAddAll (ep : Endpoint)               (* add_listen_all_tsi *)
| FRemoveAll (ep : Endpoint).           (* remove_listen_all_tsi *)

Definition tf_step (f : TsiFilter) (op : FOp) : option TsiFilter :=
  match op with
  | FAdd ep tsi => tf_add f ep tsi
  | FRemove ep tsi => Some (tf_remove f ep tsi)
  | FAddAll ep => tf_add_bypass f ep
  | FRemoveAll ep => Some (tf_remove_bypass f ep)
  end.

Definition tf_run_from (f : TsiFilter) (ops : list FOp) : option TsiFilter :=
  fold_left (fun acc op => match acc with Some f => tf_step f op | None => None end) ops (Some f).

Definition tf_run (ops : list FOp) : option TsiFilter := tf_run_from tf_new ops.
