(* A seekable stream source WITH its position, and the seek of BlockEncoder::new
   (blockencoder.rs:37-41: `stream.seek(SeekFrom::Start(0))` for ObjectDataSource::Stream,
   nothing for Buffer).  Model.BlockEnc.blocks_of_stream reads a stream that is already at
   its start; here the position the stream is found at when a transfer begins is explicit,
   so that "every repeated transfer re-reads the source from its start" (C20) is a statement
   about the seek and not a convention of the model. *)
From FluteV Require Import Model.Partition Model.BlockEnc.
Open Scope N_scope.

Record sstream := mk_ss { ss_bytes : list N; ss_pos : N }.
Definition ss_seek0 (s : sstream) : sstream := mk_ss (ss_bytes s) 0.
Definition ss_rest (s : sstream) : list N := skipn (N.to_nat (ss_pos s)) (ss_bytes s).

Section Oracles.
  Variable rep : fec -> N -> list N -> N -> N -> list (list N).
  Variable raptor_src : list N -> N -> option (list (list N)).

  (* the blocks one BlockEncoder reads from the stream as it finds it (read_block_stream iterated) *)
  Definition blocks_from_pos (c : ecfg) (s : sstream) (reads : list N) : list block :=
    let '(al, as_, nal, n) := block_partitioning (c_b c) (c_tlen c) (c_e c) in
    blocks_stream rep raptor_src (S (length (ss_bytes s))) c al as_ nal (ss_rest s) reads 0.

  (* one transfer = BlockEncoder::new (seek, when [seek] is true: the code as it is) then the reads *)
  Definition transfer_blocks (seek : bool) (c : ecfg) (s : sstream) (reads : list N) : list block :=
    blocks_from_pos c (if seek then ss_seek0 s else s) reads.

  (* m transfers of one object: before each the stream is at SOME position (left there by the
     previous transfer, by the application, by ObjectDesc's own length probe ...) and is read
     with its own schedule of read sizes *)
  Definition transfers_blocks (seek : bool) (c : ecfg) (bytes : list N)
             (tr : list (N * list N)) : list (list block) :=
    map (fun pr => transfer_blocks seek c (mk_ss bytes (fst pr)) (snd pr)) tr.
End Oracles.
