(* Byte strings and bit fields shared by the wire-format models (C06, C15).
   Bytes are [N] values below 256; byte strings are [list N].
   - [be_encode k v] / [be_decode] : k-byte big-endian ("network order") integers, i.e. Rust's
     [to_be_bytes] / [from_be_bytes];
   - [pack] / [unpack] : the generic interpreter of an RFC header figure given as a list of
     (value, width-in-bits) pairs, most significant field first.
   Definitions only; proofs are in Proofs/BytesProofs.v. *)
From Coq Require Export List NArith Arith Lia Bool.
Export ListNotations.
Open Scope bool_scope.
Open Scope N_scope.

(* outcome of a fallible Rust function: Ok, Err(..) (error text is not modelled), a panic, or
   exhaustion of the model's loop fuel (never a behaviour of the code; excluded by theorems) *)
Inductive res (A : Type) : Type :=
| Ok (a : A)
| Err
| Panic
| OutOfFuel.
Arguments Ok {A} a.
Arguments Err {A}.
Arguments Panic {A}.
Arguments OutOfFuel {A}.

Definition rbind {A B} (r : res A) (f : A -> res B) : res B :=
  match r with Ok a => f a | Err => Err | Panic => Panic | OutOfFuel => OutOfFuel end.
Notation "x <-- r ;; k" := (rbind r (fun x => k)) (at level 61, r at next level, right associativity).

(* ---------- big-endian integers ---------- *)
Fixpoint be_encode (k : nat) (v : N) : list N :=
  match k with
  | O => []
  | S k' => (v / 256 ^ N.of_nat k') mod 256 :: be_encode k' v
  end.

Definition be_decode (l : list N) : N := fold_left (fun acc b => acc * 256 + b) l 0.

(* data[from..to] (callers guard [to <= length]; out of range would be a Rust panic) *)
Definition slice (l : list N) (from to : nat) : list N := firstn (to - from) (skipn from l).

Definition is_byte (b : N) : bool := b <? 256.
Definition all_bytes (l : list N) : bool := forallb is_byte l.

(* ---------- bit fields ---------- *)
Definition field := (N * N)%type.          (* (value, width in bits) *)

Fixpoint bits_of (fs : list field) : N :=
  match fs with [] => 0 | (_, w) :: r => w + bits_of r end.

(* the integer whose binary expansion is the concatenation of the fields, first field most
   significant; a value wider than its field is reduced modulo 2^width *)
Fixpoint pack_num (fs : list field) : N :=
  match fs with
  | [] => 0
  | (v, w) :: r => (v mod 2 ^ w) * 2 ^ bits_of r + pack_num r
  end.

(* the byte string of a figure whose total width is a multiple of 8 *)
Definition pack (fs : list field) : list N :=
  be_encode (N.to_nat (bits_of fs / 8)) (pack_num fs).

Fixpoint sum_widths (ws : list N) : N :=
  match ws with [] => 0 | w :: r => w + sum_widths r end.

(* field i of the integer x read against the width list ws *)
Fixpoint unpack_num (ws : list N) (x : N) : list N :=
  match ws with
  | [] => []
  | w :: r => (x / 2 ^ sum_widths r) mod 2 ^ w :: unpack_num r x
  end.

Definition unpack (ws : list N) (bytes : list N) : list N := unpack_num ws (be_decode bytes).

Definition fits (f : field) : bool := fst f <? 2 ^ snd f.
Definition all_fit (fs : list field) : bool := forallb fits fs.

(* list equality on N *)
Fixpoint eq_listN (a b : list N) : bool :=
  match a, b with
  | [], [] => true
  | x :: a', y :: b' => (x =? y) && eq_listN a' b'
  | _, _ => false
  end.
