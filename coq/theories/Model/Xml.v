(* Reference printer and parser for the subset of XML 1.0 in which FLUTE FDT instances are
   written (RFC 6726 section 3.4.2 + the 3GPP TS 26.346 extensions flute emits):

     document  = prolog? element          (UTF-8 bytes; processing instructions and comments are
                                           skipped, DOCTYPE / CDATA sections are refused)
     elements    FDT-Instance > File* , Group*      File > Cache-Control? , Group*
                 Cache-Control > no-cache | max-stale | Expires      (text content)
     attributes  Expires Complete FullFDT FEC-OTI-* | Content-Location TOI Content-Length
                 Transfer-Length Content-Type Content-Encoding Content-MD5 FEC-OTI-* File-ETag
     references  the five predefined entities and decimal / hexadecimal character references

   This is the INDEPENDENT parser of property C10: it shares nothing with flute (quick-xml /
   serde); it is extracted and run by the driver on every instance the real sender emits.
   Strings are byte strings ([list ascii], the UTF-8 bytes of a Rust String); every byte string
   is a legal attribute value / text for the printer (bytes that cannot be written literally are
   written as references), so that the round trip holds without side conditions.

   What the parser checks (XML 1.0 well-formedness, for this subset): tags balanced with equal
   names, one root element, only white space outside it, attribute syntax (white space before
   each attribute, '=' , quoted value, no '<' in values), unique attribute names, references
   terminated and known, no raw control character other than TAB/LF/CR, end-of-line handling
   (2.11: CR LF and CR become LF) and attribute-value normalisation (3.3.3: literal TAB/LF/CR
   become a space).  Elements and attributes are recognised by their local name (prefix before
   ':' dropped; namespace URIs are not resolved), unknown attributes and unknown child elements
   are skipped.  Leniencies, none of which can turn different contents into equal ones:
   character references may name any code point < 0x110000, ']]>' in text is accepted, UTF-8
   validity is a separate predicate ([utf8_ok]).
   Definitions only; proofs are in Proofs/XmlProofs.v. *)
From Coq Require Export List NArith Bool Ascii.
From Coq.Strings Require Import Byte.
Export ListNotations.
Open Scope char_scope.
Open Scope bool_scope.
Open Scope N_scope.

Definition str := list ascii.

(* literal byte strings "..." (own type rather than Coq's [string], whose extracted name would
   shadow OCaml's in the driver) *)
Inductive lits := Lits (l : list Byte.byte).
Definition lits_of_bytes (l : list Byte.byte) : lits := Lits l.
Definition bytes_of_lits (x : lits) : list Byte.byte := match x with Lits l => l end.
Declare Scope lits_scope.
Delimit Scope lits_scope with lits.
Bind Scope lits_scope with lits.
String Notation lits lits_of_bytes bytes_of_lits : lits_scope.
Definition lit (s : lits) : str := map ascii_of_byte (bytes_of_lits s).
Definition code (c : ascii) : N := N_of_ascii c.
Definition chr (n : N) : ascii := ascii_of_N n.

Fixpoint str_eqb (a b : str) : bool :=
  match a, b with
  | [], [] => true
  | x :: a', y :: b' => Ascii.eqb x y && str_eqb a' b'
  | _, _ => false
  end.

(* ------------------------------------------------------------------ abstract content *)
Inductive xcache := XNoCache (t : str) | XMaxStale (t : str) | XExpires (t : str).

Record xoti := mk_xoti {
  xo_id : option str; xo_inst : option str; xo_b : option str; xo_e : option str;
  xo_maxn : option str; xo_ssi : option str }.

Record xfile := mk_xfile {
  xf_loc : str; xf_toi : str;
  xf_clen : option str; xf_tlen : option str; xf_ctype : option str; xf_cenc : option str;
  xf_md5 : option str; xf_oti : xoti; xf_etag : option str;
  xf_cache : option xcache; xf_groups : list str }.

Record xfdt := mk_xfdt {
  xi_expires : str; xi_complete : option str; xi_full : option str; xi_oti : xoti;
  xi_files : list xfile; xi_groups : list str }.

(* ------------------------------------------------------------------ tokens *)
Inductive token :=
| TStart (name : str) (attrs : list (str * str)) (empty : bool)
| TEnd (name : str)
| TText (s : str).

(* ------------------------------------------------------------------ character classes *)
Definition is_ws (c : ascii) : bool := let n := code c in (n =? 32) || (n =? 9) || (n =? 10) || (n =? 13).
Definition is_digit (c : ascii) : bool := let n := code c in (48 <=? n) && (n <=? 57).
Definition is_letter (c : ascii) : bool :=
  let n := code c in ((65 <=? n) && (n <=? 90)) || ((97 <=? n) && (n <=? 122)).
Definition name_start (c : ascii) : bool :=
  is_letter c || (code c =? 95) || (code c =? 58) || (128 <=? code c).      (* _ : non-ASCII *)
Definition name_char (c : ascii) : bool :=
  name_start c || is_digit c || (code c =? 45) || (code c =? 46).            (* - . *)

Fixpoint span (p : ascii -> bool) (s : str) : str * str :=
  match s with
  | [] => ([], [])
  | c :: r => if p c then let (a, b) := span p r in (c :: a, b) else ([], s)
  end.

Definition skip_ws (s : str) : str := snd (span is_ws s).

Definition name_ok (n : str) : bool :=
  match n with c :: _ => name_start c && forallb name_char n | [] => false end.

Definition lex_name (s : str) : option (str * str) :=
  match s with
  | c :: _ => if name_start c then Some (span name_char s) else None
  | [] => None
  end.

(* ------------------------------------------------------------------ references *)
Definition utf8_encode (n : N) : option str :=
  if n <? 128 then Some [chr n]
  else if n <? 2048 then Some [chr (192 + n / 64); chr (128 + n mod 64)]
  else if n <? 65536 then
    if (55296 <=? n) && (n <? 57344) then None
    else Some [chr (224 + n / 4096); chr (128 + (n / 64) mod 64); chr (128 + n mod 64)]
  else if n <? 1114112 then
    Some [chr (240 + n / 262144); chr (128 + (n / 4096) mod 64); chr (128 + (n / 64) mod 64); chr (128 + n mod 64)]
  else None.

Definition hex_val (c : ascii) : option N :=
  let n := code c in
  if is_digit c then Some (n - 48)
  else if (65 <=? n) && (n <=? 70) then Some (n - 55)
  else if (97 <=? n) && (n <=? 102) then Some (n - 87)
  else None.

Fixpoint num_of (base : N) (s : str) (acc : N) : option N :=
  match s with
  | [] => Some acc
  | c :: r => match hex_val c with
              | Some d => if d <? base then num_of base r (acc * base + d) else None
              | None => None
              end
  end.

(* the text between '&' and ';' *)
Definition decode_ent (name : str) : option str :=
  if str_eqb name (lit "amp") then Some ["&"]
  else if str_eqb name (lit "lt") then Some ["<"]
  else if str_eqb name (lit "gt") then Some [">"]
  else if str_eqb name (lit "quot") then Some [""""]
  else if str_eqb name (lit "apos") then Some ["'"]
  else match name with
       | c0 :: c1 :: r =>
         if Ascii.eqb c0 "#" then
           if Ascii.eqb c1 "x" then
             match r with
             | _ :: _ => match num_of 16 r 0 with Some n => utf8_encode n | None => None end
             | [] => None
             end
           else match num_of 10 (c1 :: r) 0 with Some n => utf8_encode n | None => None end
         else None
       | _ => None
       end.

(* one character of an attribute value ([attr]) or of character data; [pend] = the reference
   being read (reversed), [None] outside a reference *)
Definition ustep (attr : bool) (pend : option str) (c : ascii) : option (str * option str) :=
  match pend with
  | None =>
    if Ascii.eqb c "&" then Some ([], Some [])
    else if Ascii.eqb c "<" then None
    else if (code c =? 9) || (code c =? 10) || (code c =? 13) then Some ([if attr then " " else c], None)
    else if code c <? 32 then None
    else Some ([c], None)
  | Some acc =>
    if Ascii.eqb c ";" then
      match decode_ent (rev acc) with Some bytes => Some (bytes, None) | None => None end
    else Some ([], Some (c :: acc))
  end.

Fixpoint urun (attr : bool) (pend : option str) (s : str) : option (str * option str) :=
  match s with
  | [] => Some ([], pend)
  | c :: r =>
    match ustep attr pend c with
    | None => None
    | Some (o, p') =>
      match urun attr p' r with
      | None => None
      | Some (o2, p2) => Some (o ++ o2, p2)
      end
    end
  end.

Definition unesc (attr : bool) (s : str) : option str :=
  match urun attr None s with Some (o, None) => Some o | _ => None end.

(* ------------------------------------------------------------------ lexer *)
Definition nodup_names (al : list (str * str)) : bool :=
  (fix go (l : list (str * str)) : bool :=
     match l with
     | [] => true
     | a :: r => negb (existsb (fun b => str_eqb (fst a) (fst b)) r) && go r
     end) al.

Fixpoint lex_attrs (fuel : nat) (s : str) (acc : list (str * str)) : option (list (str * str) * bool * str) :=
  match fuel with
  | O => None
  | S f =>
    let (w, s1) := span is_ws s in
    match s1 with
    | [] => None
    | c1 :: r1 =>
      if Ascii.eqb c1 ">" then Some (rev acc, false, r1)
      else if Ascii.eqb c1 "/" then
        match r1 with
        | c2 :: r2 => if Ascii.eqb c2 ">" then Some (rev acc, true, r2) else None
        | [] => None
        end
      else
        match w with
        | [] => None                       (* attributes are separated by white space *)
        | _ :: _ =>
          match lex_name s1 with
          | None => None
          | Some (n, s2) =>
            match skip_ws s2 with
            | [] => None
            | ceq :: s4 =>
              if Ascii.eqb ceq "=" then
                match skip_ws s4 with
                | [] => None
                | q :: s6 =>
                  if Ascii.eqb q """" || Ascii.eqb q "'" then
                    let (raw, s7) := span (fun c => negb (Ascii.eqb c q)) s6 in
                    match s7 with
                    | [] => None
                    | _ :: s8 =>
                      match unesc true raw with
                      | Some v => lex_attrs f s8 ((n, v) :: acc)
                      | None => None
                      end
                    end
                  else None
                end
              else None
            end
          end
        end
    end
  end.

(* after "<?" : up to and including "?>" ;  after "<!--" : up to and including "-->" *)
Fixpoint skip_pi (s : str) : option str :=
  match s with
  | [] => None
  | c :: r => if Ascii.eqb c "?" then
                match r with
                | c2 :: r2 => if Ascii.eqb c2 ">" then Some r2 else skip_pi r
                | [] => None
                end
              else skip_pi r
  end.

Fixpoint skip_comment (s : str) : option str :=
  match s with
  | [] => None
  | c :: r => if Ascii.eqb c "-" then
                match r with
                | c2 :: r2 => if Ascii.eqb c2 "-" then
                                match r2 with
                                | c3 :: r3 => if Ascii.eqb c3 ">" then Some r3 else None   (* "--" inside a comment *)
                                | [] => None
                                end
                              else skip_comment r
                | [] => None
                end
              else skip_comment r
  end.

Fixpoint lex (fuel : nat) (s : str) : option (list token) :=
  match fuel with
  | O => None
  | S f =>
    match s with
    | [] => Some []
    | c :: r =>
      if Ascii.eqb c "<" then
        match r with
        | [] => None
        | c1 :: r1 =>
          if Ascii.eqb c1 "/" then
            match lex_name r1 with
            | Some (n, r2) =>
              match skip_ws r2 with
              | c3 :: r3 => if Ascii.eqb c3 ">" then option_map (cons (TEnd n)) (lex f r3) else None
              | [] => None
              end
            | None => None
            end
          else if Ascii.eqb c1 "?" then
            match skip_pi r1 with Some r2 => lex f r2 | None => None end
          else if Ascii.eqb c1 "!" then
            match r1 with
            | c2 :: c3 :: r3 =>
              if Ascii.eqb c2 "-" && Ascii.eqb c3 "-" then
                match skip_comment r3 with Some r4 => lex f r4 | None => None end
              else None                                   (* DOCTYPE, CDATA: outside the subset *)
            | _ => None
            end
          else
            match lex_name r with
            | Some (n, r2) =>
              match lex_attrs (S (length r2)) r2 [] with
              | Some (al, e, r3) =>
                if nodup_names al then option_map (cons (TStart n al e)) (lex f r3) else None
              | None => None
              end
            | None => None
            end
        end
      else
        let (raw, rest) := span (fun c => negb (Ascii.eqb c "<")) s in
        match unesc false raw with
        | Some t => option_map (cons (TText t)) (lex f rest)
        | None => None
        end
    end
  end.

(* XML 1.0 section 2.11 *)
Fixpoint norm_eol (s : str) : str :=
  match s with
  | [] => []
  | c :: r =>
    if code c =? 13 then
      chr 10 :: match r with
                | c2 :: r2 => if code c2 =? 10 then norm_eol r2 else norm_eol r
                | [] => []
                end
    else c :: norm_eol r
  end.

(* ------------------------------------------------------------------ structure *)
Definition all_ws (s : str) : bool := forallb is_ws s.

(* tags balanced with equal names, exactly one root element, only white space outside it *)
Fixpoint balanced (stack : list str) (seen_root : bool) (ts : list token) : bool :=
  match ts with
  | [] => match stack with [] => seen_root | _ => false end
  | TStart n _ e :: r =>
    match stack with
    | [] => if seen_root then false else if e then balanced [] true r else balanced [n] false r
    | _ => if e then balanced stack seen_root r else balanced (n :: stack) seen_root r
    end
  | TEnd n :: r =>
    match stack with
    | top :: st => if str_eqb top n then balanced st (match st with [] => true | _ => seen_root end) r else false
    | [] => false
    end
  | TText t :: r =>
    match stack with
    | [] => if all_ws t then balanced stack seen_root r else false
    | _ => balanced stack seen_root r
    end
  end.

(* the part of a name after its last ':' *)
Fixpoint local_name_aux (s acc : str) : str :=
  match s with
  | [] => rev acc
  | c :: r => if Ascii.eqb c ":" then local_name_aux r [] else local_name_aux r (c :: acc)
  end.
Definition local_name (s : str) : str := local_name_aux s [].

Definition is_el (n : str) (what : lits) : bool := str_eqb (local_name n) (lit what).

Fixpoint get_attr (what : str) (al : list (str * str)) : option str :=
  match al with
  | [] => None
  | (n, v) :: r => if str_eqb (local_name n) what then Some v else get_attr what r
  end.
Definition attr (what : lits) (al : list (str * str)) : option str := get_attr (lit what) al.

Definition oti_of_attrs (al : list (str * str)) : xoti :=
  mk_xoti (attr "FEC-OTI-FEC-Encoding-ID" al) (attr "FEC-OTI-FEC-Instance-ID" al)
          (attr "FEC-OTI-Maximum-Source-Block-Length" al) (attr "FEC-OTI-Encoding-Symbol-Length" al)
          (attr "FEC-OTI-Max-Number-of-Encoding-Symbols" al) (attr "FEC-OTI-Scheme-Specific-Info" al).

(* a File element without its children; Content-Location and TOI are required *)
Definition file_of_attrs (al : list (str * str)) : option xfile :=
  match attr "Content-Location" al, attr "TOI" al with
  | Some loc, Some toi =>
    Some (mk_xfile loc toi (attr "Content-Length" al) (attr "Transfer-Length" al) (attr "Content-Type" al)
                   (attr "Content-Encoding" al) (attr "Content-MD5" al) (oti_of_attrs al) (attr "File-ETag" al)
                   None [])
  | _, _ => None
  end.

Definition set_cache (f : xfile) (c : xcache) : xfile :=
  mk_xfile (xf_loc f) (xf_toi f) (xf_clen f) (xf_tlen f) (xf_ctype f) (xf_cenc f) (xf_md5 f) (xf_oti f)
           (xf_etag f) (Some c) (xf_groups f).
Definition add_fgroup (f : xfile) (g : str) : xfile :=
  mk_xfile (xf_loc f) (xf_toi f) (xf_clen f) (xf_tlen f) (xf_ctype f) (xf_cenc f) (xf_md5 f) (xf_oti f)
           (xf_etag f) (xf_cache f) (xf_groups f ++ [g]).

Inductive ckind := KNoCache | KMaxStale | KExpires.
Definition mk_cache (k : ckind) (t : str) : xcache :=
  match k with KNoCache => XNoCache t | KMaxStale => XMaxStale t | KExpires => XExpires t end.

(* where the extraction automaton is; the instance under construction is in [xst] *)
Inductive ctx :=
| CTop                                          (* before the root element *)
| CInst                                         (* in FDT-Instance, between children *)
| CInstGroup (acc : str)                        (* in an instance-level Group *)
| CFile (f : xfile)                             (* in File, between children *)
| CFileGroup (f : xfile) (acc : str)
| CCache (f : xfile)                            (* in Cache-Control, before its choice *)
| CCacheItem (f : xfile) (k : ckind) (acc : str)
| CCacheDone (f : xfile)                        (* after the choice, before </Cache-Control> *)
| CSkip (depth : nat) (back : ctx)              (* inside an unknown element *)
| CDone.

Record xst := mk_xst { x_ctx : ctx; x_inst : xfdt }.

Definition with_ctx (s : xst) (c : ctx) : xst := mk_xst c (x_inst s).
Definition add_file (i : xfdt) (f : xfile) : xfdt :=
  mk_xfdt (xi_expires i) (xi_complete i) (xi_full i) (xi_oti i) (xi_files i ++ [f]) (xi_groups i).
Definition add_igroup (i : xfdt) (g : str) : xfdt :=
  mk_xfdt (xi_expires i) (xi_complete i) (xi_full i) (xi_oti i) (xi_files i) (xi_groups i ++ [g]).

(* an unknown child: skipped with everything below it *)
Definition enter_unknown (s : xst) (e : bool) : option xst :=
  Some (if e then s else with_ctx s (CSkip 0 (x_ctx s))).

Definition xstep (s : xst) (t : token) : option xst :=
  match x_ctx s, t with
  | CTop, TText _ => Some s
  | CTop, TStart n al e =>
    if is_el n "FDT-Instance" then
      match attr "Expires" al with
      | Some ex =>
        let i := mk_xfdt ex (attr "Complete" al) (attr "FullFDT" al) (oti_of_attrs al) [] [] in
        Some (mk_xst (if e then CDone else CInst) i)
      | None => None
      end
    else None
  | CTop, TEnd _ => None
  | CInst, TText t => if all_ws t then Some s else None
  | CInst, TStart n al e =>
    if is_el n "File" then
      match file_of_attrs al with
      | Some f => Some (if e then mk_xst CInst (add_file (x_inst s) f) else with_ctx s (CFile f))
      | None => None
      end
    else if is_el n "Group" then
      Some (if e then mk_xst CInst (add_igroup (x_inst s) []) else with_ctx s (CInstGroup []))
    else enter_unknown s e
  | CInst, TEnd _ => Some (with_ctx s CDone)
  | CInstGroup acc, TText t => Some (with_ctx s (CInstGroup (acc ++ t)))
  | CInstGroup acc, TEnd _ => Some (mk_xst CInst (add_igroup (x_inst s) acc))
  | CInstGroup _, TStart _ _ _ => None
  | CFile f, TText t => if all_ws t then Some s else None
  | CFile f, TStart n al e =>
    if is_el n "Cache-Control" then
      match xf_cache f with
      | Some _ => None
      | None => if e then None else Some (with_ctx s (CCache f))
      end
    else if is_el n "Group" then
      Some (with_ctx s (if e then CFile (add_fgroup f []) else CFileGroup f []))
    else enter_unknown s e
  | CFile f, TEnd _ => Some (mk_xst CInst (add_file (x_inst s) f))
  | CFileGroup f acc, TText t => Some (with_ctx s (CFileGroup f (acc ++ t)))
  | CFileGroup f acc, TEnd _ => Some (with_ctx s (CFile (add_fgroup f acc)))
  | CFileGroup _ _, TStart _ _ _ => None
  | CCache f, TText t => if all_ws t then Some s else None
  | CCache f, TStart n al e =>
    let k := if is_el n "no-cache" then Some KNoCache
             else if is_el n "max-stale" then Some KMaxStale
             else if is_el n "Expires" then Some KExpires else None in
    match k with
    | Some k => Some (with_ctx s (if e then CCacheDone (set_cache f (mk_cache k [])) else CCacheItem f k []))
    | None => None
    end
  | CCache _, TEnd _ => None                     (* the choice is mandatory *)
  | CCacheItem f k acc, TText t => Some (with_ctx s (CCacheItem f k (acc ++ t)))
  | CCacheItem f k acc, TEnd _ => Some (with_ctx s (CCacheDone (set_cache f (mk_cache k acc))))
  | CCacheItem _ _ _, TStart _ _ _ => None
  | CCacheDone f, TText t => if all_ws t then Some s else None
  | CCacheDone f, TEnd _ => Some (with_ctx s (CFile f))
  | CCacheDone _, TStart _ _ _ => None
  | CSkip d back, TText _ => Some s
  | CSkip d back, TStart _ _ e => Some (if e then s else with_ctx s (CSkip (S d) back))
  | CSkip d back, TEnd _ => Some (with_ctx s (match d with O => back | S d' => CSkip d' back end))
  | CDone, TText _ => Some s
  | CDone, _ => None
  end.

Fixpoint xrun (s : xst) (ts : list token) : option xst :=
  match ts with
  | [] => Some s
  | t :: r => match xstep s t with Some s' => xrun s' r | None => None end
  end.

Definition empty_xoti : xoti := mk_xoti None None None None None None.
Definition empty_xfdt : xfdt := mk_xfdt [] None None empty_xoti [] [].

Definition extract (ts : list token) : option xfdt :=
  match xrun (mk_xst CTop empty_xfdt) ts with
  | Some s => match x_ctx s with CDone => Some (x_inst s) | _ => None end
  | None => None
  end.

Definition tokens_of_doc (doc : str) : option (list token) :=
  let d := norm_eol doc in
  match lex (S (length d)) d with
  | Some ts => if balanced [] false ts then Some ts else None
  | None => None
  end.

Definition parse_fdt (doc : str) : option xfdt :=
  match tokens_of_doc doc with Some ts => extract ts | None => None end.

(* ------------------------------------------------------------------ printer *)
(* decimal digits of a small number (character references) *)
Fixpoint dec_digits (fuel : nat) (n : N) (acc : str) : str :=
  match fuel with
  | O => acc
  | S f => let acc' := chr (48 + n mod 10) :: acc in
           if n <? 10 then acc' else dec_digits f (n / 10) acc'
  end.
Definition char_ref (c : ascii) : str := "&" :: "#" :: dec_digits 3 (code c) [] ++ [";"].

(* the reference escaping: every byte string is representable *)
Definition esc_ref (c : ascii) : str :=
  if Ascii.eqb c "&" then lit "&amp;"
  else if Ascii.eqb c "<" then lit "&lt;"
  else if Ascii.eqb c ">" then lit "&gt;"
  else if Ascii.eqb c """" then lit "&quot;"
  else if Ascii.eqb c "'" then lit "&apos;"
  else if code c <? 32 then char_ref c
  else [c].

(* the escaping flute's serializer applies (quick-xml 0.39: & < > and the double quote in attribute values and
   text, everything else verbatim) - used to say exactly which strings it cannot carry *)
Definition esc_raw (c : ascii) : str :=
  if Ascii.eqb c "&" then lit "&amp;"
  else if Ascii.eqb c "<" then lit "&lt;"
  else if Ascii.eqb c ">" then lit "&gt;"
  else if Ascii.eqb c """" then lit "&quot;"
  else [c].

Section Printer.
  Variable esc : ascii -> str.

  Definition esc_str (s : str) : str := flat_map esc s.

  Definition print_attr (a : str * str) : str :=
    " " :: fst a ++ "=" :: """" :: esc_str (snd a) ++ [""""].

  Definition print_token (t : token) : str :=
    match t with
    | TStart n al e => "<" :: n ++ flat_map print_attr al ++ (if e then lit "/>" else lit ">")
    | TEnd n => "<" :: "/" :: n ++ [">"]
    | TText s => esc_str s
    end.

  Definition print_tokens (ts : list token) : str := flat_map print_token ts.
End Printer.

Definition opt_attr (n : lits) (o : option str) : list (str * str) :=
  match o with Some v => [(lit n, v)] | None => [] end.

Definition oti_attrs (o : xoti) : list (str * str) :=
  opt_attr "FEC-OTI-FEC-Encoding-ID" (xo_id o) ++ opt_attr "FEC-OTI-FEC-Instance-ID" (xo_inst o)
  ++ opt_attr "FEC-OTI-Maximum-Source-Block-Length" (xo_b o) ++ opt_attr "FEC-OTI-Encoding-Symbol-Length" (xo_e o)
  ++ opt_attr "FEC-OTI-Max-Number-of-Encoding-Symbols" (xo_maxn o) ++ opt_attr "FEC-OTI-Scheme-Specific-Info" (xo_ssi o).

Definition text_tok (t : str) : list token := match t with [] => [] | _ => [TText t] end.

Definition elem_text (n : lits) (t : str) : list token :=
  TStart (lit n) [] false :: text_tok t ++ [TEnd (lit n)].

Definition cache_tokens (c : xcache) : list token :=
  TStart (lit "mbms2007:Cache-Control") [] false ::
  match c with
  | XNoCache t => elem_text "mbms2007:no-cache" t
  | XMaxStale t => elem_text "mbms2007:max-stale" t
  | XExpires t => elem_text "mbms2007:Expires" t
  end ++ [TEnd (lit "mbms2007:Cache-Control")].

Definition file_attrs (f : xfile) : list (str * str) :=
  (lit "Content-Location", xf_loc f) :: (lit "TOI", xf_toi f) ::
  opt_attr "Content-Length" (xf_clen f) ++ opt_attr "Transfer-Length" (xf_tlen f)
  ++ opt_attr "Content-Type" (xf_ctype f) ++ opt_attr "Content-Encoding" (xf_cenc f)
  ++ opt_attr "Content-MD5" (xf_md5 f) ++ oti_attrs (xf_oti f) ++ opt_attr "mbms2012:File-ETag" (xf_etag f).

Definition file_tokens (f : xfile) : list token :=
  TStart (lit "File") (file_attrs f) false ::
  match xf_cache f with Some c => cache_tokens c | None => [] end
  ++ flat_map (elem_text "mbms2005:Group") (xf_groups f)
  ++ [TEnd (lit "File")].

Definition inst_attrs (i : xfdt) : list (str * str) :=
  (lit "Expires", xi_expires i) :: opt_attr "Complete" (xi_complete i)
  ++ oti_attrs (xi_oti i) ++ opt_attr "mbms2008:FullFDT" (xi_full i).

Definition tokens_of (i : xfdt) : list token :=
  TStart (lit "FDT-Instance") (inst_attrs i) false ::
  flat_map file_tokens (xi_files i) ++ flat_map (elem_text "mbms2005:Group") (xi_groups i)
  ++ [TEnd (lit "FDT-Instance")].

Definition xml_decl : str := lit "<?xml version=""1.0"" encoding=""UTF-8""?>".

Definition print_fdt_with (esc : ascii -> str) (i : xfdt) : str := xml_decl ++ print_tokens esc (tokens_of i).
Definition print_fdt : xfdt -> str := print_fdt_with esc_ref.

(* ------------------------------------------------------------------ UTF-8 (RFC 3629) *)
(* state: number of continuation bytes still expected, and the admissible range of the next one *)
Fixpoint utf8_run (need : nat) (lo hi : N) (s : str) : bool :=
  match s with
  | [] => Nat.eqb need 0
  | c :: r =>
    let n := code c in
    match need with
    | O =>
      if n <? 128 then utf8_run 0 128 191 r
      else if (194 <=? n) && (n <=? 223) then utf8_run 1 128 191 r
      else if n =? 224 then utf8_run 2 160 191 r
      else if ((225 <=? n) && (n <=? 236)) || (n =? 238) || (n =? 239) then utf8_run 2 128 191 r
      else if n =? 237 then utf8_run 2 128 159 r
      else if n =? 240 then utf8_run 3 144 191 r
      else if (241 <=? n) && (n <=? 243) then utf8_run 3 128 191 r
      else if n =? 244 then utf8_run 3 128 143 r
      else false
    | S k => if (lo <=? n) && (n <=? hi) then utf8_run k 128 191 r else false
    end
  end.
Definition utf8_ok (s : str) : bool := utf8_run 0 128 191 s.

(* ------------------------------------------------------------------ decimal values *)
(* an unsigned decimal integer: digits only, at least one *)
Fixpoint parse_dec_aux (s : str) (acc : N) : option N :=
  match s with
  | [] => Some acc
  | c :: r => if is_digit c then parse_dec_aux r (acc * 10 + (code c - 48)) else None
  end.
Definition parse_dec (s : str) : option N :=
  match s with [] => None | _ => parse_dec_aux s 0 end.
