(* Model of the FDT expiry decision of the receiver:
     src/tools/mod.rs               system_time_to_ntp, ntp_to_system_time
     src/receiver/fdtreceiver.rs    FdtReceiver::{new, push (clock offset from EXT_TIME), get_server_time,
                                    update_expired_state, is_expired}, FdtWriter::complete (Expires as u32 NTP seconds)
     src/receiver/receiver.rs       push_fdt_obj, attach_latest_fdt_to_objects, gc_object_completed, push_obj,
                                    create_obj, check_object_state, cleanup_fdt
   Definitions only; proofs are in Proofs/ExpiryProofs.v.

   Time ([SystemTime]) is [Z] nanoseconds since the Unix epoch; on this platform a SystemTime is an i64 number
   of seconds plus nanoseconds, and [SystemTime +/- Duration] panics outside that range: [st_add]/[st_sub]
   return [None] for that panic and every function that can reach it is in the option monad.

   What is abstracted (DESIGN 4, "oracles are events"):
   - the data path of an object (symbols, blocks, MD5): the moment an object reaches a terminal state is the
     event [EvObjEnd], supplied from what the harness observes;
   - the XML parser: an FDT packet event carries the content of its instance as (Expires string, TOI list) or
     [None] when FdtInstance::parse fails;
   - the FDT's own object receiver is a No-Code object of [n] symbols in one block: it completes when [n]
     distinct symbol indices below [n] have been pushed;
   - [max_objects_error = 0] (the default): objects_error is always empty after gc_object_error;
   - [object_timeout]: removal of an idle object is the event [EvObjEnd _ Fail] (its Drop reports an error to an
     open writer). *)
From Coq Require Export List ZArith NArith Lia Bool.
Export ListNotations.
Open Scope bool_scope.

(* ------------------------------------------------------------------ tools/mod.rs *)
Definition NTP_UNIX : N := 2208988800.
Definition TWO32 : N := 4294967296.
Definition TWO64 : N := 18446744073709551616.

(* tools/mod.rs:10-20.  [None] = Err (time before the Unix epoch).  The u64 addition cannot overflow
   (seconds <= i64::MAX); [<< 32] on u64 drops the high bits; [as u32] truncates; the OR of the two parts is a
   sum because the low 32 bits of the first are zero. *)
Definition system_time_to_ntp (t : Z) : option N :=
  if (t <? 0)%Z then None
  else
    let tn := Z.to_N t in
    let seconds_utc := (tn / 1000000000)%N in
    let submicro := ((tn mod 1000000000) / 1000)%N in
    let seconds_ntp := (seconds_utc + NTP_UNIX)%N in
    let fraction := (((submicro * TWO32 + 999999) / 1000000) mod TWO32)%N in   (* rounded up *)
    Some (((seconds_ntp * TWO32) mod TWO64) + fraction)%N.

(* tools/mod.rs:23-37, [ntp] is a u64.  [None] = Err (NTP seconds before 1970). *)
Definition ntp_to_system_time (ntp : N) : option Z :=
  let seconds_ntp := (ntp / TWO32)%N in
  if (seconds_ntp <? NTP_UNIX)%N then None
  else
    let seconds_utc := (seconds_ntp - NTP_UNIX)%N in
    let fraction := (ntp mod TWO32)%N in
    let submicro := ((fraction * 1000000) / TWO32)%N in
    let utc_micro := (seconds_utc * 1000000 + submicro)%N in
    Some (Z.of_N (utc_micro * 1000)).

(* str::parse::<u32>() on the bytes of the Expires attribute: optional '+', at least one digit, no overflow *)
Fixpoint parse_digits (acc : N) (s : list N) : option N :=
  match s with
  | [] => Some acc
  | c :: r =>
    if (48 <=? c)%N && (c <=? 57)%N then
      let acc' := (acc * 10 + (c - 48))%N in
      if (acc' <? TWO32)%N then parse_digits acc' r else None
    else None
  end.

Definition parse_u32 (s : list N) : option N :=
  match s with
  | [] => None
  | c :: r => if (c =? 43)%N then (match r with [] => None | _ => parse_digits 0 r end) else parse_digits 0 s
  end.

(* fdtreceiver.rs:247-251 *)
Definition expires_of (es : list N) : option Z :=
  match parse_u32 es with
  | Some s => ntp_to_system_time (s * TWO32)
  | None => None
  end.

(* ------------------------------------------------------------------ SystemTime +/- Duration *)
Definition ST_MIN : Z := -9223372036854775808000000000.
Definition ST_MAX : Z := 9223372036854775807999999999.
Definition st_ok (t : Z) : bool := (ST_MIN <=? t)%Z && (t <=? ST_MAX)%Z.
Definition st_add (t d : Z) : option Z := if st_ok (t + d) then Some (t + d)%Z else None.
Definition st_sub (t d : Z) : option Z := if st_ok (t - d) then Some (t - d)%Z else None.

(* chrono 0.4: DateTime::<Utc>::from(SystemTime) = Utc.timestamp_opt(sec, nsec).unwrap(); the representable
   range is DateTime::<Utc>::MIN_UTC (-262143-01-01T00:00:00Z) ..= MAX_UTC (+262142-12-31T23:59:59.999999999Z) *)
Definition CHRONO_MIN : Z := -8334601228800000000000.
Definition CHRONO_MAX : Z := 8210266876799999999999.
Definition chrono_ok (t : Z) : bool := (CHRONO_MIN <=? t)%Z && (t <=? CHRONO_MAX)%Z.

(* ------------------------------------------------------------------ fdtreceiver.rs *)
Inductive fdtstate := Receiving | Complete | FError | Expired.

Definition fdtstate_eqb (a b : fdtstate) : bool :=
  match a, b with
  | Receiving, Receiving | Complete, Complete | FError, FError | Expired, Expired => true
  | _, _ => false
  end.

(* content of an instance as the XML oracle gives it: (bytes of the Expires attribute, TOIs of the File elements);
   [None] = FdtInstance::parse fails *)
Definition fdtcontent := option (list N * list N).

Record fdtrecv := mkFr {
  fr_id : N;
  fr_state : fdtstate;
  fr_got : list N;                 (* symbol indices of the FDT object received so far *)
  fr_expires : option Z;           (* FdtWriterInner.expires *)
  fr_tois : list N;                (* TOIs listed by the parsed instance *)
  fr_off : option (bool * Z);      (* (sender_current_time_late, sender_current_time_offset) *)
  fr_check : bool                  (* enable_expired_check *)
}.

Definition fr_new (id : N) (chk : bool) : fdtrecv := mkFr id Receiving [] None [] None chk.
Definition fr_set_state (fr : fdtrecv) (st : fdtstate) : fdtrecv :=
  mkFr (fr_id fr) st (fr_got fr) (fr_expires fr) (fr_tois fr) (fr_off fr) (fr_check fr).
Definition fr_set_off (fr : fdtrecv) (o : option (bool * Z)) : fdtrecv :=
  mkFr (fr_id fr) (fr_state fr) (fr_got fr) (fr_expires fr) (fr_tois fr) o (fr_check fr).
Definition fr_set_got (fr : fdtrecv) (g : list N) : fdtrecv :=
  mkFr (fr_id fr) (fr_state fr) g (fr_expires fr) (fr_tois fr) (fr_off fr) (fr_check fr).
Definition is_complete (fr : fdtrecv) : bool := fdtstate_eqb (fr_state fr) Complete.
Definition is_receiving (fr : fdtrecv) : bool := fdtstate_eqb (fr_state fr) Receiving.

Definition memN (x : N) (l : list N) : bool := existsb (N.eqb x) l.

(* fdtreceiver.rs:104-113: sign and magnitude of (now - sender time) *)
Definition offset_of (now res : Z) : bool * Z :=
  if (res <? now)%Z then (true, now - res)%Z else (false, res - now)%Z.

(* fdtreceiver.rs:131-141 *)
Definition get_server_time (fr : fdtrecv) (now : Z) : option Z :=
  match fr_off fr with
  | None => Some now
  | Some (true, d) => st_sub now d
  | Some (false, d) => st_add now d
  end.

(* fdtreceiver.rs:176-184 *)
Definition is_expired (fr : fdtrecv) (now : Z) : option bool :=
  match fr_expires fr with
  | None => Some true
  | Some e =>
    match get_server_time fr now with
    | None => None
    | Some t => Some (e <? t)%Z
    end
  end.

(* fdtreceiver.rs:165-174 *)
Definition update_expired_state (fr : fdtrecv) (now : Z) : option fdtrecv :=
  if is_complete fr && fr_check fr then
    match is_expired fr now with
    | None => None
    | Some true => Some (fr_set_state fr Expired)
    | Some false => Some fr
    end
  else Some fr.

(* fdtreceiver.rs:103-128 + FdtWriter::complete: one packet of the FDT object of a receiver in state Receiving.
   [sct] is the raw 64-bit NTP value of EXT_TIME when the extension is present with SCT-High (None otherwise). *)
Definition fdt_push (fr : fdtrecv) (sct : option N) (idx n : N) (content : fdtcontent) (now : Z) : fdtrecv :=
  let fr1 :=
    match sct with
    | Some raw =>
      match ntp_to_system_time raw with
      | Some res => fr_set_off fr (Some (offset_of now res))
      | None => fr
      end
    | None => fr
    end in
  if (idx <? n)%N && negb (memN idx (fr_got fr1)) then
    let got := idx :: fr_got fr1 in
    if (N.of_nat (length got) =? n)%N then
      match content with
      | None => fr_set_state (fr_set_got fr1 got) FError
      | Some (es, tois) => mkFr (fr_id fr1) Complete got (expires_of es) tois (fr_off fr1) (fr_check fr1)
      end
    else fr_set_got fr1 got
  else fr1.

(* ------------------------------------------------------------------ receiver.rs *)
Record objst := mkObj { o_toi : N; o_fdt : option N }.   (* an entry of [objects]: TOI, attached FDT instance id *)

Record rstate := mkR {
  r_objects : list objst;
  r_completed : list N;              (* keys of objects_completed *)
  r_fdt_receivers : list fdtrecv;    (* fdt_receivers (at most one entry per id) *)
  r_fdt_current : list fdtrecv       (* fdt_current, newest first *)
}.

Record config := mkCfg { c_check : bool; c_once : bool }.

Inductive endkind := Done (remember : bool) | Fail.

Inductive event :=
| EvFdtPkt (id : N) (sct : option N) (idx n : N) (content : fdtcontent) (now : Z)
| EvObjPkt (toi : N) (first : bool) (now : Z)     (* first = (sbn, esi) = (0, 0) *)
| EvObjEnd (toi : N) (k : endkind)                (* the object reached Completed / Error / Interrupted / timed out *)
| EvCleanup (now : Z).

(* what the ObjectWriterBuilder / ObjectWriter of object [toi] sees *)
Inductive action := AOpen (toi id : N) | AEnd (toi : N).

Definition r_init : rstate := mkR [] [] [] [].

Definition has_id (id : N) (fr : fdtrecv) : bool := (fr_id fr =? id)%N.
Definition attachable (tois : list N) (o : objst) : bool :=
  match o_fdt o with None => memN (o_toi o) tois | Some _ => false end.

(* receiver.rs:289-407 *)
Definition push_fdt (cfg : config) (s : rstate) (id : N) (sct : option N) (idx n : N)
           (content : fdtcontent) (now : Z) : option (rstate * list action) :=
  if c_once cfg && existsb (has_id id) (r_fdt_current s) then Some (s, [])
  else
    let fr0 := match find (has_id id) (r_fdt_receivers s) with
               | Some fr => fr
               | None => fr_new id (c_check cfg)
               end in
    let others := filter (fun fr => negb (has_id id fr)) (r_fdt_receivers s) in
    if negb (is_receiving fr0) then
      Some (mkR (r_objects s) (r_completed s) (fr0 :: others) (r_fdt_current s), [])
    else
      match update_expired_state (fdt_push fr0 sct idx n content now) now with
      | None => None
      | Some fr2 =>
        if is_complete fr2 then
          let cur := fr2 :: r_fdt_current s in
          (* attach_latest_fdt_to_objects *)
          let objs' := map (fun o => if attachable (fr_tois fr2) o then mkObj (o_toi o) (Some id) else o)
                           (r_objects s) in
          let acts := map (fun o => AOpen (o_toi o) id) (filter (attachable (fr_tois fr2)) (r_objects s)) in
          (* gc_object_completed *)
          let completed' := match fr_tois fr2 with
                            | [] => r_completed s
                            | _ => filter (fun t => memN t (fr_tois fr2)) (r_completed s)
                            end in
          let cur' := if (10 <? length cur)%nat then removelast cur else cur in
          Some (mkR objs' completed' others cur', acts)
        else if fdtstate_eqb (fr_state fr2) Expired then
          (* receiver.rs:342-356: the log line converts the expiration time (or [now]) and the estimated
             server time to chrono::DateTime<Utc>, which panics outside chrono's range *)
          match get_server_time fr2 now with
          | None => None
          | Some t =>
            if chrono_ok (match fr_expires fr2 with Some e => e | None => now end) && chrono_ok t then
              Some (mkR (r_objects s) (r_completed s) (fr2 :: others) (r_fdt_current s), [])
            else None
          end
        else
          Some (mkR (r_objects s) (r_completed s) (fr2 :: others) (r_fdt_current s), [])
      end.

(* receiver.rs:608-631: walk fdt_current, re-evaluating expiry, until an instance attaches *)
Fixpoint attach_walk (toi : N) (now : Z) (l : list fdtrecv) : option (list fdtrecv * option N) :=
  match l with
  | [] => Some ([], None)
  | fr :: rest =>
    match update_expired_state fr now with
    | None => None
    | Some fr' =>
      if is_complete fr' && memN toi (fr_tois fr') then Some (fr' :: rest, Some (fr_id fr'))
      else
        match attach_walk toi now rest with
        | None => None
        | Some (rest', r) => Some (fr' :: rest', r)
        end
    end
  end.

Definition has_toi (toi : N) (o : objst) : bool := (o_toi o =? toi)%N.

(* receiver.rs:458-496 (the call of obj.push is the data path; its outcome arrives as EvObjEnd) *)
Definition push_obj (cfg : config) (s : rstate) (toi : N) (first : bool) (now : Z)
  : option (rstate * list action) :=
  let blocked := memN toi (r_completed s) in
  if blocked && (c_once cfg || negb first) then Some (s, [])
  else
    let completed' := if blocked then filter (fun t => negb (t =? toi)%N) (r_completed s) else r_completed s in
    if existsb (has_toi toi) (r_objects s) then
      Some (mkR (r_objects s) completed' (r_fdt_receivers s) (r_fdt_current s), [])
    else
      match attach_walk toi now (r_fdt_current s) with
      | None => None
      | Some (cur', r) =>
        Some (mkR (mkObj toi r :: r_objects s) completed' (r_fdt_receivers s) cur',
              match r with Some id => [AOpen toi id] | None => [] end)
      end.

(* receiver.rs:498-560 check_object_state (and cleanup_objects / Drop for Fail) *)
Definition obj_end (s : rstate) (toi : N) (k : endkind) : rstate * list action :=
  match find (has_toi toi) (r_objects s) with
  | None => (s, [])
  | Some o =>
    let objs' := filter (fun o => negb (has_toi toi o)) (r_objects s) in
    let completed' := match k with
                      | Done true => if memN toi (r_completed s) then r_completed s else toi :: r_completed s
                      | _ => r_completed s
                      end in
    (mkR objs' completed' (r_fdt_receivers s) (r_fdt_current s),
     match o_fdt o with Some _ => [AEnd toi] | None => [] end)
  end.

Fixpoint map_opt {A B} (f : A -> option B) (l : list A) : option (list B) :=
  match l with
  | [] => Some []
  | x :: r =>
    match f x with
    | None => None
    | Some y => match map_opt f r with None => None | Some r' => Some (y :: r') end
    end
  end.

(* receiver.rs:174-183 *)
Definition cleanup (s : rstate) (now : Z) : option rstate :=
  match map_opt (fun fr => update_expired_state fr now) (r_fdt_receivers s) with
  | None => None
  | Some l =>
    Some (mkR (r_objects s) (r_completed s)
              (filter (fun fr => is_complete fr || is_receiving fr) l) (r_fdt_current s))
  end.

(* [None] = the receiver panics (SystemTime overflow) *)
Definition step (cfg : config) (s : rstate) (ev : event) : option (rstate * list action) :=
  match ev with
  | EvFdtPkt id sct idx n content now => push_fdt cfg s id sct idx n content now
  | EvObjPkt toi first now => push_obj cfg s toi first now
  | EvObjEnd toi k => Some (obj_end s toi k)
  | EvCleanup now => match cleanup s now with None => None | Some s' => Some (s', []) end
  end.

Fixpoint run (cfg : config) (s : rstate) (evs : list event) : option (rstate * list (list action)) :=
  match evs with
  | [] => Some (s, [])
  | ev :: r =>
    match step cfg s ev with
    | None => None
    | Some (s', a) =>
      match run cfg s' r with
      | None => None
      | Some (s'', outs) => Some (s'', a :: outs)
      end
    end
  end.

(* writer callbacks per event, as the harness prints them *)
Definition outputs (cfg : config) (evs : list event) : option (list (list action)) :=
  match run cfg r_init evs with
  | None => None
  | Some (_, outs) => Some outs
  end.
