(* C04: Receiver::push_data (receiver.rs:250-258) and MultiReceiver::push up to the session look-up
   - the only place where bytes from the network enter the receiver:
       let alc = alc::parse_alc_pkt(data)?;              // Err: nothing else is executed
       if alc.lct.tsi != self.tsi { return Ok(()); }
       self.push(&alc, now)
   It composes the checked parser of the repaired code (Model/AlcFixed.v) with the receiver model
   (Model/Recv.v), converting the parser's packet into the receiver model's packet. *)
From FluteV Require Import Model.AlcFixed.
From FluteV Require Import Model.Recv.
Open Scope N_scope.

Definition rfec_of (f : fec_id) : rfec :=
  match f with
  | NoCode => FNoCode | Raptor => FRaptor | RS2m => FRS2M | RS28 => FRS28 | RaptorQ => FRaptorQ | RS28US => FRS28US
  end.

Definition roti_of (o : AlcTypes.oti) : roti :=
  mk_roti (rfec_of (o_fec o)) (o_E o) (o_B o) (o_parity o)
          (match o_ss o with
           | Some (SSRaptorQ z n al) | Some (SSRaptor z n al) => Some (z, n, al)
           | _ => None
           end).

(* lct::Cenc as u8 *)
Definition cenc_of_code (c : N) : cenc :=
  if c =? 1 then CZlib else if c =? 2 then CDeflate else if c =? 3 then CGzip else CNull.

(* the receiver model's view of a parsed datagram *)
Definition to_apkt (data : list N) (a : Alc.alc_pkt) : apkt :=
  mk_apkt (lh_toi (Alc.a_lct a)) (lh_close_object (Alc.a_lct a)) (lh_close_session (Alc.a_lct a))
          (option_map snd (Alc.a_fdt a))
          (match Alc.a_oti a, Alc.a_transfer_length a with
           | Some o, Some l => Some (roti_of o, l)
           | _, _ => None
           end)
          (option_map cenc_of_code (Alc.a_cenc a))
          (match get_sender_current_time_fixed data a with
           | Bytes.Ok (Some us) => Some (Z.of_N us * 1000)%Z
           | _ => None
           end)
          (lh_cp (Alc.a_lct a))
          (slice data (N.to_nat (Alc.a_alc_off a)) (N.to_nat (Alc.a_payload_off a)))
          (skipn (N.to_nat (Alc.a_payload_off a)) data)
          (lenN data).

Section WithEnv.
  Variable E : env.
  Variable parse_fdt : list N -> option fdtinst.
  Variable cfg : rconfig.
  Variable tsi : N.                 (* the session of this Receiver *)

  (* which event of the receiver model a datagram is *)
  Definition event_of (data : list N) (now : Z) : option rev :=
    match parse_alc_pkt_fixed data with
    | Bytes.Ok a => if lh_tsi (Alc.a_lct a) =? tsi then Some (RvPush (to_apkt data a) now) else None
    | _ => Some RvUnparsable
    end.

  (* Receiver::push_data: result, state, context (writer log and panic flag) *)
  Definition recv_push_data (r : recv) (data : list N) (now : Z) (c : ctx) : pres * recv * ctx :=
    match parse_alc_pkt_fixed data with
    | Bytes.Ok a =>
      if lh_tsi (Alc.a_lct a) =? tsi then recv_step E parse_fdt cfg r (RvPush (to_apkt data a) now) c
      else (POk, r, c)                              (* another session: ignored *)
    | Bytes.Err => (PErr, r, c)                     (* `?` : the error is returned, nothing else runs *)
    | _ => (PErr, r, panicc c)                      (* the parser unwinds *)
    end.

  Fixpoint recv_push_all (r : recv) (ds : list (list N)) (now : Z) (c : ctx) : list pres * recv * ctx :=
    match ds with
    | [] => ([], r, c)
    | d :: rest =>
      let '(x, r1, c1) := recv_push_data r d now c in
      let '(xs, r2, c2) := recv_push_all r1 rest now c1 in
      (x :: xs, r2, c2)
    end.
End WithEnv.
