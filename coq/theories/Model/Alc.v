(* Model of /repo/src/common/alc.rs (new_alc_pkt, parse_alc_pkt, get_sender_current_time,
   parse_payload_id, EXT_FDT / EXT_CENC / EXT_TIME push and parse) and of the six codecs of
   /repo/src/common/alccodec/*.rs (add_fti, get_fti, add_fec_payload_id, get_fec_payload_id).
   Mirrors masks, shifts (u32/u64 shifts drop the bits shifted out; a shift amount >= the type
   width, a checked addition/subtraction overflow, an unwrap of None and a failed debug_assert
   are [Panic]), slice bounds and the order of early returns.  Definitions only. *)
From FluteV Require Export Model.Lct Model.Ntp Model.AlcTypes.
Open Scope N_scope.

Definition U32 : N := 4294967296.
Definition MASK48 : N := 281474976710655.      (* 0xFFFFFFFFFFFF *)

(* u32 checked addition (overflow-checks are on in both harness profiles) *)
Definition cadd32 (a b : N) : res N := if a + b <? U32 then Ok (a + b) else Panic.

(* append an extension and bump HDR_LEN *)
Definition push_ext (data ext : list N) (words : N) : res (list N) := inc_hdr_len (data ++ ext) words.

(* ---------- alc.rs: EXT_FDT, EXT_CENC, EXT_TIME ---------- *)
(* alc.rs:282-291 *)
Definition push_fdt (data : list N) (version fdt_id : N) : res (list N) :=
  let ext := N.lor (N.lor (N.shiftl 192 24) (N.shiftl version 20)) fdt_id in
  push_ext data (be_encode 4 ext) 1.

(* alc.rs:293-305 *)
Definition push_cenc (data : list N) (cenc : N) : res (list N) :=
  let ext := N.lor (N.shiftl 193 24) (N.shiftl cenc 16) in
  push_ext data (be_encode 4 ext) 1.

(* alc.rs:317-349 *)
Definition sct_header : N :=
  N.lor (N.lor (N.lor (N.shiftl 2 24) (N.shiftl 3 16)) (N.shiftl 1 15)) (N.shiftl 1 14).

Definition push_sct_gen (to_ntp : Z -> res N) (data : list N) (now_ns : Z) : res (list N) :=
  match to_ntp now_ns with
  | Ok ntp => push_ext data (be_encode 4 sct_header ++ be_encode 8 ntp) 3
  | _ => Ok data                                (* Err(_) => return *)
  end.
Definition push_sct := push_sct_gen system_time_to_ntp.

(* alc.rs:262-280 *)
Definition parse_ext_fdt (ext : list N) : res (option (N * N)) :=
  if negb (length ext =? 4)%nat then Err
  else
    let x := be_decode ext in
    Ok (Some (N.land (N.shiftr x 20) 15, N.land x 1048575)).   (* (version, fdt_instance_id) *)

(* alc.rs:307-315 *)
Definition parse_cenc (ext : list N) : res N :=
  if negb (length ext =? 4)%nat then Err
  else match nth_error ext 1 with
       | Some c => if c <=? 3 then Ok c else Err
       | None => Panic
       end.

(* alc.rs:351-381 : result in microseconds since the Unix epoch *)
Definition parse_sct (ext : list N) : res (option N) :=
  match nth_error ext 2 with
  | None => Panic
  | Some use_hi =>
    let sct_hi := N.land (N.shiftr use_hi 7) 1 in
    let sct_low := N.land (N.shiftr use_hi 6) 1 in
    let ert := N.land (N.shiftr use_hi 5) 1 in
    let slc := N.land (N.shiftr use_hi 4) 1 in
    let expected_len := (sct_hi + sct_low + ert + slc + 1) * 4 in
    if negb (lenN ext =? expected_len) then Err
    else if sct_hi =? 0 then Ok None
    else
      let ntp_seconds := be_decode (slice ext 4 8) in
      let ntp_fraction := if sct_low =? 1 then be_decode (slice ext 8 12) else 0 in
      let ntp := N.lor (N.shiftl ntp_seconds 32) ntp_fraction in
      match ntp_to_system_time ntp with
      | Ok t => Ok (Some t)
      | Err => Err | Panic => Panic | OutOfFuel => OutOfFuel
      end
  end.

(* ---------- alccodec/*.rs : EXT_FTI ---------- *)
Definition fti_header16 (hel : N) : list N := be_encode 2 (N.lor (N.shiftl 64 8) hel).

(* alcnocode.rs:11-38 *)
Definition add_fti_nocode (data : list N) (o : oti) (tl : N) : res (list N) :=
  let transfer_header := (tl * 65536) mod TWO64 in
  let sbl_msb := N.land (N.shiftr (o_B o) 16) 65535 in
  let sbl_lsb := N.land (o_B o) 65535 in
  push_ext data (fti_header16 4 ++ be_encode 8 transfer_header ++ be_encode 2 (o_E o)
                 ++ be_encode 2 sbl_msb ++ be_encode 2 sbl_lsb) 4.

(* alcrs28.rs:11-35 *)
Definition add_fti_rs28 (data : list N) (o : oti) (tl : N) : res (list N) :=
  let ext_header_l := N.lor (N.lor (N.shiftl 64 56) (N.shiftl 3 48)) (N.land tl MASK48) in
  sum <-- cadd32 (o_parity o) (o_B o) ;;
  let max_n := N.land sum 255 in
  let e_b_n := N.lor (N.lor (N.shiftl (o_E o) 16) (N.shiftl (N.land (o_B o) 255) 8)) max_n in
  push_ext data (be_encode 8 ext_header_l ++ be_encode 4 e_b_n) 3.

(* alcrs28underspecified.rs:11-40 *)
Definition add_fti_rs28us (data : list N) (o : oti) (tl : N) : res (list N) :=
  let th := N.lor ((tl * 65536) mod TWO64) (o_inst o) in
  let sbl := N.land (o_B o) 65535 in
  sum <-- cadd32 (o_parity o) (o_B o) ;;
  let mne := sum mod 65536 in
  push_ext data (fti_header16 4 ++ be_encode 8 th ++ be_encode 2 (o_E o) ++ be_encode 2 sbl
                 ++ be_encode 2 mne) 4.

(* alcrs2m.rs:14-46 *)
Definition add_fti_rs2m (data : list N) (o : oti) (tl : N) : res (list N) :=
  match o_ss o with
  | None => Panic                                             (* unwrap *)
  | Some (SSReedSolomon m g) =>
    let ext_header_l := N.lor (N.lor (N.shiftl 64 56) (N.shiftl 4 48)) (N.land tl MASK48) in
    let b := (o_B o) mod 65536 in
    sum <-- cadd32 (o_parity o) (o_B o) ;;
    let max_n := sum mod 65536 in
    push_ext data (be_encode 8 ext_header_l ++ [m; g] ++ be_encode 2 (o_E o) ++ be_encode 2 b
                   ++ be_encode 2 max_n) 4
  | Some _ => Panic                                           (* debug_assert!(false) *)
  end.

(* alcraptorq.rs:14-54 *)
Definition add_fti_raptorq (data : list N) (o : oti) (tl : N) : res (list N) :=
  let transfer_header := N.lor ((tl * 16777216) mod TWO64) (N.land (o_E o) 65535) in
  match o_ss o with
  | None => Panic
  | Some (SSRaptorQ z n al) =>
    push_ext data (fti_header16 4 ++ be_encode 8 transfer_header ++ [z] ++ be_encode 2 n ++ [al]
                   ++ be_encode 2 0) 4
  | Some _ => Panic
  end.

(* alcraptor.rs:14-54 : the code uses the RaptorQ figure (40-bit length, 8 reserved bits, T, then
   Z (16) N (8) Al (8) and 16 bits of padding), not the RFC 5053 3.2.2/3.2.3 figure (recorded finding D32) *)
Definition add_fti_raptor (data : list N) (o : oti) (tl : N) : res (list N) :=
  let transfer_header := N.lor ((tl * 16777216) mod TWO64) (N.land (o_E o) 65535) in
  match o_ss o with
  | None => Panic
  | Some (SSRaptor z n al) =>
    push_ext data (fti_header16 4 ++ be_encode 8 transfer_header ++ be_encode 2 z ++ [n] ++ [al]
                   ++ be_encode 2 0) 4
  | Some _ => Panic
  end.

Definition add_fti (data : list N) (o : oti) (tl : N) : res (list N) :=
  match o_fec o with
  | NoCode => add_fti_nocode data o tl
  | RS28 => add_fti_rs28 data o tl
  | RS28US => add_fti_rs28us data o tl
  | RS2m => add_fti_rs2m data o tl
  | RaptorQ => add_fti_raptorq data o tl
  | Raptor => add_fti_raptor data o tl
  end.

(* get_fti: the found EXT_FTI bytes -> (oti, transfer length) *)
Definition byte_or0 (l : list N) (i : nat) : N := nth i l 0.   (* index inside a checked length *)

Definition div_ceil_u (a b : N) : N := if a mod b =? 0 then a / b else a / b + 1.

Definition parse_fti_nocode (fti : list N) : res (oti * N) :=
  if negb (length fti =? 16)%nat then Err
  else if negb (byte_or0 fti 1 =? 4) then Err
  else
    let tl := N.shiftr (be_decode (slice fti 2 10)) 16 in
    Ok ({| o_fec := NoCode; o_inst := 0; o_B := be_decode (slice fti 12 16);
           o_E := be_decode (slice fti 10 12); o_parity := 0; o_ss := None; o_inband_fti := true |}, tl).

Definition parse_fti_rs28 (fti : list N) : res (oti * N) :=
  if negb (length fti =? 12)%nat then Err
  else if negb (byte_or0 fti 1 =? 3) then Err
  else
    let tl := N.land (be_decode (slice fti 0 8)) MASK48 in
    let b := byte_or0 fti 10 in
    let n := byte_or0 fti 11 in
    if n <? b then Panic                                     (* u32 subtraction overflow (D2, C04) *)
    else
      Ok ({| o_fec := RS28; o_inst := 0; o_B := b; o_E := be_decode (slice fti 8 10);
             o_parity := n - b; o_ss := None; o_inband_fti := true |}, tl).

Definition parse_fti_rs28us (fti : list N) : res (oti * N) :=
  if negb (length fti =? 16)%nat then Err
  else if negb (byte_or0 fti 1 =? 4) then Err
  else
    let tl := N.shiftr (be_decode (slice fti 2 10)) 16 in
    let b := be_decode (slice fti 12 14) in
    let n := be_decode (slice fti 14 16) in
    Ok ({| o_fec := RS28US; o_inst := be_decode (slice fti 8 10); o_B := b;
           o_E := be_decode (slice fti 10 12); o_parity := n - b;   (* checked_sub().unwrap_or_default() *)
           o_ss := None; o_inband_fti := true |}, tl).

Definition parse_fti_rs2m (fti : list N) : res (oti * N) :=
  if negb (length fti =? 16)%nat then Err
  else if negb (byte_or0 fti 1 =? 4) then Err
  else
    let tl := N.land (be_decode (slice fti 0 8)) MASK48 in
    let m := byte_or0 fti 8 in
    let g := byte_or0 fti 9 in
    let b := be_decode (slice fti 12 14) in
    let n := be_decode (slice fti 14 16) in
    Ok ({| o_fec := RS2m; o_inst := 0; o_B := b; o_E := be_decode (slice fti 10 12);
           o_parity := n - b;                                      (* saturating_sub *)
           o_ss := Some (SSReedSolomon (if m =? 0 then 8 else m) (if g =? 0 then 1 else g));
           o_inband_fti := true |}, tl).

Definition parse_fti_raptorq (fti : list N) : res (oti * N) :=
  if negb (length fti =? 16)%nat then Err
  else
    let tl := N.shiftr (be_decode (slice fti 2 10)) 24 in
    let t := be_decode (slice fti 8 10) in
    let z := byte_or0 fti 10 in
    let n := be_decode (slice fti 11 13) in
    let al := byte_or0 fti 13 in
    if t =? 0 then Err else if z =? 0 then Err else if al =? 0 then Err
    else if negb (t mod al =? 0) then Err
    else
      let block_size := div_ceil_u tl z in
      let b := (div_ceil_u block_size t) mod U32 in
      Ok ({| o_fec := RaptorQ; o_inst := 0; o_B := b; o_E := t; o_parity := 0;
             o_ss := Some (SSRaptorQ z n al); o_inband_fti := true |}, tl).

(* alcraptor.rs:57-110 : reads the figure add_fti_raptor writes (D32) *)
Definition parse_fti_raptor (fti : list N) : res (oti * N) :=
  if negb (length fti =? 16)%nat then Err
  else
    let tl := N.shiftr (be_decode (slice fti 2 10)) 24 in
    let t := be_decode (slice fti 8 10) in
    let z := be_decode (slice fti 10 12) in
    let n := byte_or0 fti 12 in
    let al := byte_or0 fti 13 in
    if t =? 0 then Err else if z =? 0 then Err else if al =? 0 then Err
    else if negb (t mod al =? 0) then Err
    else
      let block_size := div_ceil_u tl z in
      let b := (div_ceil_u block_size t) mod U32 in
      Ok ({| o_fec := Raptor; o_inst := 0; o_B := b; o_E := t; o_parity := 0;
             o_ss := Some (SSRaptor z n al); o_inband_fti := true |}, tl).

Definition parse_fti (f : fec_id) (fti : list N) : res (oti * N) :=
  match f with
  | NoCode => parse_fti_nocode fti
  | RS28 => parse_fti_rs28 fti
  | RS28US => parse_fti_rs28us fti
  | RS2m => parse_fti_rs2m fti
  | RaptorQ => parse_fti_raptorq fti
  | Raptor => parse_fti_raptor fti
  end.

Definition get_fti (f : fec_id) (data : list N) (lct : lct_header) : res (option (oti * N)) :=
  e <-- get_ext data lct 64 ;;
  match e with
  | None => Ok None
  | Some fti => r <-- parse_fti f fti ;; Ok (Some r)
  end.

(* ---------- FEC payload ids ---------- *)
Definition rs2m_m (o : oti) : N :=
  match o_ss o with Some (SSReedSolomon m _) => m | _ => 8 end.

Definition add_fec_payload_id (o : oti) (p : pkt) : res (list N) :=
  let sbn := k_sbn p in let esi := k_esi p in
  match o_fec o with
  | NoCode => Ok (be_encode 4 (N.lor (N.shiftl (N.land sbn 65535) 16) (N.land esi 65535)))
  | RS28 => Ok (be_encode 4 (N.lor (N.shiftl (N.land sbn 16777215) 8) (N.land (N.land esi 255) 255)))
  | RS28US => Ok (be_encode 4 sbn ++ be_encode 2 ((k_source_block_length p) mod 65536)
                  ++ be_encode 2 (esi mod 65536))
  | RS2m => let m := rs2m_m o in
            if 32 <=? m then Panic                             (* u32 << m, m >= 32 *)
            else Ok (be_encode 4 (N.lor ((sbn * 2 ^ m) mod U32) (N.land esi 255)))
  | RaptorQ => Ok (be_encode 4 (N.lor (N.shiftl (N.land sbn 255) 24) (N.land esi 16777215)))
  | Raptor => Ok (be_encode 4 (N.lor (N.shiftl (N.land sbn 65535) 16) (N.land esi 65535)))
  end.

Definition pid_block_length (f : fec_id) : N := match f with RS28US => 8 | _ => 4 end.

(* (sbn, esi, source_block_length) *)
Definition get_fec_payload_id (o : oti) (pid : list N) : res (N * N * option N) :=
  match o_fec o with
  | RS28US =>
    if negb (length pid =? 8)%nat then Err
    else let x := be_decode pid in
         Ok (N.land (N.shiftr x 32) 4294967295, N.land x 65535, Some (N.land (N.shiftr x 16) 65535))
  | f =>
    if negb (length pid =? 4)%nat then Err
    else
      let x := be_decode pid in
      match f with
      | NoCode | Raptor => Ok (N.shiftr x 16, N.land x 65535, None)
      | RS28 => Ok (N.shiftr x 8, N.land x 255, None)
      | RaptorQ => Ok (N.shiftr x 24, N.land x 16777215, None)
      | _ => let m := rs2m_m o in
             if 32 <=? m then Panic                            (* >> m and 1u32 << m (D4, C04) *)
             else Ok (N.shiftr x m, N.land x (2 ^ m - 1), None)
      end
  end.

(* ---------- alc.rs:114-165 new_alc_pkt ---------- *)
Definition new_alc_pkt (o : oti) (cci tsi : N) (p : pkt) (prof : profile) (now_ns : Z) : res (list N) :=
  let d0 := push_lct_header [] 0 cci tsi (k_toi p) (fec_code (o_fec o)) (k_close_object p) false in
  d1 <-- (if k_toi p =? 0 then
            match k_fdt_id p with
            | None => Panic                                  (* debug_assert + unwrap *)
            | Some id => push_fdt d0 (match prof with RFC6726 => 2 | RFC3926 => 1 end) id
            end
          else Ok d0) ;;
  d2 <-- (if ((k_toi p =? 0) && negb (k_cenc p =? 0)) || k_inband_cenc p
          then push_cenc d1 (k_cenc p) else Ok d1) ;;
  d3 <-- (if k_sct p then push_sct d2 now_ns else Ok d2) ;;
  d4 <-- (if (k_toi p =? 0) || o_inband_fti o then add_fti d3 o (k_transfer_length p) else Ok d3) ;;
  pid <-- add_fec_payload_id o p ;;
  Ok (d4 ++ pid ++ k_payload p).

(* ---------- alc.rs:168-226 parse_alc_pkt ---------- *)
Record alc_pkt := {
  a_lct : lct_header;
  a_oti : option oti;
  a_transfer_length : option N;
  a_cenc : option N;
  a_alc_off : N;                     (* data_alc_header_offset *)
  a_payload_off : N;                 (* data_payload_offset *)
  a_fdt : option (N * N)             (* (version, fdt_instance_id) *)
}.

Definition parse_alc_pkt (data : list N) : res alc_pkt :=
  lct <-- parse_lct_header data ;;
  match fec_of_code (lh_cp lct) with
  | None => Err                                               (* "Codepoint not supported" *)
  | Some fec =>
    let idlen := pid_block_length fec in
    if lenN data <? idlen + lh_len lct then Err                (* "Wrong size of ALC packet" *)
    else
      fti <-- get_fti fec data lct ;;
      cenc_ext <-- get_ext data lct 193 ;;
      let cenc := match cenc_ext with
                  | Some ext => match parse_cenc ext with Ok c => Some c | _ => None end
                  | None => None
                  end in
      fdt <-- (if lh_toi lct =? 0 then
                 e <-- get_ext data lct 192 ;;
                 match e with Some ext => parse_ext_fdt ext | None => Ok None end
               else Ok None) ;;
      Ok {| a_lct := lct; a_oti := option_map fst fti; a_transfer_length := option_map snd fti;
            a_cenc := cenc; a_alc_off := lh_len lct; a_payload_off := idlen + lh_len lct;
            a_fdt := fdt |}
  end.

(* alc.rs:229-236 *)
Definition get_sender_current_time (data : list N) (a : alc_pkt) : res (option N) :=
  e <-- get_ext data (a_lct a) 2 ;;
  match e with
  | Some ext => parse_sct ext
  | None => Ok None
  end.

(* alc.rs:239-242 : the codec is chosen by the caller's OTI *)
Definition parse_payload_id (data : list N) (a : alc_pkt) (o : oti) : res (N * N * option N) :=
  if (a_payload_off a <? a_alc_off a) || (lenN data <? a_payload_off a) then Panic
  else get_fec_payload_id o (slice data (N.to_nat (a_alc_off a)) (N.to_nat (a_payload_off a))).

(* ---------- the observation the harness makes of the parser ---------- *)
Definition ss_obs (s : option scheme_specific) : option (N * N * N * N) :=
  match s with
  | None => None
  | Some (SSReedSolomon m g) => Some (0, m, g, 0)
  | Some (SSRaptorQ z n al) => Some (1, z, n, al)
  | Some (SSRaptor z n al) => Some (2, z, n, al)
  end.
Definition oti_observation (o : oti) (tl : N) : oti_obs :=
  {| ob_fec := fec_code (o_fec o); ob_inst := o_inst o; ob_B := o_B o; ob_E := o_E o;
     ob_parity := o_parity o; ob_ss := ss_obs (o_ss o); ob_L := tl |}.

(* the OTI handed to parse_payload_id: the packet's own (EXT_FTI) if present, else a session
   OTI for the packet's codepoint (for GF(2^m): the session's m) *)
Definition session_oti (f : fec_id) (m_session : N) : oti :=
  {| o_fec := f; o_inst := 0; o_B := 64; o_E := 1024; o_parity := 0;
     o_ss := match f with RS2m => Some (SSReedSolomon m_session 1) | _ => None end;
     o_inband_fti := false |}.

Definition observe_parse (m_session : N) (data : list N) : res parse_obs :=
  a <-- parse_alc_pkt data ;;
  match fec_of_code (lh_cp (a_lct a)) with
  | None => Err
  | Some f =>
    let o := match a_oti a with Some o => o | None => session_oti f m_session end in
    Ok {| po_cci := lh_cci (a_lct a); po_tsi := lh_tsi (a_lct a); po_toi := lh_toi (a_lct a);
          po_cp := lh_cp (a_lct a); po_co := lh_close_object (a_lct a); po_cs := lh_close_session (a_lct a);
          po_fdt := a_fdt a; po_cenc := a_cenc a;
          po_fti := match a_oti a, a_transfer_length a with
                    | Some o', Some tl => Some (oti_observation o' tl) | _, _ => None end;
          po_sct := get_sender_current_time data a;
          po_pid := parse_payload_id data a o;
          po_payload_off := a_payload_off a |}
  end.
