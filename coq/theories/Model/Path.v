(* Model of /repo/src/receiver/writer/objectwriterfs.rs (ObjectWriterFS: open / write / complete /
   error / interrupted and the bookkeeping of [destination] and [writer]) together with the
   Unix semantics of the std::path operations it uses: Path::components, PathBuf::join,
   Path::parent, str::strip_prefix('/').
   Definitions only; proofs are in Proofs/PathProofs.v.

   Strings are lists of code units (N); only '/' (47) and '.' (46) are ever inspected, so the
   model does not depend on the encoding (the Rust code works on UTF-8 bytes, '/' and '.' are
   single bytes that never occur inside a multi-byte sequence).

   The [url] crate is NOT modelled: the outcome of [url::Url::parse] / [Url::path] is an
   argument ([url_outcome]) over which every theorem quantifies.  File-system calls are not
   modelled either: whether create_dir_all / File::create succeed is an argument of the
   [Open] operation ([fsenv]); the writer emits the list of file-system [effect]s it performs. *)
From Coq Require Export List NArith Bool.
Export ListNotations.
Open Scope bool_scope.
Open Scope N_scope.

Definition str := list N.
Definition slash : N := 47.
Definition dot : N := 46.

Fixpoint str_eqb (a b : str) : bool :=
  match a, b with
  | [], [] => true
  | x :: a', y :: b' => (x =? y) && str_eqb a' b'
  | _, _ => false
  end.

(* ---------------------------------------------------------------- std::path on Unix *)

(* the pieces between separators (std::path scans for b'/'); never the empty list *)
Fixpoint split_slash (s : str) : list str :=
  match s with
  | [] => [[]]
  | c :: r =>
    if c =? slash then [] :: split_slash r
    else match split_slash r with
         | h :: t => (c :: h) :: t
         | [] => [[c]]
         end
  end.

Inductive comp := RootDir | CurDir | ParentDir | Normal (s : str).

(* Components::parse_single_component: "" and "." are skipped, ".." is ParentDir *)
Definition comp_of_piece (s : str) : list comp :=
  match s with
  | [] => []
  | _ => if str_eqb s [dot] then []
         else if str_eqb s [dot; dot] then [ParentDir]
         else [Normal s]
  end.

(* Path::has_root = is_absolute on Unix *)
Definition has_root (p : str) : bool :=
  match p with c :: _ => c =? slash | [] => false end.

(* Components::include_cur_dir: a leading "." (alone or followed by '/') of a relative path *)
Definition include_cur_dir (p : str) : bool :=
  if has_root p then false
  else match p with
       | [c] => c =? dot
       | c :: d :: _ => (c =? dot) && (d =? slash)
       | [] => false
       end.

Definition head_comps (p : str) : list comp :=
  if has_root p then [RootDir] else if include_cur_dir p then [CurDir] else [].

(* Path::components().collect() *)
Definition components (p : str) : list comp :=
  head_comps p ++ flat_map comp_of_piece (split_slash p).

Fixpoint last_opt {A} (l : list A) : option A :=
  match l with [] => None | [x] => Some x | _ :: r => last_opt r end.

(* PathBuf::push / Path::join on Unix: an absolute right operand replaces the left one;
   otherwise a separator is added unless the left one is empty or already ends with one *)
Definition need_sep (base : str) : bool :=
  match last_opt base with Some c => negb (c =? slash) | None => false end.

Definition join (base path : str) : str :=
  if has_root path then path
  else base ++ (if need_sep base then [slash] else []) ++ path.

(* Path::parent, on components: None for "" and for a path ending in the root *)
Definition parent_comps (cs : list comp) : option (list comp) :=
  match rev cs with
  | [] => None
  | RootDir :: _ => None
  | _ :: r => Some (rev r)
  end.

(* str::strip_prefix('/').unwrap_or(self): exactly one leading '/' is removed *)
Definition strip_slash (p : str) : str :=
  match p with
  | c :: r => if c =? slash then r else p
  | [] => []
  end.

(* ---------------------------------------------------------------- objectwriterfs.rs open(): the path *)

(* what url::Url::parse(content_location) returned; for Ok the value of Url::path() *)
Inductive url_outcome :=
| UrlOk (path : str)
| UrlRelativeWithoutBase
| UrlCannotBeABaseBase
| UrlOtherError.

(* objectwriterfs.rs:100-118 *)
Definition content_location_path (loc : str) (u : url_outcome) : option str :=
  match u with
  | UrlOk p => Some p
  | UrlRelativeWithoutBase => Some loc
  | UrlCannotBeABaseBase => Some loc
  | UrlOtherError => None
  end.

(* objectwriterfs.rs:119-122 as found (before fixes/D11): None = open returns Err *)
Definition map_path_unfixed (dest loc : str) (u : url_outcome) : option str :=
  match content_location_path loc u with
  | None => None
  | Some p => Some (join dest (strip_slash p))
  end.

(* the check added by fixes/D11-fs-writer-confine-destination.patch: every component of the
   relative path is Normal or CurDir and there is at least one Normal component *)
Definition comp_allowed (c : comp) : bool :=
  match c with Normal _ => true | CurDir => true | _ => false end.
Definition is_normal (c : comp) : bool :=
  match c with Normal _ => true | _ => false end.
Definition rel_ok (rel : str) : bool :=
  forallb comp_allowed (components rel) && existsb is_normal (components rel).

(* objectwriterfs.rs open(), path computation of the patched code *)
Definition map_path (dest loc : str) (u : url_outcome) : option str :=
  match content_location_path loc u with
  | None => None
  | Some p =>
    let rel := strip_slash p in
    if rel_ok rel then Some (join dest rel) else None
  end.

(* ---------------------------------------------------------------- the writer object *)

(* [writer]: path at which the File inside the BufWriter was created; [destination]: the path
   remembered for removal *)
Record wstate := { destination : option str; writer : option str }.
Definition winit : wstate := {| destination := None; writer := None |}.

(* environment of one open(): parent.is_dir(), result of create_dir_all, result of File::create *)
Record fsenv := { parent_is_dir : bool; mkdir_all_ok : bool; create_ok : bool }.

Inductive wop := Open (e : fsenv) | Write (ok : bool) | Complete | Error | Interrupted.

(* file-system effects, in program order.  EMkdirAll is emitted when create_dir_all is called
   (it may create any missing directory among the non-empty prefixes of [dir], also when it
   fails); ECreate when File::create succeeded (create + truncate); EWrite when buffered data
   may reach the open file (write_all, flush, drop of the BufWriter); ERemove for remove_file. *)
Inductive effect :=
| EMkdirAll (dir : list comp)
| ECreate (p : str)
| EWrite (p : str)
| ERemove (p : str).

Inductive wres := ROk | RErr.

Definition flush_of (w : option str) : list effect :=
  match w with Some q => [EWrite q] | None => [] end.

(* [mp] is the result of the path computation for this writer's content location *)
Definition wstep (mp : option str) (s : wstate) (o : wop) : wstate * list effect * wres :=
  match o with
  | Open e =>
    match mp with
    | None => (s, [], RErr)                                       (* :112 / the added check *)
    | Some p =>
      match parent_comps (components p) with
      | Some d =>
        if parent_is_dir e then
          if create_ok e
          then ({| destination := Some p; writer := Some p |}, [ECreate p] ++ flush_of (writer s), ROk)
          else (s, [], RErr)
        else if mkdir_all_ok e then
          if create_ok e
          then ({| destination := Some p; writer := Some p |},
                [EMkdirAll d; ECreate p] ++ flush_of (writer s), ROk)
          else (s, [EMkdirAll d], RErr)
        else (s, [EMkdirAll d], RErr)                             (* :133 `?` *)
      | None =>
        if create_ok e
        then ({| destination := Some p; writer := Some p |}, [ECreate p] ++ flush_of (writer s), ROk)
        else (s, [], RErr)
      end
    end
  | Write ok =>
    match writer s with
    | None => (s, [], ROk)                                        (* :146 *)
    | Some q => (s, [EWrite q], if ok then ROk else RErr)
    end
  | Complete =>
    match writer s with
    | None => (s, [], ROk)                                        (* :166 *)
    | Some q => ({| destination := None; writer := None |}, [EWrite q], ROk)
    end
  | Error | Interrupted =>
    ({| destination := None; writer := None |},
     flush_of (writer s) ++
     match destination s with Some p => [ERemove p] | None => [] end, ROk)
  end.

Fixpoint wrun (mp : option str) (s : wstate) (ops : list wop) : list effect :=
  match ops with
  | [] => []
  | o :: r => let '(s', ef, _) := wstep mp s o in ef ++ wrun mp s' r
  end.

Fixpoint wfinal (mp : option str) (s : wstate) (ops : list wop) : wstate :=
  match ops with
  | [] => s
  | o :: r => let '(s', _, _) := wstep mp s o in wfinal mp s' r
  end.

(* results returned to the caller, one per operation *)
Fixpoint wresults (mp : option str) (s : wstate) (ops : list wop) : list wres :=
  match ops with
  | [] => []
  | o :: r => let '(s', _, x) := wstep mp s o in x :: wresults mp s' r
  end.

(* ---------------------------------------------------------------- lexical path walk and predicted changes *)

(* where a component list leads from the directory [st] (list of names below the root) when no
   symbolic link is involved and every directory walked through exists *)
Fixpoint walk (st : list str) (cs : list comp) : list str :=
  match cs with
  | [] => st
  | RootDir :: r => walk [] r
  | CurDir :: r => walk st r
  | ParentDir :: r => walk (removelast st) r
  | Normal s :: r => walk (st ++ [s]) r
  end.

(* non-empty prefixes, shortest first *)
Fixpoint prefixes {A} (l : list A) : list (list A) :=
  match l with
  | [] => []
  | x :: r => [x] :: map (cons x) (prefixes r)
  end.

Fixpoint path_eqb (a b : list str) : bool :=
  match a, b with
  | [], [] => true
  | x :: a', y :: b' => str_eqb x y && path_eqb a' b'
  | _, _ => false
  end.
Definition pmem (p : list str) (l : list (list str)) : bool := existsb (path_eqb p) l.

(* kinds of observed change: 0 directory created, 1 file created or content changed, 2 removed *)
Definition change := (N * list str)%type.

Definition new_dirs (cwd : list str) (pre_dirs : list (list str)) (e : effect) : list change :=
  match e with
  | EMkdirAll d =>
    flat_map (fun q => let r := walk cwd q in if pmem r pre_dirs then [] else [(0, r)]) (prefixes d)
  | _ => []
  end.

(* the file paths created or removed, resolved, in order *)
Definition file_event (cwd : list str) (e : effect) : list (bool * list str) :=
  match e with
  | ECreate p => [(true, walk cwd (components p))]
  | ERemove p => [(false, walk cwd (components p))]
  | _ => []
  end.

(* last event on path r: Some true = exists with new content, Some false = removed *)
Fixpoint last_event (r : list str) (evs : list (bool * list str)) (acc : option bool) : option bool :=
  match evs with
  | [] => acc
  | (b, q) :: t => last_event r t (if path_eqb q r then Some b else acc)
  end.

Definition file_changes (pre_files : list (list str)) (evs : list (bool * list str)) : list change :=
  flat_map (fun ev : bool * list str =>
              let r := snd ev in
              match last_event r evs None with
              | Some true => [(1, r)]
              | Some false => if pmem r pre_files then [(2, r)] else []
              | None => []
              end) evs.

(* net change of the tree predicted from the effects (every effect assumed to have succeeded) *)
Definition predict (cwd : list str) (pre_dirs pre_files : list (list str)) (efs : list effect) : list change :=
  flat_map (new_dirs cwd pre_dirs) efs ++ file_changes pre_files (flat_map (file_event cwd) efs).
