(* Model of the sender's control plane:
     /repo/src/sender/filedesc.rs   (TransferInfo, FileDesc eligibility / pacing / lifecycle)
     /repo/src/sender/fdt.rs        (queues, publish, FDT instance ids, republish, transfer_done)
     /repo/src/sender/sendersession.rs (run loop)
     /repo/src/sender/sender.rs     (read, priority queues, round robin)
   The block encoder is abstracted to a packet counter (its behaviour is the subject of
   Model/BlockEnc.v and Properties/C08.v: an uninterrupted transfer emits exactly its shards,
   the close flag on the last one iff closable; a forced read emits one flagged packet and stops).
   Time is Z nanoseconds.  Oracles (function arguments): [fdt_npk id] packets of FDT instance id,
   [fdt_ok id] whether publishing instance id succeeds (FileDesc::new for the XML), [divf d n]
   = Duration::div_f64 (None = panic). Definitions only. *)
From Coq Require Export List NArith ZArith Lia Bool.
Export ListNotations.
Open Scope bool_scope.
Open Scope N_scope.

Inductive carousel := CNone | CDelay (d : Z) | CInterval (d : Z).
Inductive target := TNone | TFast | TDuration (d : Z) | TTime (t : Z).

Record odesc := mk_odesc {
  o_toi : N; o_prio : N;
  o_npk : nat;            (* encoding symbols of one complete transfer (0 = empty object) *)
  o_nsrc : N;             (* ceil(L/E): the packet count used for pacing *)
  o_max : N;              (* max_transfer_count *)
  o_car : carousel; o_target : target; o_allow_stop : bool;
  o_fdtid : option N;     (* Some id for an FDT instance *)
  o_listing : list N      (* FDT instance: the TOIs it lists *)
}.

Record tinfo := mk_tinfo {
  t_transferring : bool; t_count : N; t_total : N;
  t_last_end : option Z; t_last_start : option Z;
  t_next_ts : option Z; t_tick : option Z; t_start_time : option Z }.

Record fdesc := mk_fdesc { f_o : odesc; f_pub : bool; f_t : tinfo }.

(* abstract BlockEncoder *)
Record enc := mk_enc { e_left : nat; e_sent : N; e_stopped : bool; e_closable : bool }.

Definition enc_read (force : bool) (e : enc) : option bool * enc :=   (* Some close_flag *)
  if e_stopped e then (None, e)
  else
    let stopped := force in
    match e_left e with
    | O => if e_sent e =? 0 then (Some true, mk_enc O 1 stopped (e_closable e))
           else (None, mk_enc O (e_sent e) stopped (e_closable e))
    | S l => (Some (force || (e_closable e && Nat.eqb l 0)),
              mk_enc l (e_sent e + 1) stopped (e_closable e))
    end.

Record session := mk_session { ss_prio : N; ss_fdt_only : bool; ss_file : option nat; ss_enc : option enc }.

Record squeue := mk_squeue { q_prio : N; q_index : nat; q_sessions : list session }.

Inductive event := EvStart (toi : N) | EvStop (toi : N).

Record st := mk_st {
  objs : list fdesc;            (* every FileDesc ever created, by allocation index (Arc identity) *)
  files : list nat;             (* Fdt.files (keyed by TOI) *)
  queue : list nat;             (* files_transfer_queue *)
  fdtq : list nat;              (* fdt_transfer_queue *)
  cur_fdt : option nat;         (* current_fdt_transfer *)
  complete : bool;
  fdtid : N;
  last_publish : option Z;
  full_fdt : bool;              (* FDTPublishMode::FullFDT *)
  fdt_duration : Z;
  fdt_car : carousel;
  fdt_session : session;
  squeues : list squeue;        (* ascending priority key *)
  evlog : list event
}.

(* ---------- record updates ---------- *)
Definition set_objs (s : st) (o : list fdesc) : st :=
  mk_st o (files s) (queue s) (fdtq s) (cur_fdt s) (complete s) (fdtid s) (last_publish s)
        (full_fdt s) (fdt_duration s) (fdt_car s) (fdt_session s) (squeues s) (evlog s).
Definition set_files (s : st) (x : list nat) : st :=
  mk_st (objs s) x (queue s) (fdtq s) (cur_fdt s) (complete s) (fdtid s) (last_publish s)
        (full_fdt s) (fdt_duration s) (fdt_car s) (fdt_session s) (squeues s) (evlog s).
Definition set_queue (s : st) (x : list nat) : st :=
  mk_st (objs s) (files s) x (fdtq s) (cur_fdt s) (complete s) (fdtid s) (last_publish s)
        (full_fdt s) (fdt_duration s) (fdt_car s) (fdt_session s) (squeues s) (evlog s).
Definition set_fdtq (s : st) (x : list nat) : st :=
  mk_st (objs s) (files s) (queue s) x (cur_fdt s) (complete s) (fdtid s) (last_publish s)
        (full_fdt s) (fdt_duration s) (fdt_car s) (fdt_session s) (squeues s) (evlog s).
Definition set_cur_fdt (s : st) (x : option nat) : st :=
  mk_st (objs s) (files s) (queue s) (fdtq s) x (complete s) (fdtid s) (last_publish s)
        (full_fdt s) (fdt_duration s) (fdt_car s) (fdt_session s) (squeues s) (evlog s).
Definition set_fdt_session (s : st) (x : session) : st :=
  mk_st (objs s) (files s) (queue s) (fdtq s) (cur_fdt s) (complete s) (fdtid s) (last_publish s)
        (full_fdt s) (fdt_duration s) (fdt_car s) x (squeues s) (evlog s).
Definition set_squeues (s : st) (x : list squeue) : st :=
  mk_st (objs s) (files s) (queue s) (fdtq s) (cur_fdt s) (complete s) (fdtid s) (last_publish s)
        (full_fdt s) (fdt_duration s) (fdt_car s) (fdt_session s) x (evlog s).
Definition log_ev (s : st) (e : event) : st :=
  mk_st (objs s) (files s) (queue s) (fdtq s) (cur_fdt s) (complete s) (fdtid s) (last_publish s)
        (full_fdt s) (fdt_duration s) (fdt_car s) (fdt_session s) (squeues s) (evlog s ++ [e]).

Fixpoint upd_nth {A} (i : nat) (f : A -> A) (l : list A) : list A :=
  match l, i with
  | [], _ => []
  | x :: r, O => f x :: r
  | x :: r, S j => x :: upd_nth j f r
  end.

Definition dummy_o : odesc := mk_odesc 0 0 0 0 0 CNone TNone false None [].
Definition dummy_t : tinfo := mk_tinfo false 0 0 None None None None None.
Definition dummy_f : fdesc := mk_fdesc dummy_o false dummy_t.
Definition obj (s : st) (id : nat) : fdesc := nth id (objs s) dummy_f.
Definition upd_t (s : st) (id : nat) (g : tinfo -> tinfo) : st :=
  set_objs s (upd_nth id (fun f => mk_fdesc (f_o f) (f_pub f) (g (f_t f))) (objs s)).
Definition set_pub (f : fdesc) : fdesc := mk_fdesc (f_o f) true (f_t f).

(* ---------- TransferInfo / FileDesc (filedesc.rs) ---------- *)
Definition is_some {A} (o : option A) : bool := match o with Some _ => true | None => false end.
Definition car_some (c : carousel) : bool := match c with CNone => false | _ => true end.

Section Oracles.
  Variable fdt_npk : N -> nat.
  Variable fdt_ok : N -> bool.
  Variable divf : Z -> N -> option Z.

  (* TransferInfo::init; None = panic (Duration::div_f64 by 0 packets) *)
  Definition t_init (o : odesc) (now : Z) (t : tinfo) : option tinfo :=
    let tick : option (option Z) :=
      match o_target o with
      | TNone | TFast => Some None
      | TDuration d => match divf d (N.max 1 (o_nsrc o)) with Some k => Some (Some k) | None => None end
      | TTime tm => match divf (Z.max 0 (tm - now)) (N.max 1 (o_nsrc o)) with Some k => Some (Some k) | None => None end
      end in
    match tick with
    | None => None
    | Some tk =>
      let next := if is_some tk then Some now else t_next_ts t in
      let count := if (t_count t =? o_max o) && car_some (o_car o) then 0 else t_count t in
      Some (mk_tinfo true count (t_total t) (t_last_end t) (Some now) next tk (t_start_time t))
    end.

  Definition t_done (now : Z) (t : tinfo) : tinfo :=
    mk_tinfo false (t_count t + 1) (t_total t + 1) (Some now) (t_last_start t) (t_next_ts t) (t_tick t) (t_start_time t).

  Definition t_tickf (t : tinfo) : tinfo :=
    match t_tick t, t_next_ts t with
    | Some k, Some n => mk_tinfo (t_transferring t) (t_count t) (t_total t) (t_last_end t) (t_last_start t)
                                 (Some (n + k)%Z) (t_tick t) (t_start_time t)
    | _, _ => t
    end.

  Definition t_reset (ts : option Z) (t : tinfo) : tinfo :=
    mk_tinfo (t_transferring t) (t_count t) (t_total t) None None (t_next_ts t) (t_tick t)
             (if is_some ts then ts else t_start_time t).

  Definition should_transfer_now (f : fdesc) (prio : N) (full : bool) (now : Z) : bool :=
    let o := f_o f in let t := f_t f in
    if negb (o_prio o =? prio) then false
    else if full && negb (f_pub f) then false
    else if match t_start_time t with Some stt => (now <? stt)%Z | None => false end then false
    else if t_transferring t then false
    else if t_count t <? o_max o then true
    else match o_car o, t_last_end t, t_last_start t with
         | CNone, _, _ => true
         | _, None, _ => true
         | _, _, None => true
         | CDelay d, Some le, Some _ => (d <? Z.max 0 (now - le))%Z
         | CInterval d, Some _, Some ls => (d <? Z.max 0 (now - ls))%Z
         end.

  Definition is_expired (f : fdesc) : bool :=
    if t_count (f_t f) <? o_max (f_o f) then false else negb (car_some (o_car (f_o f))).
  Definition is_last_transfer (f : fdesc) : bool :=
    if car_some (o_car (f_o f)) then false else o_max (f_o f) =? t_count (f_t f) + 1.
  Definition can_be_stopped (f : fdesc) : bool := o_allow_stop (f_o f) || (0 <? t_total (f_t f)).

  (* ---------- Fdt (fdt.rs) ---------- *)
  Definition toi_of (s : st) (id : nat) : N := o_toi (f_o (obj s id)).
  Definition find_file (s : st) (toi : N) : option nat :=
    find (fun id => toi_of s id =? toi) (files s).
  Definition is_added (s : st) (toi : N) : bool := is_some (find_file s toi).

  (* Fdt::publish; returns (ok, state) *)
  Definition publish (now : Z) (s : st) : bool * st :=
    if fdt_ok (fdtid s) then
      let listed := if full_fdt s then files s
                    else filter (fun id => t_transferring (f_t (obj s id))) (files s) in
      let o := mk_odesc 0 0 (fdt_npk (fdtid s)) 0 1 (fdt_car s) TNone false (Some (fdtid s))
                        (map (toi_of s) listed) in
      let id := length (objs s) in
      let objs1 := objs s ++ [mk_fdesc o true dummy_t] in
      let objs2 := fold_left (fun ob fid => upd_nth fid set_pub ob) (files s) objs1 in
      (true,
       mk_st objs2 (files s) (queue s) (fdtq s ++ [id]) (cur_fdt s) (complete s)
             ((fdtid s + 1) mod 1048576) (Some now) (full_fdt s) (fdt_duration s) (fdt_car s)
             (fdt_session s) (squeues s) (evlog s))
    else (false, s).

  Definition current_fdt_will_expire (now : Z) (s : st) : bool :=
    match fdtq s with
    | _ :: _ => false
    | [] =>
      match cur_fdt s, last_publish s with
      | None, _ => true
      | _, None => true
      | Some _, Some lp =>
        let elapsed := Z.max 0 (now - lp) in
        let d := fdt_duration s in
        if (30000000000 <? d)%Z then (d - 5000000000 <? elapsed)%Z
        else if (10000000000 <? d)%Z then (d - 1000000000 <? elapsed)%Z
        else (d <=? elapsed)%Z
      end
    end.

  Inductive res (A : Type) := ROk (a : A) | RPanicked.
  Arguments ROk {A}. Arguments RPanicked {A}.

  (* transfer_started: TransferInfo::init on the shared FileDesc *)
  Definition transfer_started (id : nat) (now : Z) (s : st) : res st :=
    match t_init (f_o (obj s id)) now (f_t (obj s id)) with
    | None => RPanicked
    | Some t' => ROk (upd_t s id (fun _ => t'))
    end.

  Definition get_next_fdt_transfer (now : Z) (s : st) : res (option nat * st) :=
    if match cur_fdt s with Some c => t_transferring (f_t (obj s c)) | None => false end
    then ROk (None, s)
    else
      let s1 := if current_fdt_will_expire now s then snd (publish now s) else s in
      let s2 := match fdtq s1 with
                | [] => s1
                | x :: r => set_cur_fdt (set_fdtq s1 r) (Some x)
                end in
      match cur_fdt s2 with
      | None => ROk (None, s2)
      | Some c =>
        if should_transfer_now (obj s2 c) 0 (full_fdt s2) now then
          match transfer_started c now s2 with
          | RPanicked => RPanicked
          | ROk s3 => ROk (Some c, s3)
          end
        else ROk (None, s2)
      end.

  Fixpoint find_remove (p : nat -> bool) (l : list nat) : option (nat * list nat) :=
    match l with
    | [] => None
    | x :: r => if p x then Some (x, r)
                else match find_remove p r with
                     | Some (y, r') => Some (y, x :: r')
                     | None => None
                     end
    end.

  Definition get_next_file_transfer (prio : N) (now : Z) (s : st) : res (option nat * st) :=
    match find_remove (fun id => should_transfer_now (obj s id) prio (full_fdt s) now) (queue s) with
    | None => ROk (None, s)
    | Some (id, q') =>
      let s1 := log_ev (set_queue s q') (EvStart (toi_of s id)) in
      match transfer_started id now s1 with
      | RPanicked => RPanicked
      | ROk s2 =>
        let s3 := if full_fdt s2 then s2 else snd (publish now s2) in
        ROk (Some id, s3)
      end
    end.

  Definition remove_toi (s : st) (toi : N) (l : list nat) : list nat :=
    filter (fun id => negb (toi_of s id =? toi)) l.

  Definition transfer_done (id : nat) (now : Z) (s : st) : st :=
    let s1 := upd_t s id (t_done now) in
    let f := obj s1 id in
    if o_toi (f_o f) =? 0 then
      if is_expired f then set_cur_fdt s1 None else s1
    else
      let s2 := log_ev s1 (EvStop (o_toi (f_o f))) in
      if negb (is_added s2 (o_toi (f_o f))) then s2
      else if negb (is_expired f) then set_queue s2 (queue s2 ++ [id])
      else set_files s2 (remove_toi s2 (o_toi (f_o f)) (files s2)).

  (* ---------- SenderSession::run (sendersession.rs) ---------- *)
  Inductive rout := RNothing | RFdt (id : N) (close : bool) | RObj (toi : N) (close : bool) | RPanic | RFuel.

  Definition get_next (ss : session) (now : Z) (s : st) : res (session * st) :=
    let r := if ss_fdt_only ss then get_next_fdt_transfer now s
             else get_next_file_transfer (ss_prio ss) now s in
    match r with
    | RPanicked => RPanicked
    | ROk (None, s1) => ROk (mk_session (ss_prio ss) (ss_fdt_only ss) None None, s1)
    | ROk (Some id, s1) =>
      let e := mk_enc (o_npk (f_o (obj s1 id))) 0 false (is_last_transfer (obj s1 id)) in
      ROk (mk_session (ss_prio ss) (ss_fdt_only ss) (Some id) (Some e), s1)
    end.

  Fixpoint session_run (fuel : nat) (ss : session) (now : Z) (s : st) : rout * session * st :=
    match fuel with
    | O => (RFuel, ss, s)
    | S f =>
      let r := match ss_enc ss with
               | None => get_next ss now s
               | Some _ => ROk (ss, s)
               end in
      match r with
      | RPanicked => (RPanic, ss, s)
      | ROk (ss1, s1) =>
        if negb (ss_fdt_only ss1) && negb (Nat.eqb (length (fdtq s1)) 0) then (RNothing, ss1, s1)
        else
          match ss_enc ss1, ss_file ss1 with
          | Some e, Some id =>
            let fl := obj s1 id in
            let must_stop := negb (ss_fdt_only ss1) && can_be_stopped fl && negb (is_added s1 (o_toi (f_o fl))) in
            if match t_next_ts (f_t fl) with Some ts => (now <? ts)%Z | None => false end
            then (RNothing, ss1, s1)
            else
              match enc_read must_stop e with
              | (None, _) =>
                let s2 := transfer_done id now s1 in
                session_run f (mk_session (ss_prio ss1) (ss_fdt_only ss1) None None) now s2
              | (Some close, e') =>
                let s2 := upd_t s1 id t_tickf in
                let out := match o_fdtid (f_o fl) with
                           | Some fid => RFdt fid close
                           | None => RObj (o_toi (f_o fl)) close
                           end in
                (out, mk_session (ss_prio ss1) (ss_fdt_only ss1) (Some id) (Some e'), s2)
              end
          | _, _ => (RNothing, ss1, s1)
          end
      end
    end.

  (* ---------- Sender::read (sender.rs) ---------- *)
  Definition run_fdt_session (now : Z) (s : st) : rout * st :=
    let '(o, ss', s') := session_run 4 (fdt_session s) now s in
    (o, set_fdt_session s' ss').

  (* read_priority_queue: visit sessions round-robin starting at q_index, at most once each *)
  Fixpoint rr_loop (n : nat) (q : squeue) (orig : nat) (now : Z) (s : st) : rout * squeue * st :=
    match n with
    | O => (RNothing, q, s)
    | S n' =>
      match nth_error (q_sessions q) (q_index q) with
      | None => (RPanic, q, s)      (* sessions.get_mut(index).unwrap() *)
      | Some ss =>
        let '(o, ss', s') := session_run 4 ss now s in
        let idx1 := S (q_index q) in
        let idx2 := if Nat.eqb idx1 (length (q_sessions q)) then 0%nat else idx1 in
        let q' := mk_squeue (q_prio q) idx2 (upd_nth (q_index q) (fun _ => ss') (q_sessions q)) in
        match o with
        | RNothing => if Nat.eqb idx2 orig then (RNothing, q', s') else rr_loop n' q' orig now s'
        | _ => (o, q', s')
        end
      end
    end.

  Definition read_priority_queue (q : squeue) (now : Z) (s : st) : rout * squeue * st :=
    rr_loop (length (q_sessions q)) q (q_index q) now s.

  Fixpoint read_queues (done todo : list squeue) (now : Z) (s : st) : rout * list squeue * st :=
    match todo with
    | [] => (RNothing, done, s)
    | q :: r =>
      let '(o, q', s') := read_priority_queue q now s in
      match o with
      | RNothing => read_queues (done ++ [q']) r now s'
      | _ => (o, done ++ q' :: r, s')
      end
    end.

  Definition sender_read (now : Z) (s : st) : rout * st :=
    let (o1, s1) := run_fdt_session now s in
    match o1 with
    | RNothing =>
      let '(o2, qs, s2) := read_queues [] (squeues s1) now s1 in
      let s3 := set_squeues s2 qs in
      match o2 with
      | RNothing => run_fdt_session now s3
      | _ => (o2, s3)
      end
    | _ => (o1, s1)
    end.

  (* ---------- API operations ---------- *)
  Inductive op :=
  | OpAdd (o : odesc) (start : option Z) (accepted : bool)   (* accepted = FileDesc::new / priority ok (oracle: C01/C08) *)
  | OpPublish (now : Z)
  | OpRemove (toi : N)
  | OpTrigger (toi : N) (ts : option Z)
  | OpSetComplete
  | OpRead (now : Z).

  Inductive opout :=
  | OutAdd (ok : bool) | OutPublish (ok : bool) | OutRemove (ok : bool) | OutTrigger (ok : bool)
  | OutUnit | OutRead (r : rout).

  Definition has_queue (s : st) (prio : N) : bool := existsb (fun q => q_prio q =? prio) (squeues s).

  Definition step (s : st) (o : op) : opout * st :=
    match o with
    | OpAdd od start accepted =>
      if negb (has_queue s (o_prio od)) then (OutAdd false, s)
      else if complete s then (OutAdd false, s)
      else if negb accepted then (OutAdd false, s)
      else
        let id := length (objs s) in
        let t := mk_tinfo false 0 0 None None None None start in
        let s1 := set_objs s (objs s ++ [mk_fdesc od false t]) in
        (OutAdd true, set_queue (set_files s1 (files s1 ++ [id])) (queue s1 ++ [id]))
    | OpPublish now => let (ok, s') := publish now s in (OutPublish ok, s')
    | OpRemove toi =>
      if is_added s toi
      then (OutRemove true, set_queue (set_files s (remove_toi s toi (files s))) (remove_toi s toi (queue s)))
      else (OutRemove false, s)
    | OpTrigger toi ts =>
      match find_file s toi with
      | None => (OutTrigger false, s)
      | Some id => if t_transferring (f_t (obj s id)) then (OutTrigger true, s)
                   else (OutTrigger true, upd_t s id (t_reset ts))
      end
    | OpSetComplete =>
      (OutUnit, mk_st (objs s) (files s) (queue s) (fdtq s) (cur_fdt s) true (fdtid s) (last_publish s)
                      (full_fdt s) (fdt_duration s) (fdt_car s) (fdt_session s) (squeues s) (evlog s))
    | OpRead now => let (r, s') := sender_read now s in (OutRead r, s')
    end.

  Fixpoint run_ops (s : st) (ops : list op) : list opout * st :=
    match ops with
    | [] => ([], s)
    | o :: r => let (x, s1) := step s o in let (xs, s2) := run_ops s1 r in (x :: xs, s2)
    end.
End Oracles.

Definition init_st (full : bool) (duration : Z) (car : carousel) (start_id : N) (queues : list (N * nat)) : st :=
  mk_st [] [] [] [] None false start_id None full duration car
        (mk_session 0 true None None)
        (map (fun pq => mk_squeue (fst pq) 0
                         (repeat (mk_session (fst pq) false None None) (Nat.max 1 (snd pq)))) queues)
        [].

(* observable summary of the FDT content after an operation: (toi, total_nb_transfer) of every
   object in Fdt.files *)
Definition files_view (s : st) : list (N * N) :=
  map (fun id => (o_toi (f_o (obj s id)), t_total (f_t (obj s id)))) (files s).
