(* Model of the CONTENT of an FDT instance as the sender builds it:
     /repo/src/sender/fdt.rs        get_fdt_instance (74-139), to_xml (383-404)
     /repo/src/sender/filedesc.rs   FileDesc::new (OTI of the object, Z of Raptor/RaptorQ: 113-213),
                                    to_file_xml (367-435)
     /repo/src/sender/objectdesc.rs create_fdt_cache_control (38-60)
     /repo/src/common/oti.rs        get_attributes, scheme_specific_info, *SchemeSpecific::scheme_specific
                                    (base64 STANDARD encode / decode as Gallina functions)
   on top of the control model Model/SenderCtl.v, which decides WHICH objects an instance lists
   ([o_listing] of the FDT object created by [publish]) and which id it gets.  The content is
   expressed in the abstract syntax of Model/Xml.v ([xfdt]); the model emits it with the reference
   printer [print_fdt] - quick-xml's serializer is not modelled (the XML flute really emits is
   validated instance by instance with the reference parser).
   The model is that of the code with fixes/D18 (per-object groups written) and fixes/D31 (Raptor:
   per-file OTI with the object's Z) applied; [to_file_xml_unfixed] is the code before them.
   Time is Z nanoseconds since the Unix epoch; Definitions only. *)
From FluteV Require Export Model.Xml Model.SenderCtl.
From FluteV Require Import Model.Partition Model.Ntp Model.Toi.
Open Scope char_scope.
Open Scope bool_scope.
Open Scope N_scope.

(* ---------- common/oti.rs ---------- *)
Inductive scheme :=
| SchNone
| SchRS (m g : N)                (* ReedSolomonGF2MSchemeSpecific  m, g : u8 *)
| SchRaptorQ (z n al : N)        (* Z : u8, N : u16, Al : u8 *)
| SchRaptor (z n al : N).        (* Z : u16, N : u8, Al : u8 *)

Record oti := mk_oti {
  fec_id : N;        (* FECEncodingID as u8: 0 NoCode, 1 Raptor, 2 RS GF(2^m), 5 RS GF(2^8), 6 RaptorQ, 129 RS under-specified *)
  fec_inst : N;      (* u16 *)
  max_sbl : N;       (* maximum_source_block_length : u32 *)
  esl : N;           (* encoding_symbol_length : u16 *)
  parity : N;        (* max_number_of_parity_symbols : u32 *)
  sch : scheme }.

(* base64, standard alphabet with padding (base64::engine::general_purpose::STANDARD) *)
Definition b64_char (v : N) : ascii :=
  if v <? 26 then chr (65 + v) else if v <? 52 then chr (97 + (v - 26))
  else if v <? 62 then chr (48 + (v - 52)) else if v =? 62 then "+" else "/".

Fixpoint b64 (l : list N) : str :=
  match l with
  | [] => []
  | [a] => [b64_char (a / 4); b64_char ((a mod 4) * 16); "="; "="]
  | [a; b] => [b64_char (a / 4); b64_char ((a mod 4) * 16 + b / 16); b64_char ((b mod 16) * 4); "="]
  | a :: b :: c :: r =>
    b64_char (a / 4) :: b64_char ((a mod 4) * 16 + b / 16) :: b64_char ((b mod 16) * 4 + c / 64)
    :: b64_char (c mod 64) :: b64 r
  end.

(* ... and its inverse (STANDARD.decode: padding required, trailing bits must be zero) *)
Definition b64_val (c : ascii) : option N :=
  let n := code c in
  if (65 <=? n) && (n <=? 90) then Some (n - 65)
  else if (97 <=? n) && (n <=? 122) then Some (n - 71)
  else if (48 <=? n) && (n <=? 57) then Some (n + 4)
  else if n =? 43 then Some 62 else if n =? 47 then Some 63 else None.

Fixpoint b64_decode (s : str) : option (list N) :=
  match s with
  | [] => Some []
  | c0 :: c1 :: c2 :: c3 :: r =>
    match b64_val c0, b64_val c1 with
    | Some v0, Some v1 =>
      let a := v0 * 4 + v1 / 16 in
      if Ascii.eqb c2 "=" then
        if Ascii.eqb c3 "=" && (v1 mod 16 =? 0) && match r with [] => true | _ => false end then Some [a] else None
      else
        match b64_val c2 with
        | Some v2 =>
          let b := (v1 mod 16) * 16 + v2 / 4 in
          if Ascii.eqb c3 "=" then
            if (v2 mod 4 =? 0) && match r with [] => true | _ => false end then Some [a; b] else None
          else
            match b64_val c3, b64_decode r with
            | Some v3, Some t => Some (a :: b :: (v2 mod 4) * 64 + v3 :: t)
            | _, _ => None
            end
        | None => None
        end
    | _, _ => None
    end
  | _ => None
  end.

(* decimal text of an unsigned integer (Display of u8..u128) *)
Definition dec (n : N) : str := map (fun d => chr (48 + d)) (to_decimal n).

(* oti.rs scheme_specific_info *)
Definition scheme_info (o : oti) : option str :=
  if fec_id o =? 2 then match sch o with SchRS m g => Some (b64 [m; g]) | _ => None end
  else if fec_id o =? 6 then
    match sch o with SchRaptorQ z n al => Some (b64 [z; n / 256; n mod 256; al]) | _ => None end
  else if fec_id o =? 1 then
    match sch o with SchRaptor z n al => Some (b64 [z / 256; z mod 256; n; al]) | _ => None end
  else None.

(* oti.rs get_attributes *)
Definition get_attributes (o : oti) : xoti :=
  mk_xoti (Some (dec (fec_id o))) (Some (dec (fec_inst o))) (Some (dec (max_sbl o))) (Some (dec (esl o)))
          (Some (dec (max_sbl o + parity o))) (scheme_info o).

(* filedesc.rs 113-116, 165-213: the OTI a FileDesc transmits with = the per-object OTI or the
   session default, with Z set to the number of source blocks for RaptorQ (must fit u8) and
   Raptor (u16).  None = FileDesc::new fails (object refused) for one of these reasons. *)
Definition nb_blocks (o : oti) (tlen : N) : N :=
  let '(_, _, _, n) := block_partitioning (max_sbl o) tlen (esl o) in N.max 1 n.   (* at least 1, also for an empty object (D25) *)

Definition filedesc_oti (session : oti) (per_object : option oti) (tlen : N) : option oti :=
  let o := match per_object with Some x => x | None => session end in
  if fec_id o =? 6 then
    match sch o with
    | SchRaptorQ _ n al =>
      if nb_blocks o tlen <? 256
      then Some (mk_oti (fec_id o) (fec_inst o) (max_sbl o) (esl o) (parity o) (SchRaptorQ (nb_blocks o tlen) n al))
      else None
    | SchNone => None
    | _ => if nb_blocks o tlen <? 256 then Some o else None
    end
  else if fec_id o =? 1 then
    match sch o with
    | SchRaptor _ n al =>
      if nb_blocks o tlen <? 65536
      then Some (mk_oti (fec_id o) (fec_inst o) (max_sbl o) (esl o) (parity o) (SchRaptor (nb_blocks o tlen) n al))
      else None
    | SchNone => None
    | _ => if nb_blocks o tlen <? 65536 then Some o else None
    end
  else Some o.

(* ---------- what the sender is given for one object ---------- *)
Inductive cachectl := CCNoCache | CCMaxStale | CCExpires (d : Z) | CCExpiresAt (t : Z).

Record fmeta := mk_fmeta {
  m_toi : N;
  m_loc : str;                 (* content_location.to_string() of the url::Url handed to the sender *)
  m_clen : N; m_tlen : N;
  m_ctype : str;
  m_cenc : N;                  (* lct::Cenc: 0 Null, 1 Zlib, 2 Deflate, 3 Gzip *)
  m_md5 : option str;
  m_oti : option oti;          (* TransferConfig.oti *)
  m_cache : option cachectl;
  m_etag : option str;
  m_groups : option (list str) }.

Definition cenc_str (c : N) : option str :=
  if c =? 0 then None else if c =? 1 then Some (lit "zlib") else if c =? 2 then Some (lit "deflate")
  else Some (lit "gzip").

(* (system_time_to_ntp(t).unwrap_or_default() >> 32): NTP seconds, 0 before 1970 *)
Definition ntp_secs (t : Z) : N :=
  match system_time_to_ntp t with Bytes.Ok ntp => N.shiftr ntp 32 | _ => 0 end.

(* objectdesc.rs create_fdt_cache_control: (ntp >> 32) as u32 *)
Definition cache_xml (c : cachectl) (now : Z) : xcache :=
  match c with
  | CCNoCache => XNoCache (lit "true")
  | CCMaxStale => XMaxStale (lit "true")
  | CCExpires d => XExpires (dec (ntp_secs (now + d) mod 4294967296))
  | CCExpiresAt t => XExpires (dec (ntp_secs t mod 4294967296))
  end.

Definition groups_list (g : option (list str)) : list str := match g with Some l => l | None => [] end.

(* filedesc.rs to_file_xml, after fixes/D18 and fixes/D31.  [used] = the FileDesc's own OTI *)
Definition to_file_xml (used : oti) (m : fmeta) (now : Z) : xfile :=
  let attrs :=
    if (fec_id used =? 6) || (fec_id used =? 1) then get_attributes used       (* object dependent Z *)
    else match m_oti m with Some o => get_attributes o | None => empty_xoti end in
  mk_xfile (m_loc m) (dec (m_toi m)) (Some (dec (m_clen m))) (Some (dec (m_tlen m))) (Some (m_ctype m))
           (cenc_str (m_cenc m)) (m_md5 m) attrs (m_etag m)
           (match m_cache m with Some c => Some (cache_xml c now) | None => None end)
           (groups_list (m_groups m)).

(* the same before the two fixes: only RaptorQ gets the FileDesc's OTI, groups are dropped *)
Definition to_file_xml_unfixed (used : oti) (m : fmeta) (now : Z) : xfile :=
  let attrs :=
    if fec_id used =? 6 then get_attributes used
    else match m_oti m with Some o => get_attributes o | None => empty_xoti end in
  mk_xfile (m_loc m) (dec (m_toi m)) (Some (dec (m_clen m))) (Some (dec (m_tlen m))) (Some (m_ctype m))
           (cenc_str (m_cenc m)) (m_md5 m) attrs (m_etag m)
           (match m_cache m with Some c => Some (cache_xml c now) | None => None end)
           [].

(* ---------- the instance (fdt.rs get_fdt_instance) ---------- *)
Record fdt_cfg := mk_fdt_cfg {
  c_oti : oti;                       (* session default OTI *)
  c_groups : option (list str);
  c_full : bool;                     (* FDTPublishMode::FullFDT *)
  c_dur : Z }.                       (* fdt_duration *)

Definition expires_value (now dur : Z) : N := ntp_secs now + Z.to_N (dur / 1000000000).

Definition used_oti (cfg : fdt_cfg) (m : fmeta) : oti :=
  match filedesc_oti (c_oti cfg) (m_oti m) (m_tlen m) with
  | Some o => o
  | None => match m_oti m with Some o => o | None => c_oti cfg end     (* refused objects are never listed *)
  end.

Definition instance_gen (file_xml : oti -> fmeta -> Z -> xfile)
           (cfg : fdt_cfg) (complete : bool) (now : Z) (ms : list fmeta) : xfdt :=
  mk_xfdt (dec (expires_value now (c_dur cfg)))
          (if complete then Some (lit "true") else None)
          (if c_full cfg then Some (lit "true") else None)
          (if (fec_id (c_oti cfg) =? 6) || (fec_id (c_oti cfg) =? 1) then empty_xoti else get_attributes (c_oti cfg))
          (map (fun m => file_xml (used_oti cfg m) m now) ms)
          (groups_list (c_groups cfg)).

Definition get_fdt_instance := instance_gen to_file_xml.

(* before the fixes the instance-level attributes were withheld for RaptorQ only *)
Definition get_fdt_instance_unfixed (cfg : fdt_cfg) (complete : bool) (now : Z) (ms : list fmeta) : xfdt :=
  mk_xfdt (dec (expires_value now (c_dur cfg)))
          (if complete then Some (lit "true") else None)
          (if c_full cfg then Some (lit "true") else None)
          (if fec_id (c_oti cfg) =? 6 then empty_xoti else get_attributes (c_oti cfg))
          (map (fun m => to_file_xml_unfixed (used_oti cfg m) m now) ms)
          (groups_list (c_groups cfg)).

(* Sender::fdt_xml_data / Fdt::to_xml, with the reference printer in place of quick-xml *)
Definition fdt_xml (cfg : fdt_cfg) (complete : bool) (now : Z) (ms : list fmeta) : str :=
  print_fdt (get_fdt_instance cfg complete now ms).

(* ---------- tie to the control model ---------- *)
(* the objects an instance published in state [s] lists (fdt.rs 83-86): the control model keeps
   their TOIs in [o_listing] of the FDT object it creates *)
Definition listed_ids (s : st) : list nat :=
  if full_fdt s then files s else filter (fun id => t_transferring (f_t (obj s id))) (files s).

Definition listed_tois (s : st) : list N := map (fun id => o_toi (f_o (obj s id))) (listed_ids s).

(* metadata is looked up by TOI among what was added *)
Fixpoint find_meta (toi : N) (ms : list fmeta) : option fmeta :=
  match ms with
  | [] => None
  | m :: r => if m_toi m =? toi then Some m else find_meta toi r
  end.

Definition metas_of (tois : list N) (ms : list fmeta) : list fmeta :=
  flat_map (fun t => match find_meta t ms with Some m => [m] | None => [] end) tois.

(* the instance a publication at [now] in control state [s] carries *)
Definition instance_at (cfg : fdt_cfg) (ms : list fmeta) (now : Z) (s : st) : xfdt :=
  get_fdt_instance cfg (complete s) now (metas_of (listed_tois s) ms).

(* the FDT objects of a state, oldest first: (instance id, listed TOIs) *)
Definition instances (s : st) : list (N * list N) :=
  flat_map (fun f => match o_fdtid (f_o f) with Some id => [(id, o_listing (f_o f))] | None => [] end) (objs s).
