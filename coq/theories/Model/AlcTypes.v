(* Input data types of the packet builder (common/oti.rs Oti, FECEncodingID, SchemeSpecific;
   common/pkt.rs Pkt; common/mod.rs Profile).  Types only: shared by the model (Model/Alc.v)
   and by the statement of the property (Spec/C06Spec.v), which uses none of the model's functions. *)
From Coq Require Export ZArith.
From FluteV Require Export Model.Bytes.
Open Scope N_scope.

(* ---------- oti.rs ---------- *)
Inductive fec_id := NoCode | Raptor | RS2m | RS28 | RaptorQ | RS28US.

Definition fec_code (f : fec_id) : N :=
  match f with NoCode => 0 | Raptor => 1 | RS2m => 2 | RS28 => 5 | RaptorQ => 6 | RS28US => 129 end.

Definition fec_of_code (n : N) : option fec_id :=
  if n =? 0 then Some NoCode else if n =? 1 then Some Raptor else if n =? 129 then Some RS28US
  else if n =? 2 then Some RS2m else if n =? 5 then Some RS28 else if n =? 6 then Some RaptorQ
  else None.

Inductive scheme_specific :=
| SSReedSolomon (m g : N)           (* u8, u8 *)
| SSRaptorQ (z n al : N)            (* u8, u16, u8 *)
| SSRaptor (z n al : N).            (* u16, u8, u8 *)

Record oti := {
  o_fec : fec_id;
  o_inst : N;                        (* fec_instance_id : u16 *)
  o_B : N;                           (* maximum_source_block_length : u32 *)
  o_E : N;                           (* encoding_symbol_length : u16 *)
  o_parity : N;                      (* max_number_of_parity_symbols : u32 *)
  o_ss : option scheme_specific;
  o_inband_fti : bool
}.

(* pkt.rs *)
Record pkt := {
  k_payload : list N;
  k_transfer_length : N;             (* u64 *)
  k_esi : N;                         (* u32 *)
  k_sbn : N;                         (* u32 *)
  k_toi : N;                         (* u128 *)
  k_fdt_id : option N;               (* u32 *)
  k_cenc : N;                        (* lct::Cenc as u8 : 0..3 *)
  k_inband_cenc : bool;
  k_close_object : bool;
  k_source_block_length : N;         (* u32 *)
  k_sct : bool                       (* sender_current_time *)
}.


Inductive profile := RFC6726 | RFC3926.

(* what the harness observes of flute's parser for one datagram (parse_alc_pkt, then
   get_sender_current_time and parse_payload_id on its result) *)
Record oti_obs := {
  ob_fec : N; ob_inst : N; ob_B : N; ob_E : N; ob_parity : N;
  ob_ss : option (N * N * N * N);         (* (0,m,g,0) ReedSolomon, (1,Z,N,Al) RaptorQ, (2,Z,N,Al) Raptor *)
  ob_L : N
}.
Record parse_obs := {
  po_cci : N; po_tsi : N; po_toi : N; po_cp : N; po_co : bool; po_cs : bool;
  po_fdt : option (N * N); po_cenc : option N; po_fti : option oti_obs;
  po_sct : res (option N);                (* get_sender_current_time, microseconds *)
  po_pid : res (N * N * option N);        (* parse_payload_id *)
  po_payload_off : N
}.

