(* Model of what flute's RECEIVER reads out of a (parsed) FDT instance for one object and hands to
   the writer builder as ObjectMetadata:
     /repo/src/common/fdtinstance.rs   FdtInstance::get_oti / get_oti_for_file / get_expiration_date,
                                       File::get_oti / get_transfer_length / get_object_cache_control
     /repo/src/receiver/objectreceiver.rs  attach_fdt (292-374), create_meta (376-400)
     /repo/src/common/oti.rs           *SchemeSpecific::decode,   /repo/src/common/lct.rs  Cenc::try_from(&str)
   for an object whose packets carry neither EXT_FTI nor EXT_CENC (everything comes from the FDT).
   The instance is given in the abstract syntax of Model/Xml.v; the typed deserialization that
   serde performs on attribute strings (u8 / u64 / u32 / bool) is modelled by [parse_dec] with a
   range check - a string that does not deserialize makes FdtInstance::parse fail as a whole
   ([MFail]).  base64 decoding is an oracle ([b64_decode]).  Definitions only. *)
From FluteV Require Export Model.Xml Model.FdtInst.
Open Scope char_scope.
Open Scope bool_scope.
Open Scope N_scope.

(* receiver::writer::ObjectCacheControl; instants in microseconds since 1970 *)
Inductive rcache := RNoCache | RMaxStale | RExpiresAt (us : N) | RExpiresAtHint (us : N).

(* receiver::writer::ObjectMetadata (groups: None = []) *)
Record rmeta := mk_rmeta {
  r_loc : str; r_clen : option N; r_tlen : option N; r_ctype : option str; r_cache : rcache;
  r_groups : list str; r_md5 : option str; r_oti : option oti; r_cenc : N; r_etag : option str }.

Inductive mres := MFail | MPanic | MOk (r : rmeta).

Section Recv.
  Variable b64_decode : str -> option (list N).     (* base64 STANDARD; None = invalid *)

  (* an optional numeric attribute of a type holding values below [bound]:
     None = deserialization error, Some None = attribute absent *)
  Definition num_attr (bound : N) (o : option str) : option (option N) :=
    match o with
    | None => Some None
    | Some s => match parse_dec s with
                | Some v => if v <? bound then Some (Some v) else None
                | None => None
                end
    end.

  Definition U64 : N := 18446744073709551616.

  Record noti := mk_noti { n_id : option N; n_inst : option N; n_b : option N; n_e : option N;
                           n_maxn : option N; n_ssi : option str }.

  Definition de_oti (x : xoti) : option noti :=
    match num_attr 256 (xo_id x), num_attr U64 (xo_inst x), num_attr U64 (xo_b x), num_attr U64 (xo_e x),
          num_attr U64 (xo_maxn x) with
    | Some a, Some b, Some c, Some d, Some e => Some (mk_noti a b c d e (xo_ssi x))
    | _, _, _, _, _ => None
    end.

  Definition valid_fec (id : N) : bool :=
    (id =? 0) || (id =? 1) || (id =? 2) || (id =? 5) || (id =? 6) || (id =? 129).

  (* reed_solomon_scheme_specific / raptorq_scheme_specific / raptor_scheme_specific (.unwrap_or(None)) *)
  Definition scheme_from (id : N) (ssi : option str) : scheme :=
    match ssi with
    | None => SchNone
    | Some s =>
      match b64_decode s with
      | None => SchNone
      | Some bytes =>
        if id =? 2 then match bytes with [m; g] => SchRS m g | _ => SchNone end
        else if id =? 6 then match bytes with [z; n1; n0; al] => SchRaptorQ z (n1 * 256 + n0) al | _ => SchNone end
        else if id =? 1 then match bytes with [z1; z0; n; al] => SchRaptor (z1 * 256 + z0) n al | _ => SchNone end
        else SchNone
      end
    end.

  Inductive ores := OPanic | ONone | OSome (o : oti).

  (* File::get_oti = FdtInstance::get_oti *)
  Definition get_oti (x : noti) : ores :=
    match n_id x, n_b x, n_e x with
    | Some id, Some b, Some e =>
      if valid_fec id then
        let maxn := match n_maxn x with Some v => v | None => b end in
        if maxn <? b then ONone                        (* checked_sub: no usable OTI (fix D6; was a u64 subtraction overflow) *)
        else OSome (mk_oti id ((match n_inst x with Some v => v | None => 0 end) mod 65536) (b mod 4294967296)
                           (e mod 65536) ((maxn - b) mod 4294967296) (scheme_from id (n_ssi x)))
      else ONone
    | _, _, _ => ONone
    end.

  (* FdtInstance::get_expiration_date: expires.parse::<u64>(), ntp_to_system_time(secs << 32) *)
  Definition expiration_us (expires : str) : option N :=
    match parse_dec expires with
    | Some v => if v <? U64 then
                  let secs := v mod 4294967296 in
                  if secs <? 2208988800 then None else Some ((secs - 2208988800) * 1000000)
                else None
    | None => None
    end.

  (* xs:boolean text of no-cache / max-stale as serde reads it; None = error *)
  Definition bool_text_ok (t : str) : bool :=
    str_eqb t (lit "true") || str_eqb t (lit "false") || str_eqb t (lit "1") || str_eqb t (lit "0")
    || match t with [] => true | _ => false end.

  (* File::get_object_cache_control; None = deserialization error of the element text *)
  Definition cache_of (c : option xcache) (fdt_exp : option N) : option rcache :=
    let hint := match fdt_exp with Some us => RExpiresAtHint us | None => RNoCache end in
    match c with
    | None => Some hint
    | Some (XNoCache t) => if bool_text_ok t then Some RNoCache else None
    | Some (XMaxStale t) => if bool_text_ok t then Some RMaxStale else None
    | Some (XExpires t) =>
      match parse_dec t with
      | Some v => if v <? 4294967296 then
                    Some (if v <? 2208988800 then hint else RExpiresAt ((v - 2208988800) * 1000000))
                  else None
      | None => None
      end
    end.

  (* Cenc::try_from(&str).unwrap_or(Null) *)
  Definition cenc_of_str (o : option str) : N :=
    match o with
    | None => 0
    | Some s => if str_eqb s (lit "zlib") then 1 else if str_eqb s (lit "deflate") then 2
                else if str_eqb s (lit "gzip") then 3 else 0
    end.

  (* attach_fdt + create_meta for file entry [f] of instance [i] *)
  Definition recv_meta (i : xfdt) (f : xfile) : mres :=
    match num_attr U64 (xf_clen f), num_attr U64 (xf_tlen f), de_oti (xf_oti f), de_oti (xi_oti i),
          cache_of (xf_cache f) (expiration_us (xi_expires i)) with
    | Some clen, Some tlen, Some fo, Some io, Some cache =>
      let oti := match get_oti fo with
                 | OSome o => OSome o
                 | OPanic => OPanic
                 | ONone => get_oti io
                 end in
      match oti with
      | OPanic => MPanic
      | _ =>
        MOk (mk_rmeta (xf_loc f) clen
                      (Some (match tlen with Some v => v | None => match clen with Some v => v | None => 0 end end))
                      (xf_ctype f) cache (xi_groups i ++ xf_groups f) (xf_md5 f)
                      (match oti with OSome o => Some o | _ => None end)
                      (cenc_of_str (xf_cenc f)) (xf_etag f))
      end
    | _, _, _, _, _ => MFail
    end.
End Recv.
