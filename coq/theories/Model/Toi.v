(* Model of the TOI life cycle of the flute sender.

   Part 1  src/sender/toiallocator.rs  (ToiAllocatorInternal::new / to_max_length / allocate /
           release), u128 arithmetic with the overflow of [toi + 1] explicit, the inner [loop]
           with fuel, [assert!] / [debug_assert!] as the outcome [Panic].
   Part 2  the owners of a [Box<Toi>]: the caller (Sender::allocate_toi), an ObjectDesc handed to
           Sender::add_object (src/sender/fdt.rs add_object, remove_object, transfer_done;
           src/sender/filedesc.rs FileDesc::new; src/sender/sendersession.rs release_file).  A box
           is released (Drop for Toi, toiallocator.rs:28-32) when its last owner goes.
   Part 3  how the TOI reaches the wire: the TOI field width selection of push_lct_header
           (src/common/lct.rs:94-128, 252-305) and the decimal TOI attribute of the FDT
           (src/sender/filedesc.rs:347 [self.toi.to_string()]).

   Abstracted: Mutex/Arc (single-threaded semantics of the critical sections), the HashSet
   (a duplicate-free list: insert = cons after the membership assertion, remove = filter),
   everything of the sender that does not own or print a TOI.
   Definitions only; proofs are in Proofs/ToiProofs.v. *)
From Coq Require Export List NArith Lia Bool.
Export ListNotations.
Open Scope bool_scope.
Open Scope N_scope.

(* ------------------------------------------------------------------------------------- *)
(* Part 1: toiallocator.rs                                                                *)

(* sender.rs:15-28 *)
Inductive toi_max := ToiMax16 | ToiMax32 | ToiMax48 | ToiMax64 | ToiMax80 | ToiMax112.

Definition width_bits (w : toi_max) : N :=
  match w with
  | ToiMax16 => 16 | ToiMax32 => 32 | ToiMax48 => 48
  | ToiMax64 => 64 | ToiMax80 => 80 | ToiMax112 => 112
  end.

(* the masks written in to_max_length: 0xFFFF, 0xFFFFFFFF, ... *)
Definition mask16 : N := 65535.
Definition mask32 : N := 4294967295.
Definition mask48 : N := 281474976710655.
Definition mask64 : N := 18446744073709551615.
Definition mask80 : N := 1208925819614629174706175.
Definition mask112 : N := 5192296858534827628530496329220095.

(* toiallocator.rs:64-73 (with fixes/D14-toi112-mask.patch) *)
Definition to_max_length (toi : N) (w : toi_max) : N :=
  match w with
  | ToiMax16 => N.land toi mask16
  | ToiMax32 => N.land toi mask32
  | ToiMax48 => N.land toi mask48
  | ToiMax64 => N.land toi mask64
  | ToiMax80 => N.land toi mask80
  | ToiMax112 => N.land toi mask112     (* since fix D14; was [toi] *)
  end.

(* u128: [toi + 1] panics on overflow (overflow checks are on in both harness profiles) *)
Definition U128 : N := 340282366920938463463374607431768211456.
Definition checked_add1 (t : N) : option N := if t + 1 <? U128 then Some (t + 1) else None.

Record allocator := mkAlloc {
  a_next : N;              (* field [toi]: the next candidate *)
  a_reserved : list N;     (* field [toi_reserved] *)
  a_width : toi_max        (* field [toi_max_length] *)
}.

(* toiallocator.rs:42-62.  [rnd] is the value drawn by rand::rng().random() when the
   configured initial value is None. *)
Definition alloc_new (w : toi_max) (init : option N) (rnd : N) : allocator :=
  let t0 := match init with
            | Some 0 => 1
            | Some n => n
            | None => rnd
            end in
  let t1 := to_max_length t0 w in
  let t2 := if t1 =? 0 then t1 + 1 else t1 in
  mkAlloc t2 [] w.

Inductive res (A : Type) :=
| Ok (a : A)
| Panic        (* assert!/debug_assert! failure or arithmetic overflow *)
| OutOfFuel.   (* the Rust loop does not terminate *)
Arguments Ok {A} a. Arguments Panic {A}. Arguments OutOfFuel {A}.

Definition mem (x : N) (l : list N) : bool := existsb (N.eqb x) l.

(* one turn of the loop body, toiallocator.rs:81-84 *)
Definition next_candidate (w : toi_max) (toi : N) : option N :=
  match checked_add1 toi with
  | None => None
  | Some t1 =>
    let t2 := to_max_length t1 w in
    Some (if t2 =? 0 then 1 else t2)
  end.

(* toiallocator.rs:80-91 *)
Fixpoint alloc_loop (fuel : nat) (w : toi_max) (toi : N) (resv : list N) : res N :=
  match fuel with
  | O => OutOfFuel
  | S f =>
    match next_candidate w toi with
    | None => Panic
    | Some t => if mem t resv then alloc_loop f w t resv else Ok t
    end
  end.

(* toiallocator.rs:75-93.  Fuel: one more than the number of reserved values. *)
Definition allocate (a : allocator) : res (N * allocator) :=
  let ret := a_next a in
  if mem ret (a_reserved a) then Panic
  else
    let resv := ret :: a_reserved a in
    match alloc_loop (S (length resv)) (a_width a) ret resv with
    | Ok t => Ok (ret, mkAlloc t resv (a_width a))
    | Panic => Panic
    | OutOfFuel => OutOfFuel
    end.

(* toiallocator.rs:95-98 (None = debug_assert!(success) fails) *)
Definition release (a : allocator) (toi : N) : option allocator :=
  if mem toi (a_reserved a)
  then Some (mkAlloc (a_next a) (filter (fun x => negb (x =? toi)) (a_reserved a)) (a_width a))
  else None.

(* ------------------------------------------------------------------------------------- *)
(* Part 2: who owns a Box<Toi>                                                            *)

Inductive ostate :=
| Queued           (* in Fdt.files and in files_transfer_queue *)
| Sending          (* in Fdt.files, held by a SenderSession / BlockEncoder *)
| SendingRemoved.  (* remove_object while being sent: only the session holds it *)

Inductive kind := KHandle | KObj (st : ostate).

(* one live Box<Toi>: its present owner and its value *)
Record entry := mkEntry { e_kind : kind; e_id : nat; e_val : N }.

Record sender := mkSender {
  s_alloc : allocator;
  s_nh : nat;              (* handles handed out so far (identifies handles) *)
  s_no : nat;              (* add_object calls so far (identifies objects) *)
  s_live : list entry      (* newest first *)
}.

Inductive addmode :=
| AddOk
| AddFailEarly   (* Sender::add_object refuses before Fdt::add_object (sender.rs:299-303) *)
| AddFailLate.   (* FileDesc::new fails after the TOI was taken (fdt.rs:164-168) *)

Inductive op :=
| OAlloc                               (* Sender::allocate_toi *)
| ODrop (i : nat)                      (* drop handle i (on any thread) *)
| OAdd (h : option nat) (m : addmode)  (* add_object without / with handle h *)
| OStart (j : nat)                     (* object j starts its transfer (first packet out) *)
| OFinish (j : nat)                    (* run until the sender is idle *)
| ORemove (j : nat)                    (* Sender::remove_object of object j *)
| OChurn (n : N).                      (* n times: allocate_toi, drop it *)

(* vocabulary shared with the specification: which entries an operation is about *)
Definition is_handle (i : nat) (e : entry) : bool :=
  match e_kind e with KHandle => Nat.eqb (e_id e) i | _ => false end.
Definition is_obj (j : nat) (e : entry) : bool :=
  match e_kind e with KObj _ => Nat.eqb (e_id e) j | _ => false end.
Definition is_obj_in (j : nat) (st : ostate) (e : entry) : bool :=
  match e_kind e, st with
  | KObj Queued, Queued | KObj Sending, Sending | KObj SendingRemoved, SendingRemoved => Nat.eqb (e_id e) j
  | _, _ => false
  end.
Definition is_sending (e : entry) : bool :=
  match e_kind e with KObj Sending | KObj SendingRemoved => true | _ => false end.
(* the objects that are completely sent by [OFinish j] *)
Definition flying (j : nat) (e : entry) : bool := is_sending e || is_obj_in j Queued e.
(* listed in a FullFDT instance: the members of Fdt.files *)
Definition in_fdt (e : entry) : bool :=
  match e_kind e with KObj Queued | KObj Sending => true | _ => false end.
Definition set_kind (k : kind) (e : entry) : entry := mkEntry k (e_id e) (e_val e).
Definition update (sel : entry -> bool) (f : entry -> entry) (l : list entry) : list entry :=
  map (fun e => if sel e then f e else e) l.

(* a packet as observed: object id (recognised by its payload), TOI, bytes of the TOI field *)
Definition pkt := (nat * N * list N)%type.

Inductive result :=
| RVal (v : N)             (* value of the handle / Ok(toi) of add_object *)
| RErr                     (* add_object returned Err *)
| RNone
| RPkts (l : list pkt)     (* distinct (object, TOI, TOI field) of the object packets sent *)
| RVals (l : list N)       (* the values handed out by a churn *)
| RPanic
| RHang.

Definition is_fatal (r : result) : bool :=
  match r with RPanic | RHang => true | _ => false end.

(* release the boxes owned by the entries selected by [p] (Drop for Toi), then forget them *)
Fixpoint release_all (a : allocator) (vs : list N) : option allocator :=
  match vs with
  | [] => Some a
  | v :: r => match release a v with None => None | Some a' => release_all a' r end
  end.

Definition drop_entries (p : entry -> bool) (s : sender) : option sender :=
  match release_all (s_alloc s) (map e_val (filter p (s_live s))) with
  | None => None
  | Some a' => Some (mkSender a' (s_nh s) (s_no s) (filter (fun e => negb (p e)) (s_live s)))
  end.

Definition churn_step (acc : res allocator * list N) : res allocator * list N :=
  match acc with
  | (Ok a, vals) =>
    match allocate a with
    | Ok (v, a') => match release a' v with
                    | Some a'' => (Ok a'', v :: vals)
                    | None => (Panic, vals)
                    end
    | Panic => (Panic, vals)
    | OutOfFuel => (OutOfFuel, vals)
    end
  | other => other
  end.

(* ------------------------------------------------------------------------------------- *)
(* Part 3: the TOI on the wire                                                            *)

(* lct.rs:94-128: [(toi & (0xFFFF << k)) != 0] is [(toi / 2^k) mod 2^16 <> 0] *)
Definition grp (v k : N) : N := (v / 2 ^ k) mod 65536.
Definition nb_bytes_128 (v min : N) : N :=
  if negb (grp v 112 =? 0) then 16
  else if negb (grp v 96 =? 0) then 14
  else if negb (grp v 80 =? 0) then 12
  else if negb (grp v 64 =? 0) then 10
  else if negb (grp v 48 =? 0) then 8
  else if negb (grp v 32 =? 0) then 6
  else if negb (grp v 16 =? 0) then 4
  else if negb (grp v 0 =? 0) then 2
  else min.

(* lct.rs:264-276, 301-304: number of bytes of the TOI field; [h_tsi] is the half-word flag
   that the TSI alone would set ((tsi_size & 2) >> 1) *)
Definition len_of_size (toi_size h_tsi : N) : N :=
  let h_toi := (toi_size / 2) mod 2 in          (* (toi_size & 2) >> 1 *)
  let h := N.lor h_tsi h_toi in
  let o := (toi_size / 4) mod 4 in              (* (toi_size >> 2) & 0x3 *)
  4 * o + 2 * h.                                (* (o << 2) + (h << 1) *)
Definition toi_field_len (toi h_tsi : N) : N := len_of_size (nb_bytes_128 toi 2) h_tsi.

(* lct.rs:130-148 *)
Definition nb_bytes_64 (v min : N) : N :=
  if negb (grp v 48 =? 0) then 8
  else if negb (grp v 32 =? 0) then 6
  else if negb (grp v 16 =? 0) then 4
  else if negb (grp v 0 =? 0) then 2
  else min.
Definition h_of_tsi (tsi : N) : N := (nb_bytes_64 tsi 2 / 2) mod 2.

(* the last n bytes of the 16-byte big-endian image of v (v < 2^128, n <= 16) *)
Fixpoint be_bytes (n : nat) (v : N) : list N :=
  match n with
  | O => []
  | S k => (v / 256 ^ N.of_nat k) mod 256 :: be_bytes k v
  end.

(* lct.rs:301-304 *)
Definition toi_field_bytes (toi h_tsi : N) : list N :=
  be_bytes (N.to_nat (toi_field_len toi h_tsi)) toi.

(* parse_lct_header, lct.rs:398-408: right-aligned copy and u128::from_be_bytes *)
Definition be_decode (l : list N) : N := fold_left (fun a b => a * 256 + b) l 0.

(* u128 Display: decimal digits, most significant first, no leading zero *)
Fixpoint digits_aux (fuel : nat) (v : N) (acc : list N) : list N :=
  match fuel with
  | O => acc
  | S f => if v <? 10 then v :: acc else digits_aux f (v / 10) (v mod 10 :: acc)
  end.
Definition to_decimal (v : N) : list N := digits_aux (S (N.to_nat (N.log2 v))) v [].

(* ------------------------------------------------------------------------------------- *)
(* the sender as a machine over operations                                                *)

Record config := mkConfig {
  c_width : toi_max;
  c_init : option N;     (* Config::toi_initial_value *)
  c_rnd : N;             (* the random draw used when c_init = None *)
  c_tsi : N              (* TSI of the session (it can force the half-word flag) *)
}.

Definition sender_new (c : config) : sender :=
  mkSender (alloc_new (c_width c) (c_init c) (c_rnd c)) 0 0 [].

(* a packet of the object owning [e]: the TOI as parse_lct_header reads it back, and the field *)
Definition pkt_of (c : config) (e : entry) : pkt :=
  let raw := toi_field_bytes (e_val e) (h_of_tsi (c_tsi c)) in
  (e_id e, be_decode raw, raw).

Definition with_alloc (s : sender) (a : allocator) : sender :=
  mkSender a (s_nh s) (s_no s) (s_live s).
Definition bump_no (s : sender) : sender :=
  mkSender (s_alloc s) (s_nh s) (S (s_no s)) (s_live s).

Definition of_res {A} (r : res A) : result :=
  match r with Ok _ => RNone | Panic => RPanic | OutOfFuel => RHang end.

Definition step (c : config) (s : sender) (o : op) : sender * result :=
  match o with
  | OAlloc =>
    match allocate (s_alloc s) with
    | Ok (v, a') =>
      (mkSender a' (S (s_nh s)) (s_no s) (mkEntry KHandle (s_nh s) v :: s_live s), RVal v)
    | Panic => (s, RPanic)
    | OutOfFuel => (s, RHang)
    end
  | ODrop i =>
    match drop_entries (is_handle i) s with
    | Some s' => (s', RNone)
    | None => (s, RPanic)
    end
  | OAdd (Some i) m =>
    match find (is_handle i) (s_live s) with
    | None => (bump_no s, RNone)                 (* the caller no longer has that handle *)
    | Some e =>
      match m with
      | AddOk =>
        (mkSender (s_alloc s) (s_nh s) (S (s_no s))
                  (update (is_handle i) (fun e => mkEntry (KObj Queued) (s_no s) (e_val e)) (s_live s)),
         RVal (e_val e))
      | _ =>
        match drop_entries (is_handle i) s with
        | Some s' => (bump_no s', RErr)
        | None => (s, RPanic)
        end
      end
    end
  | OAdd None AddFailEarly => (bump_no s, RErr)
  | OAdd None AddFailLate =>
    match allocate (s_alloc s) with
    | Ok (v, a') =>
      match release a' v with
      | Some a'' => (bump_no (with_alloc s a''), RErr)
      | None => (s, RPanic)
      end
    | Panic => (s, RPanic)
    | OutOfFuel => (s, RHang)
    end
  | OAdd None AddOk =>
    match allocate (s_alloc s) with
    | Ok (v, a') =>
      (mkSender a' (s_nh s) (S (s_no s)) (mkEntry (KObj Queued) (s_no s) v :: s_live s), RVal v)
    | Panic => (s, RPanic)
    | OutOfFuel => (s, RHang)
    end
  | OStart j =>
    (mkSender (s_alloc s) (s_nh s) (s_no s)
              (update (is_obj_in j Queued) (set_kind (KObj Sending)) (s_live s)),
     RPkts (map (pkt_of c) (filter (is_obj_in j Queued) (s_live s))))
  | OFinish j =>
    match drop_entries (flying j) s with
    | Some s' => (s', RPkts (map (pkt_of c) (filter (flying j) (s_live s))))
    | None => (s, RPanic)
    end
  | ORemove j =>
    match drop_entries (is_obj_in j Queued) s with
    | Some s' =>
      (mkSender (s_alloc s') (s_nh s') (s_no s')
                (update (is_obj_in j Sending) (set_kind (KObj SendingRemoved)) (s_live s')), RNone)
    | None => (s, RPanic)
    end
  | OChurn n =>
    match N.iter n churn_step (Ok (s_alloc s), []) with
    | (Ok a', vals) => (with_alloc s a', RVals (rev_append vals []))
    | (Panic, _) => (s, RPanic)
    | (OutOfFuel, _) => (s, RHang)
    end
  end.

(* what a FullFDT instance lists after the operation: the TOI of every File entry ... *)
Definition fdt_of (s : sender) : list N :=
  map e_val (filter in_fdt (s_live s)).

Definition out := (result * list N)%type.

(* ... printed as the decimal TOI attribute (filedesc.rs:347) *)
Definition render_out (o : out) : result * list (list N) :=
  (fst o, map to_decimal (snd o)).

Fixpoint run (c : config) (s : sender) (ops : list op) : list out :=
  match ops with
  | [] => []
  | o :: r =>
    let (s', res) := step c s o in
    if is_fatal res then [(res, [])] else (res, fdt_of s') :: run c s' r
  end.

(* the state reached (None once a fatal outcome occurred) *)
Fixpoint state_after (c : config) (s : sender) (ops : list op) : option sender :=
  match ops with
  | [] => Some s
  | o :: r =>
    let (s', res) := step c s o in
    if is_fatal res then None else state_after c s' r
  end.

Definition live_vals (s : sender) : list N := map e_val (s_live s).
