(* Executable statements of C11, C12, C13, C14 as predicates over what the sender did.
   C11 and C12 are judged on the operation/packet trace alone.  C13 and C14 speak about
   "ready", "start time", "pacing tick": they are judged on the trace together with the
   model state before each read (valid as long as model and implementation have agreed so far -
   a disagreement is reported as a broken correspondence first). *)
From FluteV Require Import Model.SenderCtl.
Open Scope N_scope.

Inductive tev :=
| TAdd (o : odesc) (start : option Z) (ok : bool)
| TPublish (now : Z) (ok : bool)
| TRemove (toi : N) (ok : bool)
| TTrigger (toi : N) (ts : option Z) (ok : bool)
| TComplete
| TRead (now : Z) (r : rout) (npk : nat) (listing : option (list N)).
  (* RFdt: npk = packets of the instance, listing = Some tois on the packet completing it *)

Definition memN (x : N) (l : list N) : bool := existsb (N.eqb x) l.

(* ================= C11 ================= *)
Record c11st := mk_c11 { announced : list N; partial : option (N * nat) }.

Definition c11_step (s : c11st) (e : tev) : bool * c11st :=
  match e with
  | TRead _ (RFdt id _) npk listing =>
    let cnt := match partial s with
               | Some (id', c) => if id' =? id then S c else 1%nat
               | None => 1%nat
               end in
    if Nat.leb npk cnt
    then (true, mk_c11 (announced s ++ match listing with Some l => l | None => [] end) None)
    else (true, mk_c11 (announced s) (Some (id, cnt)))
  | TRead _ (RObj toi _) _ _ =>
    (match partial s with None => true | Some _ => false end && memN toi (announced s), s)
  | _ => (true, s)
  end.

Fixpoint c11_run (s : c11st) (tr : list tev) : bool :=
  match tr with
  | [] => true
  | e :: r => let (ok, s') := c11_step s e in ok && c11_run s' r
  end.

Definition P_C11 (tr : list tev) : bool := c11_run (mk_c11 [] None) tr.

(* recorded finding D27: in ObjectsBeingTransferred mode Fdt::get_next_file_transfer publishes right
   after starting a transfer and drops the error; when that publish fails the object goes out
   unannounced.  The class: not FullFDT mode and some publish failed during the scenario. *)
Definition known_D27 (full publish_failed : bool) : bool := negb full && publish_failed.

(* recorded finding D42: with fdt_duration = 0 the test "the current FDT instance will expire" holds at
   every read, so every read publishes and sends a new FDT instance: at a fixed instant the reads
   never reach "nothing to send" and no object packet is ever sent.  The class: fdt_duration = 0. *)
Definition known_D42 (fdt_duration : Z) : bool := (fdt_duration =? 0)%Z.

(* ================= C12 ================= *)
Record c12obj := mk_c12o {
  x_toi : N; x_npk : nat; x_max : N; x_car : bool; x_allow : bool;
  x_sent : nat;                      (* packets on the wire so far *)
  x_removed : option (nat * nat)     (* at removal: (packets sent, packets still allowed) *)
}.

Definition pk1 (n : nat) : nat := Nat.max 1 n.   (* an empty object is one packet *)

Fixpoint upd_obj (toi : N) (f : c12obj -> c12obj) (l : list c12obj) : list c12obj :=
  match l with
  | [] => []
  | x :: r => if (x_toi x =? toi) && negb (match x_removed x with Some (_, O) => true | _ => false end && false)
              then f x :: r else x :: upd_obj toi f r
  end.

Fixpoint find_obj (toi : N) (l : list c12obj) : option c12obj :=
  match l with
  | [] => None
  | x :: r => if x_toi x =? toi then Some x else find_obj toi r
  end.

(* the most recently added object with this TOI is first in the list *)
Definition c12_step (l : list c12obj) (e : tev) : bool * list c12obj :=
  match e with
  | TAdd o _ true =>
    (true, mk_c12o (o_toi o) (o_npk o) (o_max o) (car_some (o_car o)) (o_allow_stop o) 0 None :: l)
  | TRemove toi true =>
    (true, upd_obj toi (fun x =>
       let n := pk1 (x_npk x) in
       let allowed := if x_allow x || Nat.leb n (x_sent x) then 1%nat
                      else (n - x_sent x)%nat in
       mk_c12o (x_toi x) (x_npk x) (x_max x) (x_car x) (x_allow x) (x_sent x) (Some (x_sent x, allowed))) l)
  | TRead _ (RObj toi close) _ _ =>
    match find_obj toi l with
    | None => (false, l)                                   (* a packet of an object never added *)
    | Some x =>
      let n := pk1 (x_npk x) in
      let sent' := S (x_sent x) in
      let ok_count := x_car x || Nat.leb sent' (N.to_nat (x_max x) * n) in
      let ok_removed :=
        match x_removed x with
        | None => true
        | Some (at_removal, allowed) =>
          Nat.leb (sent' - at_removal) allowed
          && (if x_allow x || Nat.leb n at_removal then close else true)
        end in
      (ok_count && ok_removed,
       upd_obj toi (fun x => mk_c12o (x_toi x) (x_npk x) (x_max x) (x_car x) (x_allow x) sent' (x_removed x)) l)
    end
  | _ => (true, l)
  end.

Fixpoint c12_run (l : list c12obj) (tr : list tev) : bool :=
  match tr with
  | [] => true
  | e :: r => let (ok, l') := c12_step l e in ok && c12_run l' r
  end.

Definition P_C12_wire (tr : list tev) : bool := c12_run [] tr.

(* close-object flag (C08/C12): an object packet carries the flag only if the object was removed
   before, or the object is empty (its lone packet), or it is not a carousel object and this is the
   last packet of its last transfer (packets on the wire = max_transfer_count x packets per transfer) *)
Definition c12_close_ok (l : list c12obj) (e : tev) : bool :=
  match e with
  | TRead _ (RObj toi true) _ _ =>
    match find_obj toi l with
    | None => false
    | Some x =>
      match x_removed x with Some _ => true | None => false end
      || Nat.eqb (x_npk x) 0
      || (negb (x_car x) && Nat.eqb (S (x_sent x)) (N.to_nat (x_max x) * pk1 (x_npk x)))
    end
  | _ => true
  end.

Fixpoint c12_close_run (l : list c12obj) (tr : list tev) : bool :=
  match tr with
  | [] => true
  | e :: r => c12_close_ok l e && c12_close_run (snd (c12_step l e)) r
  end.

Definition P_C12_close_flag (tr : list tev) : bool := c12_close_run [] tr.

(* the transfer counter the sender reports (nb_transfers) against the wire: for every object
   in the FDT, total <= completed transfers on the wire <= total + 1, and a non-carousel
   object still listed has total < max *)
Definition P_C12_counter (l : list c12obj) (view : list (N * N)) : bool :=
  forallb (fun tv =>
    match find_obj (fst tv) l with
    | None => false
    | Some x =>
      let wire := N.of_nat (x_sent x / pk1 (x_npk x)) in
      (snd tv <=? wire) && (wire <=? snd tv + 1) && (x_car x || (snd tv <? x_max x))
    end) view.

Fixpoint c12_objs (l : list c12obj) (tr : list tev) : list c12obj :=
  match tr with
  | [] => l
  | e :: r => c12_objs (snd (c12_step l e)) r
  end.

(* ================= C13 / C14 (with the model state before the read) ================= *)
Section WithState.
  Variable s : st.
  Variable now : Z.

  Definition holder (id : nat) : option (session) :=
    find (fun ss => match ss_file ss with Some i => Nat.eqb i id | None => false end)
         (flat_map q_sessions (squeues s)).

  Definition enc_has_packet (e : enc) : bool :=
    negb (e_stopped e) && (negb (Nat.eqb (e_left e) 0) || (e_sent e =? 0)).

  Definition tick_due (f : fdesc) : bool :=
    match t_next_ts (f_t f) with Some ts => (ts <=? now)%Z | None => true end.

  (* an object that holds a transmission slot and can emit now *)
  Definition ready_in_slot (ss : session) : bool :=
    match ss_file ss, ss_enc ss with
    | Some id, Some e => enc_has_packet e && tick_due (obj s id)
    | _, _ => false
    end.

  (* a waiting object that may start now, given a free slot in its queue *)
  Definition ready_waiting (q : squeue) : bool :=
    existsb (fun ss => match ss_enc ss, ss_file ss with
                       | None, _ => true
                       | Some e, Some id => negb (enc_has_packet e) && tick_due (obj s id)
                         (* a drained transfer keeps its slot until its last pacing tick has elapsed *)
                       | Some _, None => false
                       end) (q_sessions q)
    && existsb (fun id => should_transfer_now (obj s id) (q_prio q) (full_fdt s) now) (queue s).

  Definition queue_ready (q : squeue) : bool :=
    existsb ready_in_slot (q_sessions q) || ready_waiting q.

  Definition prio_of_toi (toi : N) : option N :=
    match find (fun ss => match ss_file ss with Some i => o_toi (f_o (obj s i)) =? toi | None => false end)
               (flat_map q_sessions (squeues s)) with
    | Some ss => Some (ss_prio ss)
    | None =>
      match find (fun id => o_toi (f_o (obj s id)) =? toi) (queue s) with
      | Some id => Some (o_prio (f_o (obj s id)))
      | None => None
      end
    end.

  (* C13 strict priority: an object packet of priority p while a queue of smaller key is ready *)
  Definition P_C13_priority (r : rout) : bool :=
    match r with
    | RObj toi _ =>
      match prio_of_toi toi with
      | None => false
      | Some p => negb (existsb (fun q => (q_prio q <? p) && queue_ready q) (squeues s))
      end
    | _ => true
    end.

  (* C13 multiplex bound: at most max(1, multiplex_files) objects of a queue hold a slot -
     structural in the model (one per session); on the implementation it is observed as the
     number of distinct TOIs with a transfer in progress, computed by the driver. *)

  (* C14 *)
  Definition live_fdesc (toi : N) : option (fdesc * option enc) :=
    match find (fun ss => match ss_file ss with Some i => o_toi (f_o (obj s i)) =? toi | None => false end)
               (flat_map q_sessions (squeues s)) with
    | Some ss => match ss_file ss with Some i => Some (obj s i, ss_enc ss) | None => None end
    | None =>
      match find (fun id => o_toi (f_o (obj s id)) =? toi) (queue s) with
      | Some id => Some (obj s id, None)
      | None => None
      end
    end.

  Definition P_C14_start_time (r : rout) : bool :=
    match r with
    | RObj toi _ =>
      match live_fdesc toi with
      | None => false
      | Some (f, _) => match t_start_time (f_t f) with Some stt => (stt <=? now)%Z | None => true end
      end
    | _ => true
    end.

  (* i-th packet of a transfer (i = packets already sent) not before start + i * tick *)
  Definition P_C14_pacing (r : rout) : bool :=
    match r with
    | RObj toi _ =>
      match live_fdesc toi with
      | Some (f, Some e) =>
        if t_transferring (f_t f) && enc_has_packet e then
          match t_tick (f_t f), t_last_start (f_t f) with
          | Some k, Some ls => (ls + Z.of_N (e_sent e) * k <=? now)%Z
          | _, _ => true
          end
        else true
      | _ => true
      end
    | _ => true
    end.

  (* a carousel transfer that begins with this packet respects the configured gap.
     [strict_d23] = false excludes the recorded class D23 (max_transfer_count >= 2: only one
     in max_transfer_count transfers waits). *)
  (* Some (f, last_end): this packet would begin a new transfer of f; an encoder that has no
     packet left is released by this very read, so its transfer ends now *)
  Definition starts_new_transfer (toi : N) : option (fdesc * option Z) :=
    match live_fdesc toi with
    | Some (f, None) => Some (f, t_last_end (f_t f))
    | Some (f, Some e) =>
      if t_transferring (f_t f) then (if enc_has_packet e then None else Some (f, Some now))
      else Some (f, t_last_end (f_t f))
    | None => None
    end.

  Definition known_D23 (f : fdesc) : bool := car_some (o_car (f_o f)) && (2 <=? o_max (f_o f)).

  Definition P_C14_carousel_gap (r : rout) : bool :=
    match r with
    | RObj toi _ =>
      match starts_new_transfer toi with
      | None => true
      | Some (f, last_end) =>
        match o_car (f_o f), last_end, t_last_start (f_t f) with
        | CDelay d, Some le, Some _ => (d <? now - le)%Z
        | CInterval d, Some _, Some ls => (d <? now - ls)%Z
        | _, _, _ => true
        end
      end
    | _ => true
    end.

  Definition in_D23 (r : rout) : bool :=
    match r with
    | RObj toi _ => match starts_new_transfer toi with Some (f, _) => known_D23 f | None => false end
    | _ => false
    end.
End WithState.

(* ================= C13: FIFO admission and the multiplex bound, from the start/stop events =================
   The implementation reports, per read, the transfers it started and ended, in order (hook
   events).  They are replayed on the model state before the read (after the FDT session has run):
   a start must take an object of the waiting list such that no object ahead of it in the list
   (= added earlier, or re-queued earlier) of the same queue is ready at that moment, and after
   every start the number of objects of the queue that are in transmission is at most the number
   of slots max(1, multiplex_files). *)
Section C13Events.
  Variable fdt_npk : N -> nat.
  Variable fdt_ok : N -> bool.
  Variable divf : Z -> N -> option Z.

  Fixpoint split_toi (s : st) (toi : N) (l : list nat) : option (list nat * nat * list nat) :=
    match l with
    | [] => None
    | id :: r => if toi_of s id =? toi then Some ([], id, r)
                 else match split_toi s toi r with
                      | Some (a, x, b) => Some (id :: a, x, b)
                      | None => None
                      end
    end.

  Definition in_transmission (s : st) (p : N) : list nat :=
    filter (fun id => let f := obj s id in
                      t_transferring (f_t f) && (o_prio (f_o f) =? p) && negb (is_some (o_fdtid (f_o f))))
           (seq 0 (length (objs s))).

  Definition slots_of (s : st) (p : N) : nat :=
    match find (fun q => q_prio q =? p) (squeues s) with
    | Some q => length (q_sessions q)
    | None => 0%nat
    end.

  Inductive c13_verdict := C13ok | C13notWaiting | C13fifo | C13multiplex.

  Fixpoint c13_events (s : st) (now : Z) (evs : list event) : c13_verdict :=
    match evs with
    | [] => C13ok
    | EvStart toi :: r =>
      match split_toi s toi (queue s) with
      | None => C13notWaiting
      | Some (ahead, id, rest) =>
        let p := o_prio (f_o (obj s id)) in
        if existsb (fun i => should_transfer_now (obj s i) p (full_fdt s) now) ahead then C13fifo
        else
          match transfer_started divf id now (set_queue s (ahead ++ rest)) with
          | RPanicked _ => C13ok
          | ROk _ s1 =>
            if Nat.leb (length (in_transmission s1 p)) (slots_of s1 p) then c13_events s1 now r
            else C13multiplex
          end
      end
    | EvStop toi :: r =>
      match find (fun id => (toi_of s id =? toi) && t_transferring (f_t (obj s id)))
                 (seq 0 (length (objs s))) with
      | None => c13_events s now r
      | Some id => c13_events (transfer_done id now s) now r
      end
    end.

  Definition P_C13_events (s : st) (now : Z) (evs : list event) : c13_verdict :=
    c13_events (snd (run_fdt_session fdt_npk fdt_ok divf now s)) now evs.
End C13Events.

(* ---------- the trace of a run of the model, in the vocabulary of the predicates ---------- *)
Section ModelTrace.
  Variable fdt_npk : N -> nat.
  Variable fdt_ok : N -> bool.
  Variable divf : Z -> N -> option Z.

  Definition ev_of (o : op) (out : opout) (s' : st) : tev :=
    match o, out with
    | OpAdd od start _, OutAdd ok => TAdd od start ok
    | OpPublish now, OutPublish ok => TPublish now ok
    | OpRemove toi, OutRemove ok => TRemove toi ok
    | OpTrigger toi ts, OutTrigger ok => TTrigger toi ts ok
    | OpRead now, OutRead (RFdt id c) =>
      let listing :=
        match ss_file (fdt_session s'), ss_enc (fdt_session s') with
        | Some fid, Some e => if Nat.eqb (e_left e) 0 then Some (o_listing (f_o (obj s' fid))) else None
        | _, _ => None
        end in
      TRead now (RFdt id c) (fdt_npk id) listing
    | OpRead now, OutRead r => TRead now r 0 None
    | _, _ => TComplete
    end.

  Fixpoint model_trace (s : st) (ops : list op) : list (tev * st) :=
    match ops with
    | [] => []
    | o :: r => let (out, s') := step fdt_npk fdt_ok divf s o in (ev_of o out s', s) :: model_trace s' r
    end.
End ModelTrace.
