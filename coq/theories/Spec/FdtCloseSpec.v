(* Close-object flag on FDT packets (C08's flag clause, session level).  The FDT instance is the
   object TOI 0; it is repeated by the FDT carousel (fdt_carousel_mode is not optional), so none
   of its transfers is a "final transfer", it is never removed and never empty: no packet of an
   FDT instance may carry the close-object flag.  Evaluated on the implementation's trace by the
   sender driver (a predicate on traces, not a theorem about the model: the model's FDT session
   never forces its encoder - SenderCtl.session_run, must_stop - and the correspondence ties the
   code to that op by op). *)
From Coq Require Import List ZArith.
From FluteV Require Import Model.SenderCtl Spec.SenderSpec.

Definition fdt_close_ok (e : tev) : bool :=
  match e with
  | TRead _ (RFdt _ true) _ _ => false
  | _ => true
  end.

Definition P_C08_fdt_close_flag (tr : list tev) : bool := forallb fdt_close_ok tr.

Lemma P_C08_fdt_close_flag_spec tr :
  P_C08_fdt_close_flag tr = true <->
  forall now id npk ls, ~ In (TRead now (RFdt id true) npk ls) tr.
Proof.
  unfold P_C08_fdt_close_flag. rewrite forallb_forall. split.
  - intros H now id npk ls Hin. specialize (H _ Hin). discriminate H.
  - intros H e Hin. destruct e as [| | | | |now r npk ls]; try reflexivity.
    destruct r as [|id [|]| | |]; try reflexivity. exfalso. exact (H now id npk ls Hin).
Qed.
