(* C06 - the ALC/LCT wire format as the RFCs describe it, independent of flute's code:
   header figures transcribed as lists of (field, width in bits) and interpreted by the
   generic [pack] / [unpack] of Model/Bytes.v (this file imports no other model).
     RFC 5651  LCT header (Figure 1), header extension formats (5.2), EXT_TIME (5.2.2 .. )
     RFC 5775  EXT_FTI = HET 64;  RFC 6726  EXT_FDT = HET 192, EXT_CENC = HET 193
     RFC 5445  Compact No-Code (FEC id 0), Small Block Systematic (FEC id 129)
     RFC 5510  Reed-Solomon GF(2^m) (id 2) and GF(2^8) (id 5)
     RFC 6330  RaptorQ (id 6);  RFC 5053  Raptor (id 1)
   Part A: an RFC ENCODER (abstract packet -> bytes) and an RFC DECODER (bytes -> values).
   Part B: the boolean predicates P_C06_* evaluated on the implementation's outputs. *)
From FluteV Require Export Model.Bytes Model.AlcTypes.
Open Scope N_scope.

(* ------------------------------------------------------------------------------------ *)
(* RFC 5651, Figure 1: the LCT header                                                     *)
Record rfc_lct := {
  r_v : N; r_c : N; r_psi : N; r_s : N; r_o : N; r_h : N; r_res : N; r_a : N; r_b : N;
  r_hdr_len : N; r_cp : N;
  r_cci : N; r_tsi : N; r_toi : N
}.

(* first 32-bit word:  V(4) C(2) PSI(2) S(1) O(2) H(1) Res(2) A(1) B(1) HDR_LEN(8) CP(8) *)
Definition rfc5651_word (x : rfc_lct) : list field :=
  [ (r_v x, 4); (r_c x, 2); (r_psi x, 2); (r_s x, 1); (r_o x, 2); (r_h x, 1); (r_res x, 2);
    (r_a x, 1); (r_b x, 1); (r_hdr_len x, 8); (r_cp x, 8) ].
Definition rfc5651_word_widths : list N := [4; 2; 2; 1; 2; 1; 2; 1; 1; 8; 8].

(* "CCI, length = 32*(C+1) bits", "TSI, length = 32*S+16*H bits", "TOI, length = 32*O+16*H bits" *)
Definition cci_bits (c : N) : N := 32 * (c + 1).
Definition tsi_bits (s h : N) : N := 32 * s + 16 * h.
Definition toi_bits (o h : N) : N := 32 * o + 16 * h.
Definition rfc5651_ids (x : rfc_lct) : list field :=
  [ (r_cci x, cci_bits (r_c x)); (r_tsi x, tsi_bits (r_s x) (r_h x)); (r_toi x, toi_bits (r_o x) (r_h x)) ].

Definition rfc5651_layout (x : rfc_lct) : list field := rfc5651_word x ++ rfc5651_ids x.

(* length in 32-bit words of the fixed part (without header extensions) *)
Definition rfc5651_fixed_words (x : rfc_lct) : N := bits_of (rfc5651_layout x) / 32.

Definition rfc5651_encode (x : rfc_lct) : list N := pack (rfc5651_layout x).

(* decoder: read the first word, derive the three widths from C, S, O, H, read the identifiers;
   returns the header and the bytes that follow the fixed part *)
Definition rfc5651_decode (bytes : list N) : option (rfc_lct * list N) :=
  if (length bytes <? 4)%nat then None
  else
    match unpack rfc5651_word_widths (firstn 4 bytes) with
    | [v; c; psi; s; o; h; rs; a; b; hl; cp] =>
      let n := N.to_nat ((cci_bits c + tsi_bits s h + toi_bits o h) / 8) in
      let rest := skipn 4 bytes in
      if (length rest <? n)%nat then None
      else
        match unpack [cci_bits c; tsi_bits s h; toi_bits o h] (firstn n rest) with
        | [cci; tsi; toi] =>
          Some ({| r_v := v; r_c := c; r_psi := psi; r_s := s; r_o := o; r_h := h; r_res := rs;
                   r_a := a; r_b := b; r_hdr_len := hl; r_cp := cp;
                   r_cci := cci; r_tsi := tsi; r_toi := toi |}, skipn n rest)
        | _ => None
        end
    | _ => None
    end.

(* ------------------------------------------------------------------------------------ *)
(* RFC 5651 section 5.2: header extensions.
     HET <= 127 : | HET (8) | HEL (8) | content, 32*HEL - 16 bits |   (HEL in 32-bit words, >= 1)
     HET >= 128 : | HET (8) | content, 24 bits |                      (fixed, one word)        *)
Inductive rfc_ext : Type :=
| XVar (het hel : N) (content : list N)
| XFix (het : N) (content : list N).

Definition ext_het (e : rfc_ext) : N := match e with XVar het _ _ => het | XFix het _ => het end.

Definition ext_bytes (e : rfc_ext) : list N :=
  match e with
  | XVar het hel c => pack [(het, 8); (hel, 8)] ++ c
  | XFix het c => pack [(het, 8)] ++ c
  end.

Definition wf_ext (e : rfc_ext) : bool :=
  match e with
  | XVar het hel c => (het <? 128) && (1 <=? hel) && (hel <=? 255)
                      && (N.of_nat (length c) + 2 =? 4 * hel) && all_bytes c
  | XFix het c => (128 <=? het) && (het <? 256) && (length c =? 3)%nat && all_bytes c
  end.

Definition ext_words (e : rfc_ext) : N := match e with XVar _ hel _ => hel | XFix _ _ => 1 end.
Fixpoint exts_words (es : list rfc_ext) : N :=
  match es with [] => 0 | e :: r => ext_words e + exts_words r end.

(* decoder for an extension area (a whole number of extensions); fuel = number of bytes *)
Fixpoint rfc_split_exts (fuel : nat) (area : list N) : option (list rfc_ext) :=
  match area with
  | [] => Some []
  | het :: tl =>
    match fuel with
    | O => None
    | S fuel' =>
      if 128 <=? het then
        if (length tl <? 3)%nat then None
        else match rfc_split_exts fuel' (skipn 3 tl) with
             | Some r => Some (XFix het (firstn 3 tl) :: r)
             | None => None
             end
      else
        match tl with
        | [] => None
        | hel :: body =>
          let n := N.to_nat (4 * hel - 2) in
          if (hel =? 0) || (length body <? n)%nat then None
          else match rfc_split_exts fuel' (skipn n body) with
               | Some r => Some (XVar het hel (firstn n body) :: r)
               | None => None
               end
        end
    end
  end.

Fixpoint find_ext (het : N) (es : list rfc_ext) : option rfc_ext :=
  match es with
  | [] => None
  | e :: r => if ext_het e =? het then Some e else find_ext het r
  end.

(* ------------------------------------------------------------------------------------ *)
(* Typed header extensions.                                                               *)
Definition b2n (b : bool) : N := if b then 1 else 0.

(* RFC 6726 3.4.1 EXT_FDT:  | HET = 192 | V (4) | FDT Instance ID (20) | *)
Definition x_fdt (v id : N) : rfc_ext := XFix 192 (pack [(v, 4); (id, 20)]).
(* RFC 6726 3.4.3 EXT_CENC: | HET = 193 | CENC (8) | Reserved (16) | *)
Definition x_cenc (cenc rs : N) : rfc_ext := XFix 193 (pack [(cenc, 8); (rs, 16)]).

(* RFC 5651 5.2.2 EXT_TIME: | HET = 2 | HEL | Use (16) | time values (32 each) ... |
   Use = SCT-High(1) SCT-Low(1) ERT(1) SLC(1) reserved(4) PI-specific(8);
   values in the order SCT-High, SCT-Low, ERT, SLC, each present iff its flag is set *)
Record time_ext := {
  te_shi : bool; te_slo : bool; te_ert : bool; te_slc : bool;
  te_res : N; te_pi : N;
  te_hi : N; te_lo : N; te_ertv : N; te_slcv : N
}.
Definition opt_field (b : bool) (v : N) : list field := if b then [(v, 32)] else [].
Definition time_values (t : time_ext) : list field :=
  opt_field (te_shi t) (te_hi t) ++ opt_field (te_slo t) (te_lo t)
  ++ opt_field (te_ert t) (te_ertv t) ++ opt_field (te_slc t) (te_slcv t).
Definition time_use (t : time_ext) : list field :=
  [(b2n (te_shi t), 1); (b2n (te_slo t), 1); (b2n (te_ert t), 1); (b2n (te_slc t), 1);
   (te_res t, 4); (te_pi t, 8)].
Definition x_time (t : time_ext) : rfc_ext :=
  XVar 2 (1 + bits_of (time_values t) / 32) (pack (time_use t ++ time_values t)).

(* EXT_FTI (HET = 64) contents per FEC scheme, after the HET and HEL bytes *)
Inductive fti_values :=
| FtiNoCode (L rs E B : N)                 (* RFC 5445 3.2.3 / RFC 3926 5.1.1: L(48) Reserved(16) E(16) B(32) *)
| FtiRS28 (L E B maxn : N)                 (* RFC 5510 5.2.3: L(48) E(16) B(8) max_n(8) *)
| FtiRS28US (L inst E B maxn : N)          (* RFC 5445 5.2 : L(48) FEC-Instance-ID(16) E(16) B(16) max_n(16) *)
| FtiRS2m (L m g E B maxn : N)             (* RFC 5510 4.2.3: L(48) m(8) G(8) E(16) B(16) max_n(16) *)
| FtiRaptorQ (L rs T Z Nn Al pad : N)      (* RFC 6330 3.3.2-3: F(40) Reserved(8) T(16) Z(8) N(16) Al(8) + 16 padding *)
| FtiRaptor (L rs T Z Nn Al : N).          (* RFC 5053 3.2.2-3: F(48) Reserved(16) T(16) Z(16) N(8) Al(8) *)

Definition fti_layout (f : fti_values) : list field :=
  match f with
  | FtiNoCode L rs E B => [(L, 48); (rs, 16); (E, 16); (B, 32)]
  | FtiRS28 L E B n => [(L, 48); (E, 16); (B, 8); (n, 8)]
  | FtiRS28US L i E B n => [(L, 48); (i, 16); (E, 16); (B, 16); (n, 16)]
  | FtiRS2m L m g E B n => [(L, 48); (m, 8); (g, 8); (E, 16); (B, 16); (n, 16)]
  | FtiRaptorQ L rs T Z Nn Al pad => [(L, 40); (rs, 8); (T, 16); (Z, 8); (Nn, 16); (Al, 8); (pad, 16)]
  | FtiRaptor L rs T Z Nn Al => [(L, 48); (rs, 16); (T, 16); (Z, 16); (Nn, 8); (Al, 8)]
  end.
Definition fti_widths (cp : N) : option (list N) :=
  if cp =? 0 then Some [48; 16; 16; 32] else if cp =? 5 then Some [48; 16; 8; 8]
  else if cp =? 129 then Some [48; 16; 16; 16; 16] else if cp =? 2 then Some [48; 8; 8; 16; 16; 16]
  else if cp =? 6 then Some [40; 8; 16; 8; 16; 8; 16] else if cp =? 1 then Some [48; 16; 16; 16; 8; 8]
  else None.
(* in FLUTE the codepoint carries the FEC Encoding ID (RFC 6726 5.?, RFC 3926 5.1) *)
Definition fti_cp (f : fti_values) : N :=
  match f with FtiNoCode _ _ _ _ => 0 | FtiRS28 _ _ _ _ => 5 | FtiRS28US _ _ _ _ _ => 129
             | FtiRS2m _ _ _ _ _ _ => 2 | FtiRaptorQ _ _ _ _ _ _ _ => 6 | FtiRaptor _ _ _ _ _ _ => 1 end.
Definition x_fti (f : fti_values) : rfc_ext :=
  XVar 64 ((16 + bits_of (fti_layout f)) / 32) (pack (fti_layout f)).

(* FEC payload id per scheme: RFC 5445 3.1 (SBN 16, ESI 16), RFC 5445 5.1 (SBN 32, SBL 16, ESI 16),
   RFC 5510 5.1 (SBN 24, ESI 8) and 4.1 (SBN 32-m, ESI m), RFC 6330 3.2 (SBN 8, ESI 24),
   RFC 5053 3.1 (SBN 16, ESI 16) *)
Definition pid_widths (cp m : N) : option (list N) :=
  if (cp =? 0) || (cp =? 1) then Some [16; 16] else if cp =? 5 then Some [24; 8]
  else if cp =? 129 then Some [32; 16; 16] else if cp =? 6 then Some [8; 24]
  else if cp =? 2 then (if (1 <=? m) && (m <=? 31) then Some [32 - m; m] else None)
  else None.
(* (sbn, esi, source block length) <-> field list *)
Definition pid_fields (cp m sbn esi sbl : N) : option (list field) :=
  match pid_widths cp m with
  | Some [a; b] => Some [(sbn, a); (esi, b)]
  | Some [a; b; c] => Some [(sbn, a); (sbl, b); (esi, c)]
  | _ => None
  end.

(* ------------------------------------------------------------------------------------ *)
(* The abstract RFC packet and its encoder                                                *)
Record rfc_pkt := {
  rp_lct : rfc_lct;
  rp_exts : list rfc_ext;
  rp_pid : list field;
  rp_payload : list N
}.

Definition rfc_alc_encode (p : rfc_pkt) : list N :=
  rfc5651_encode (rp_lct p) ++ concat (map ext_bytes (rp_exts p)) ++ pack (rp_pid p) ++ rp_payload p.

(* HDR_LEN as the RFC defines it: total LCT header length in 32-bit words *)
Definition rfc_hdr_len (x : rfc_lct) (es : list rfc_ext) : N := rfc5651_fixed_words x + exts_words es.

Definition set_hdr_len (x : rfc_lct) (hl : N) : rfc_lct :=
  {| r_v := r_v x; r_c := r_c x; r_psi := r_psi x; r_s := r_s x; r_o := r_o x; r_h := r_h x;
     r_res := r_res x; r_a := r_a x; r_b := r_b x; r_hdr_len := hl; r_cp := r_cp x;
     r_cci := r_cci x; r_tsi := r_tsi x; r_toi := r_toi x |}.

Definition mk_rfc_pkt (x : rfc_lct) (es : list rfc_ext) (pid : list field) (payload : list N) : rfc_pkt :=
  {| rp_lct := set_hdr_len x (rfc_hdr_len x es); rp_exts := es; rp_pid := pid; rp_payload := payload |}.

Definition wf_pkt (p : rfc_pkt) : bool :=
  all_fit (rfc5651_layout (rp_lct p)) && forallb wf_ext (rp_exts p)
  && (r_hdr_len (rp_lct p) =? rfc_hdr_len (rp_lct p) (rp_exts p))
  && all_fit (rp_pid p) && (bits_of (rp_pid p) mod 8 =? 0) && all_bytes (rp_payload p).

(* ------------------------------------------------------------------------------------ *)
(* The values an RFC implementation reads from a packet                                   *)
Record alc_values := {
  av_v : N; av_cci : N; av_tsi : N; av_toi : N; av_cp : N;
  av_close_object : bool; av_close_session : bool;
  av_fdt : option (N * N);                  (* (version, FDT instance id) *)
  av_cenc : option N;
  av_sct : option (N * N);                  (* NTP (seconds, fraction); fraction 0 when SCT-Low is absent *)
  av_fti : option fti_values;
  av_pid : option (N * N * option N);       (* (SBN, ESI, source block length) *)
  av_payload : list N
}.

Definition dec_fdt (e : rfc_ext) : option (N * N) :=
  match e with
  | XFix _ c => match unpack [4; 20] c with [v; id] => Some (v, id) | _ => None end
  | _ => None
  end.
Definition dec_cenc (e : rfc_ext) : option N :=
  match e with
  | XFix _ c => match unpack [8; 16] c with [cenc; _] => Some cenc | _ => None end
  | _ => None
  end.
(* SCT of an EXT_TIME: None = malformed (HEL does not match the flags) or no SCT-High *)
Definition dec_time (e : rfc_ext) : option (N * N) :=
  match e with
  | XVar _ hel c =>
    match unpack [1; 1; 1; 1; 4; 8] (firstn 2 c) with
    | [shi; slo; ert; slc; _; _] =>
      if negb (hel =? 1 + shi + slo + ert + slc) then None
      else if shi =? 0 then None
      else
        let vals := skipn 2 c in
        Some (be_decode (firstn 4 vals), if slo =? 1 then be_decode (firstn 4 (skipn 4 vals)) else 0)
    | _ => None
    end
  | _ => None
  end.
Definition dec_fti (cp : N) (e : rfc_ext) : option fti_values :=
  match e with
  | XVar _ hel c =>
    match fti_widths cp with
    | Some ws =>
      if negb (hel * 32 =? 16 + sum_widths ws) then None
      else
        match unpack ws c with
        | [a; b; c0; d] => if cp =? 0 then Some (FtiNoCode a b c0 d) else if cp =? 5 then Some (FtiRS28 a b c0 d) else None
        | [a; b; c0; d; e0] => if cp =? 129 then Some (FtiRS28US a b c0 d e0) else None
        | [a; b; c0; d; e0; f] => if cp =? 2 then Some (FtiRS2m a b c0 d e0 f)
                                  else if cp =? 1 then Some (FtiRaptor a b c0 d e0 f) else None
        | [a; b; c0; d; e0; f; g] => if cp =? 6 then Some (FtiRaptorQ a b c0 d e0 f g) else None
        | _ => None
        end
    | None => None
    end
  | _ => None
  end.

Definition fti_m (f : option fti_values) (m_session : N) : N :=
  match f with Some (FtiRS2m _ m _ _ _ _) => if m =? 0 then 8 else m | _ => m_session end.

Definition dec_pid (cp m : N) (bytes : list N) : option (N * N * option N) :=
  match pid_widths cp m with
  | Some ws =>
    match unpack ws bytes with
    | [sbn; esi] => Some (sbn, esi, None)
    | [sbn; sbl; esi] => Some (sbn, esi, Some sbl)
    | _ => None
    end
  | None => None
  end.
Definition pid_bytes (cp : N) : nat := if cp =? 129 then 8%nat else 4%nat.

Definition omap {A B} (f : A -> option B) (o : option A) : option B :=
  match o with Some a => f a | None => None end.

(* values of an abstract packet (first extension of each type wins);
   m_session : the GF(2^m) parameter known from the session description when no EXT_FTI is present *)
Definition rfc_values (m_session : N) (x : rfc_lct) (es : list rfc_ext) (after : list N) : alc_values :=
  let fti := omap (dec_fti (r_cp x)) (find_ext 64 es) in
  let n := pid_bytes (r_cp x) in
  {| av_v := r_v x; av_cci := r_cci x; av_tsi := r_tsi x; av_toi := r_toi x; av_cp := r_cp x;
     av_close_object := negb (r_b x =? 0); av_close_session := negb (r_a x =? 0);
     av_fdt := omap dec_fdt (find_ext 192 es);
     av_cenc := omap dec_cenc (find_ext 193 es);
     av_sct := omap dec_time (find_ext 2 es);
     av_fti := fti;
     av_pid := if (length after <? n)%nat then None
               else dec_pid (r_cp x) (fti_m fti m_session) (firstn n after);
     av_payload := skipn n after |}.

(* the RFC DECODER: bytes -> values *)
Definition rfc_alc_decode (m_session : N) (bytes : list N) : option alc_values :=
  match rfc5651_decode bytes with
  | None => None
  | Some (x, rest) =>
    let fw := rfc5651_fixed_words x in
    if r_hdr_len x <? fw then None
    else
      let n := N.to_nat (4 * (r_hdr_len x - fw)) in
      if (length rest <? n)%nat then None
      else
        match rfc_split_exts n (firstn n rest) with
        | None => None
        | Some es => Some (rfc_values m_session x es (skipn n rest))
        end
  end.

(* microseconds since the Unix epoch denoted by an NTP timestamp, rounded down *)
Definition ntp_us (sct : N * N) : option N :=
  let '(hi, lo) := sct in
  if hi <? 2208988800 then None
  else Some ((hi - 2208988800) * 1000000 + (lo * 1000000) / 4294967296).

(* ==================================================================================== *)
(* Part B: the executable statement of C06                                                *)

Definition eq_optN (a b : option N) : bool :=
  match a, b with Some x, Some y => x =? y | None, None => true | _, _ => false end.
Definition eq_optNN (a b : option (N * N)) : bool :=
  match a, b with
  | Some (x1, x2), Some (y1, y2) => (x1 =? y1) && (x2 =? y2)
  | None, None => true | _, _ => false
  end.
Definition eq_pid (a b : option (N * N * option N)) : bool :=
  match a, b with
  | Some (s1, e1, l1), Some (s2, e2, l2) => (s1 =? s2) && (e1 =? e2) && eq_optN l1 l2
  | None, None => true | _, _ => false
  end.

(* reserved / padding fields are not values of the property; m = 0 and G = 0 denote the
   defaults 8 and 1 (RFC 5510 4.2.3) *)
Definition fti_canon (f : fti_values) : fti_values :=
  match f with
  | FtiNoCode L _ E B => FtiNoCode L 0 E B
  | FtiRS2m L m g E B n => FtiRS2m L (if m =? 0 then 8 else m) (if g =? 0 then 1 else g) E B n
  | FtiRaptorQ L _ T Z Nn Al _ => FtiRaptorQ L 0 T Z Nn Al 0
  | FtiRaptor L _ T Z Nn Al => FtiRaptor L 0 T Z Nn Al
  | x => x
  end.
Definition fti_fields (f : fti_values) : list N := map fst (fti_layout f).
Definition eq_fti (a b : fti_values) : bool :=
  (fti_cp a =? fti_cp b) && eq_listN (fti_fields (fti_canon a)) (fti_fields (fti_canon b)).
Definition eq_opt_fti (a b : option fti_values) : bool :=
  match a, b with Some x, Some y => eq_fti x y | None, None => true | _, _ => false end.

(* ---------- direction 1: what the sender builds ---------- *)
(* the FEC OTI and transfer length a sender with this Oti announces *)
Definition fti_of_oti (o : oti) (L : N) : option fti_values :=
  match o_fec o, o_ss o with
  | NoCode, _ => Some (FtiNoCode L 0 (o_E o) (o_B o))
  | RS28, _ => Some (FtiRS28 L (o_E o) (o_B o) (o_B o + o_parity o))
  | RS28US, _ => Some (FtiRS28US L (o_inst o) (o_E o) (o_B o) (o_B o + o_parity o))
  | RS2m, Some (SSReedSolomon m g) => Some (FtiRS2m L m g (o_E o) (o_B o) (o_B o + o_parity o))
  | RaptorQ, Some (SSRaptorQ z n al) => Some (FtiRaptorQ L 0 (o_E o) z n al 0)
  | Raptor, Some (SSRaptor z n al) => Some (FtiRaptor L 0 (o_E o) z n al)
  | _, _ => None
  end.
Definition oti_m (o : oti) : N := match o_ss o with Some (SSReedSolomon m _) => m | _ => 8 end.

Definition has_fdt (p : pkt) : bool := k_toi p =? 0.
Definition has_cenc (p : pkt) : bool := ((k_toi p =? 0) && negb (k_cenc p =? 0)) || k_inband_cenc p.
Definition has_fti (o : oti) (p : pkt) : bool := (k_toi p =? 0) || o_inband_fti o.
Definition profile_version (prof : profile) : N := match prof with RFC6726 => 2 | RFC3926 => 1 end.

(* the ranges of the property: every value fits the RFC field that carries it *)
Definition build_in_range (o : oti) (cci tsi : N) (p : pkt) (now_ns : Z) : bool :=
  (cci <? 2 ^ 128) && (tsi <? 2 ^ 48) && (k_toi p <? 2 ^ 112)
  && (if has_fdt p then match k_fdt_id p with Some id => id <? 2 ^ 20 | None => false end else true)
  && (k_cenc p <=? 3)
  && (if k_sct p then (0 <=? now_ns)%Z && (Z.to_N now_ns / 1000000000 + 2208988800 <? 2 ^ 32) else true)
  && (if has_fti o p then match fti_of_oti o (k_transfer_length p) with
                          | Some f => all_fit (fti_layout f) | None => false end
      else true)
  && match pid_fields (fec_code (o_fec o)) (oti_m o) (k_sbn p) (k_esi p) (k_source_block_length p) with
     | Some fs => all_fit fs | None => false end
  && (match o_fec o with RS2m => k_esi p <? 256 | _ => true end)   (* flute writes ESI & 0xFF; the sender never uses RS2m *)
  && all_bytes (k_payload p).

Definition now_us (now_ns : Z) : N := Z.to_N now_ns / 1000.

Definition check_build (o : oti) (cci tsi : N) (p : pkt) (prof : profile) (now_ns : Z) (av : alc_values) : bool :=
  (av_v av =? 1) && (av_cci av =? cci) && (av_tsi av =? tsi) && (av_toi av =? k_toi p)
  && (av_cp av =? fec_code (o_fec o))
  && Bool.eqb (av_close_object av) (k_close_object p) && negb (av_close_session av)
  && eq_optNN (av_fdt av) (if has_fdt p then match k_fdt_id p with Some id => Some (profile_version prof, id) | None => None end else None)
  && eq_optN (av_cenc av) (if has_cenc p then Some (k_cenc p) else None)
  && (if k_sct p then match av_sct av with
                      | Some sct => eq_optN (ntp_us sct) (Some (now_us now_ns))
                      | None => false end
      else match av_sct av with None => true | Some _ => false end)
  && eq_opt_fti (av_fti av) (if has_fti o p then fti_of_oti o (k_transfer_length p) else None)
  && eq_pid (av_pid av) (Some (k_sbn p, k_esi p,
                               match o_fec o with RS28US => Some (k_source_block_length p) | _ => None end))
  && eq_listN (av_payload av) (k_payload p).

(* P_C06_build: the bytes the implementation built for this input are decoded by the RFC
   decoder to exactly the input's values *)
Definition P_C06_build (o : oti) (cci tsi : N) (p : pkt) (prof : profile) (now_ns : Z)
           (out : res (list N)) : bool :=
  if negb (build_in_range o cci tsi p now_ns) then true
  else match out with
       | Ok bytes =>
         match rfc_alc_decode (oti_m o) bytes with
         | Some av => check_build o cci tsi p prof now_ns av
         | None => false
         end
       | _ => false
       end.

(* push_lct_header alone (PSI and close-session flag free) *)
Definition P_C06_lct (psi cci tsi toi cp : N) (co cs : bool) (bytes : list N) : bool :=
  if negb ((psi <? 4) && (cp <? 256) && (cci <? 2 ^ 128) && (tsi <? 2 ^ 48) && (toi <? 2 ^ 112)) then true
  else match rfc5651_decode bytes with
       | Some (x, rest) =>
         (r_v x =? 1) && (r_psi x =? psi) && (r_cci x =? cci) && (r_tsi x =? tsi) && (r_toi x =? toi)
         && (r_cp x =? cp) && (r_b x =? b2n co) && (r_a x =? b2n cs)
         && (r_hdr_len x =? rfc5651_fixed_words x) && (length rest =? 0)%nat
       | None => false
       end.

(* NTP conversions: "to the microsecond", for instants from 1970 to the end of NTP era 0 *)
Definition P_C06_ntp (now_ns : Z) (ntp : res N) : bool :=
  if negb ((0 <=? now_ns)%Z && (Z.to_N now_ns / 1000000000 + 2208988800 <? 2 ^ 32)) then true
  else match ntp with
       | Ok v => eq_optN (ntp_us (v / 4294967296, v mod 4294967296)) (Some (now_us now_ns))
       | _ => false
       end.

(* ---------- direction 2: what flute reads from an RFC implementation's packet ---------- *)
Definition eq_ss (a b : option (N * N * N * N)) : bool :=
  match a, b with
  | Some (k1, a1, b1, c1), Some (k2, a2, b2, c2) => (k1 =? k2) && (a1 =? a2) && (b1 =? b2) && (c1 =? c2)
  | None, None => true | _, _ => false
  end.

Definition fti_matches (f : fti_values) (ob : oti_obs) : bool :=
  match fti_canon f with
  | FtiNoCode L _ E B => (ob_fec ob =? 0) && (ob_L ob =? L) && (ob_E ob =? E) && (ob_B ob =? B)
  | FtiRS28 L E B n => (ob_fec ob =? 5) && (ob_L ob =? L) && (ob_E ob =? E) && (ob_B ob =? B)
                       && (ob_parity ob =? n - B)
  | FtiRS28US L i E B n => (ob_fec ob =? 129) && (ob_L ob =? L) && (ob_inst ob =? i) && (ob_E ob =? E)
                           && (ob_B ob =? B) && (ob_parity ob =? n - B)
  | FtiRS2m L m g E B n => (ob_fec ob =? 2) && (ob_L ob =? L) && (ob_E ob =? E) && (ob_B ob =? B)
                           && (ob_parity ob =? n - B) && eq_ss (ob_ss ob) (Some (0, m, g, 0))
  | FtiRaptorQ L _ T Z Nn Al _ => (ob_fec ob =? 6) && (ob_L ob =? L) && (ob_E ob =? T)
                                  && eq_ss (ob_ss ob) (Some (1, Z, Nn, Al))
  | FtiRaptor L _ T Z Nn Al => (ob_fec ob =? 1) && (ob_L ob =? L) && (ob_E ob =? T)
                               && eq_ss (ob_ss ob) (Some (2, Z, Nn, Al))
  end.

(* values a FLUTE receiver has to accept: n >= B for Reed-Solomon; T, Z, Al > 0 and Al | T
   for Raptor / RaptorQ (RFC 6330 3.3.3, RFC 5053 3.2.3) *)
Definition fti_acceptable (f : fti_values) : bool :=
  match f with
  | FtiRS28 _ _ B n | FtiRS28US _ _ _ B n | FtiRS2m _ _ _ _ B n => B <=? n
  | FtiRaptorQ _ _ T Z _ Al _ | FtiRaptor _ _ T Z _ Al =>
    negb (T =? 0) && negb (Z =? 0) && negb (Al =? 0) && (T mod Al =? 0)
  | _ => true
  end.

Definition supported_cp (cp : N) : bool :=
  (cp =? 0) || (cp =? 1) || (cp =? 2) || (cp =? 5) || (cp =? 6) || (cp =? 129).

(* what the property demands of the parser for this packet *)
Definition parse_demand (m_session : N) (p : rfc_pkt) : bool :=
  let x := rp_lct p in
  ((r_v x =? 1) || (r_v x =? 2)) && supported_cp (r_cp x)
  && match find_ext 64 (rp_exts p) with
     | None => true
     | Some e => match dec_fti (r_cp x) e with Some f => fti_acceptable f | None => false end
     end
  && (bits_of (rp_pid p) =? 8 * N.of_nat (pid_bytes (r_cp x)))
  && match dec_pid (r_cp x) (fti_m (omap (dec_fti (r_cp x)) (find_ext 64 (rp_exts p))) m_session) (pack (rp_pid p)) with
     | Some _ => true | None => false end.

Definition eq_res_optN (a : res (option N)) (b : option N) : bool :=
  match a with Ok x => eq_optN x b | _ => false end.
Definition eq_res_pid (a : res (N * N * option N)) (b : option (N * N * option N)) : bool :=
  match a with Ok x => eq_pid (Some x) b | _ => false end.

Definition check_parse (m_session : N) (p : rfc_pkt) (o : parse_obs) : bool :=
  let x := rp_lct p in
  let av := rfc_values m_session x (rp_exts p) (pack (rp_pid p) ++ rp_payload p) in
  (po_cci o =? av_cci av) && (po_tsi o =? av_tsi av) && (po_toi o =? av_toi av) && (po_cp o =? av_cp av)
  && Bool.eqb (po_co o) (av_close_object av) && Bool.eqb (po_cs o) (av_close_session av)
  && (if av_toi av =? 0 then eq_optNN (po_fdt o) (av_fdt av) else true)
  && (match av_cenc av with
      | Some c => if c <=? 3 then eq_optN (po_cenc o) (Some c) else true
      | None => match find_ext 193 (rp_exts p) with None => eq_optN (po_cenc o) None | Some _ => true end
      end)
  && (match av_fti av, po_fti o with
      | Some f, Some ob => fti_matches f ob
      | None, None => true
      | _, _ => false
      end)
  && (match find_ext 2 (rp_exts p) with
      | None => eq_res_optN (po_sct o) None
      | Some e => match dec_time e with
                  | Some sct => match ntp_us sct with Some us => eq_res_optN (po_sct o) (Some us) | None => true end
                  | None => true
                  end
      end)
  && eq_res_pid (po_pid o) (av_pid av)
  && (po_payload_off o =? 4 * r_hdr_len x + N.of_nat (pid_bytes (r_cp x))).

(* P_C06_parse: a packet produced by the RFC encoder is parsed by the implementation to the
   values the packet carries *)
Definition P_C06_parse (m_session : N) (p : rfc_pkt) (out : res parse_obs) : bool :=
  if negb (wf_pkt p && parse_demand m_session p) then true
  else match out with Ok o => check_parse m_session p o | _ => false end.

(* ---------- recorded finding D32 ----------
   class Known_D32: the packet carries an EXT_FTI of FEC Encoding ID 1 (Raptor).  flute writes and
   reads it with the RFC 6330 figure instead of the RFC 5053 3.2.2/3.2.3 figure, so for this class
   the predicates above fail; every theorem C06_spec_*_holds excludes exactly this class. *)
Definition known_d32_build (o : oti) (p : pkt) : bool :=
  match o_fec o with Raptor => has_fti o p | _ => false end.
Definition known_d32_parse (p : rfc_pkt) : bool :=
  (r_cp (rp_lct p) =? 1) && match find_ext 64 (rp_exts p) with Some _ => true | None => false end.
