(* Executable statement of C18, written against the property text - not against the data
   structures of tsifilter.rs / multireceiver.rs - and evaluated by the extracted driver on
   the IMPLEMENTATION's observations.

   * "added more often than removed" is read with SATURATING counts: a remove of something
     that is not currently listened to is a no-op (it does not create a debt that a later
     add would have to pay).  This is the only reading under which a reference-counting
     filter can satisfy the sentence at all; it is part of the statement below.
   * "its endpoint is accepted for all TSIs": the endpoint itself (no wildcard);
     "(endpoint, TSI) exactly or with the source address wildcarded": an entry made for
     the endpoint itself or for the endpoint with source_address = None. *)
From FluteV Require Import Model.TsiFilter Model.Multi.
Open Scope bool_scope.
Open Scope N_scope.

(* ---------- TSI filtering ---------- *)

Definition op_adds_pair (ep : Endpoint) (tsi : N) (op : FOp) : bool :=
  match op with FAdd e t => ep_eqb e ep && (t =? tsi) | _ => false end.
Definition op_removes_pair (ep : Endpoint) (tsi : N) (op : FOp) : bool :=
  match op with FRemove e t => ep_eqb e ep && (t =? tsi) | _ => false end.
Definition op_adds_all (ep : Endpoint) (op : FOp) : bool :=
  match op with FAddAll e => ep_eqb e ep | _ => false end.
Definition op_removes_all (ep : Endpoint) (op : FOp) : bool :=
  match op with FRemoveAll e => ep_eqb e ep | _ => false end.

(* adds minus removes, never below zero, over the operation history in order *)
Definition sat_step (isa isr : FOp -> bool) (c : N) (op : FOp) : N :=
  if isa op then c + 1 else if isr op then N.pred c else c.
Definition sat_cnt (isa isr : FOp -> bool) (ops : list FOp) : N :=
  fold_left (sat_step isa isr) ops 0.

Definition cnt_pair (ops : list FOp) (ep : Endpoint) (tsi : N) : N :=
  sat_cnt (op_adds_pair ep tsi) (op_removes_pair ep tsi) ops.
Definition cnt_all (ops : list FOp) (ep : Endpoint) : N :=
  sat_cnt (op_adds_all ep) (op_removes_all ep) ops.

Definition accepts (ops : list FOp) (ep : Endpoint) (tsi : N) : bool :=
  (0 <? cnt_all ops ep) || (0 <? cnt_pair ops ep tsi) || (0 <? cnt_pair ops (ep_no_src ep) tsi).

(* the answer of the filter after the history [ops] for a packet (ep, tsi) *)
Definition P_C18_filter (ops : list FOp) (ep : Endpoint) (tsi : N) (answer : bool) : bool :=
  Bool.eqb answer (accepts ops ep tsi).

(* ---------- "a packet is processed if and only if" over a whole run ---------- *)

Section Run.
  Variable P : Type.
  Variable pkt_tsi : P -> N.

  (* per operation: Some b for a parsable packet (b = must it be processed), None otherwise *)
  Fixpoint expected_processed (enable : bool) (hist : list FOp) (ops : list (Op P))
    : list (option bool) :=
    match ops with
    | [] => []
    | op :: r =>
      match op with
      | OSetFiltering b => None :: expected_processed b hist r
      | OFilter f => None :: expected_processed enable (hist ++ [f]) r
      | OPush ep (Some p) _ _ =>
        Some (negb enable || accepts hist ep (pkt_tsi p)) :: expected_processed enable hist r
      | _ => None :: expected_processed enable hist r
      end
    end.

  Definition agree (e o : option bool) : bool :=
    match e, o with Some a, Some b => Bool.eqb a b | _, _ => true end.

  Fixpoint all2 {A B} (f : A -> B -> bool) (a : list A) (b : list B) : bool :=
    match a, b with
    | [], [] => true
    | x :: a', y :: b' => f x y && all2 f a' b'
    | _, _ => false
    end.

  (* [obs]: per operation what was observed: Some true = processed, Some false = not
     processed, None = not observable for this operation *)
  Definition P_C18_processed (enable : bool) (ops : list (Op P)) (obs : list (option bool)) : bool :=
    all2 agree (expected_processed enable [] ops) obs.
End Run.
Arguments expected_processed {P}. Arguments P_C18_processed {P}.

(* what an event list shows about "processed" for one operation *)
Definition step_processed {P O} (op : Op P) (evs : list (Ev O)) : option bool :=
  match op with
  | OPush _ (Some _) _ _ =>
    match evs with
    | [EvSkip _] => Some false
    | _ => Some true
    end
  | _ => None
  end.

(* ---------- listener events ---------- *)

(* the word is b (not b) b (not b) ... *)
Fixpoint alternating (expect : bool) (t : list bool) : bool :=
  match t with
  | [] => true
  | b :: r => Bool.eqb b expect && alternating (negb expect) r
  end.

(* what one listener saw about one session key from before the key's first session until
   after the drop of the receiver (true = open, false = closed): (open closed)^* .
   Every prefix of such a word has at least as many opens as closes (never a close
   without an open) and the whole word has as many closes as opens (every session end is
   reported), with no two opens or two closes in a row (exactly one per creation / end). *)
Definition P_C18_listener_trace (t : list bool) : bool :=
  alternating true t && Nat.even (length t).

(* a listener registered while sessions exist may see a first close without an open; from
   then on the same discipline *)
Definition P_C18_listener_late_trace (t : list bool) : bool :=
  match t with [] => true | b :: _ => alternating b t end.

(* ---------- demultiplexing ---------- *)

Section Demux.
  Variable O : Type.
  Variable oeqb : O -> O -> bool.

  (* everything the session machines of key k emitted, in order *)
  Definition out_trace (k : Key) (evs : list (Ev O)) : list O :=
    flat_map (fun e => match e with
                       | EvOut k' o | EvEnd k' o => if key_eqb k' k then [o] else []
                       | _ => []
                       end) evs.

  Fixpoint list_eqb {A} (eqb : A -> A -> bool) (a b : list A) : bool :=
    match a, b with
    | [], [] => true
    | x :: a', y :: b' => eqb x y && list_eqb eqb a' b'
    | _, _ => false
    end.

  (* [inter]: events of a run in which the packets of session k are interleaved with
     anything else; [alone]: events of the run that keeps only k's packets (and the
     operations that are not packets).  Session k must emit the same, and the listeners
     [ls] must see the same about k. *)
  Definition P_C18_isolation (k : Key) (ls : list N) (inter alone : list (Ev O)) : bool :=
    list_eqb oeqb (out_trace k inter) (out_trace k alone)
    && forallb (fun l => list_eqb Bool.eqb (lk_trace l k inter) (lk_trace l k alone)) ls.
End Demux.
Arguments out_trace {O}. Arguments P_C18_isolation {O}. Arguments list_eqb {A}.

(* [args]: the (endpoint, tsi) arguments of every writer callback made while a packet
   received on endpoint/tsi [k] was being pushed *)
Definition P_C18_writer_args (k : Key) (args : list Key) : bool := forallb (key_eqb k) args.

(* the "processed" flags of a run whose events are grouped per operation *)
Fixpoint run_processed {P O} (ops : list (Op P)) (steps : list (list (Ev O))) : list (option bool) :=
  match ops, steps with
  | op :: r, e :: s => step_processed op e :: run_processed r s
  | _, _ => []
  end.

(* "listener l is not removed by this operation" *)
Definition not_remove {P} (l : N) (op : Op P) : bool :=
  match op with ORemoveListener id => negb (id =? l) | _ => true end.

(* c is an interleaving of a and b (relative orders kept) *)
Inductive merge {A} : list A -> list A -> list A -> Prop :=
| merge_nil : merge [] [] []
| merge_l : forall x a b c, merge a b c -> merge (x :: a) b (x :: c)
| merge_r : forall x a b c, merge a b c -> merge a (x :: b) (x :: c).

(* selection of one session key *)
Definition is_key (k : Key) : Key -> bool := fun k' => key_eqb k' k.
