(* Executable statements of C01 (clean channel), C02 (loss recovery) and C16 (late join) over what
   the writers of one object received in a session. *)
From FluteV Require Import Model.BlockEnc Model.ObjRecv Spec.RecvSpec.
Open Scope N_scope.

Record ometa := mk_ometa {
  m_cl : list N; m_ctype : option (list N); m_clen : option N; m_tlen : option N;
  m_md5 : option (list N); m_groups : list (list N); m_etag : option (list N);
  m_cache : N * N          (* 0 no-cache, 1 max-stale, 2 expires-at t, 3 hint from the FDT expiry *)
}.

Definition opt_eqb {A} (f : A -> A -> bool) (a b : option A) : bool :=
  match a, b with Some x, Some y => f x y | None, None => true | _, _ => false end.
Fixpoint list_eqb {A} (f : A -> A -> bool) (a b : list A) : bool :=
  match a, b with
  | [], [] => true
  | x :: a', y :: b' => f x y && list_eqb f a' b'
  | _, _ => false
  end.
Definition meta_eqb (a b : ometa) : bool :=
  eqb_bytes (m_cl a) (m_cl b) && opt_eqb eqb_bytes (m_ctype a) (m_ctype b)
  && opt_eqb N.eqb (m_clen a) (m_clen b) && opt_eqb N.eqb (m_tlen a) (m_tlen b)
  && opt_eqb eqb_bytes (m_md5 a) (m_md5 b) && list_eqb eqb_bytes (m_groups a) (m_groups b)
  && opt_eqb eqb_bytes (m_etag a) (m_etag b)
  && (fst (m_cache a) =? fst (m_cache b)) && (snd (m_cache a) =? snd (m_cache b)).

(* one writer: the metadata it was created with and the calls it received *)
Definition wrec := (ometa * list wcall)%type.

Definition complete_exact (content : list N) (w : wrec) : bool :=
  completed (snd w) && negb (failed (snd w)) && eqb_bytes (written (snd w)) content.

(* C01: over a clean channel the object is completed exactly [copies] times, every completed copy
   is byte-exact with the metadata the sender was given, and no writer of the object fails *)
Definition P_C01_object (given : ometa) (content : list N) (copies : N) (ws : list wrec) : bool :=
  (N.of_nat (length (filter (fun w => completed (snd w)) ws)) =? copies)
  && forallb (fun w => negb (failed (snd w))) ws
  && forallb (fun w => negb (completed (snd w)) || (complete_exact content w && meta_eqb given (fst w))) ws.

(* C02 / C16: whenever the reception is recoverable (decided from the packets that arrived), some
   writer of the object is completed byte-exact *)
Definition P_C02_object (recoverable : bool) (content : list N) (ws : list wrec) : bool :=
  negb recoverable || existsb (complete_exact content) ws.

(* the recoverability premise of C02, from the (sbn, esi) of the symbols that arrived for the object:
   [ks] = source symbols per block; Reed-Solomon needs k distinct symbols of the block among
   ESI < k + parity, the other schemes every source symbol *)
Fixpoint distinct (l : list N) : list N :=
  match l with [] => [] | x :: r => if existsb (N.eqb x) r then distinct r else x :: distinct r end.
Definition block_recoverable (rs : bool) (parity k sbn : N) (got : list (N * N)) : bool :=
  let mine := distinct (map snd (filter (fun p => fst p =? sbn) got)) in
  if rs then k <=? N.of_nat (length (filter (fun e => e <? k + parity) mine))
  else k =? N.of_nat (length (filter (fun e => e <? k) mine)).
Fixpoint blocks_recoverable (rs : bool) (parity : N) (ks : list N) (sbn : N) (got : list (N * N)) : bool :=
  match ks with
  | [] => true
  | k :: r => block_recoverable rs parity k sbn got && blocks_recoverable rs parity r (sbn + 1) got
  end.

(* C01, refusal clause: "an object the wire format cannot carry (transfer length above the scheme's
   maximum) is refused when it is added" - judged on what add_object answered for an object of
   transfer length [tlen] under the OTI (f, e, b) it is sent with *)
Definition P_C01_refused_above_maximum (f : fec) (e b tlen : N) (accepted : bool) : bool :=
  negb accepted || (tlen <=? max_transfer_length f e b).
