(* Executable statement of C05, evaluated by the extracted driver on what the harness OBSERVED
   in the file tree after a real session: the destination directory as it really is (a list
   of names below the root of the observed tree, known to the harness by construction - not
   computed by flute nor by the model) and the list of paths that changed.  The predicates
   use nothing of the model of the writer, of std::path or of the url crate. *)
From FluteV Require Import Model.Path.
Open Scope N_scope.

(* a is a strict prefix of b: b lies strictly inside directory a *)
Fixpoint strict_prefixb (a b : list str) : bool :=
  match a, b with
  | [], _ :: _ => true
  | x :: a', y :: b' => str_eqb x y && strict_prefixb a' b'
  | _, _ => false
  end.

(* C05, main clause: whatever was created, truncated, written or deleted lies strictly inside
   the destination directory *)
Definition P_C05_confined (destr : list str) (changes : list change) : bool :=
  forallb (fun c : change => strict_prefixb destr (snd c)) changes.

(* "A location that cannot be mapped inside the directory makes the object fail; it never
   escapes": an object reported complete left a (new or rewritten) file inside the directory *)
Definition P_C05_complete_stored (destr : list str) (completed : bool) (changes : list change) : bool :=
  if completed
  then existsb (fun c : change => (fst c =? 1) && strict_prefixb destr (snd c)) changes
  else true.

(* ... and an object that failed (open refused, error, interrupted) leaves no new or rewritten
   file anywhere: the destination it opened is removed again *)
Definition P_C05_failed_leaves_no_file (completed : bool) (changes : list change) : bool :=
  completed || forallb (fun c : change => negb (fst c =? 1)) changes.

(* a name that can only denote an entry of the directory it is looked up in *)
Definition normal_name (s : str) : Prop :=
  s <> [] /\ s <> [dot] /\ s <> [dot; dot] /\ ~ In slash s.

(* Prop-level reading of "strictly inside" used by the theorems *)
Definition strictly_inside (destr p : list str) : Prop :=
  exists names, names <> [] /\ Forall normal_name names /\ p = destr ++ names.

(* C05 for a path-mapping function, at full strength: from ANY current directory the mapped path
   leads strictly below the place the destination directory leads to.  Proved for the patched
   code ([map_path], Properties/C05.v C05_fs_confined), refuted for the code as found
   ([map_path_unfixed], C05_D11_unfixed_refuted). *)
Definition fs_confined_statement (mapper : str -> str -> url_outcome -> option str) : Prop :=
  forall cwd dest loc u p,
    mapper dest loc u = Some p ->
    strictly_inside (walk cwd (components dest)) (walk cwd (components p)).

(* what one effect may touch, given where the destination directory really is ([destr]) and
   which directories exist ([pre_dirs]): files strictly inside; directories that
   create_dir_all may have to create (i.e. that do not exist yet) strictly inside *)
Definition effect_confined (cwd destr : list str) (pre_dirs : list (list str)) (e : effect) : Prop :=
  match e with
  | EMkdirAll d =>
    forall q, In q (prefixes d) -> pmem (walk cwd q) pre_dirs = false -> strictly_inside destr (walk cwd q)
  | ECreate p | EWrite p | ERemove p => strictly_inside destr (walk cwd (components p))
  end.

(* the destination directory and everything walked through on the way to it exists
   (ObjectWriterFSBuilder::new checks dest.is_dir()) *)
Definition dest_exists (cwd : list str) (dest : str) (pre_dirs : list (list str)) : bool :=
  forallb (fun q => pmem (walk cwd q) pre_dirs) (prefixes (components dest)).

(* the calling protocol of one writer object as used by ObjectReceiver (C09): open once, then
   writes, then exactly one terminal call (ObjectReceiver calls error() when open fails and
   when it is dropped with the object still open) *)
Definition is_write (o : wop) : bool := match o with Write _ => true | _ => false end.
Definition is_terminal (o : wop) : bool :=
  match o with Complete | Error | Interrupted => true | _ => false end.
Definition protocol_ok (ops : list wop) : bool :=
  match ops with
  | Open _ :: r =>
    match rev r with
    | l :: w => is_terminal l && forallb is_write w
    | [] => false
    end
  | _ => false
  end.
(* the object was stored: open succeeded and the terminal call is complete *)
Definition completes (mp : option str) (ops : list wop) : bool :=
  match ops with
  | Open e :: r =>
    match wstep mp winit (Open e) with
    | (_, _, ROk) => match last_opt r with Some Complete => true | _ => false end
    | _ => false
    end
  | _ => false
  end.
