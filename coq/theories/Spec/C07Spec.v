(* Executable statement of C07, written against RFC 5052 section 9.1 with the textbook
   (a + b - 1) / b ceiling - not with flute's div_ceil - and evaluated by the extracted
   driver on the IMPLEMENTATION's outputs. *)
From FluteV Require Import Model.Partition.
Open Scope N_scope.

Definition rfc_ceil (a b : N) : N := (a + (b - 1)) / b.

Definition rfc_partition (b l e : N) : N * N * N * N :=
  let T := rfc_ceil l e in
  let n := rfc_ceil T b in
  if n =? 0 then (0, 0, 0, 0)
  else (rfc_ceil T n, T / n, T - (T / n) * n, n).

Definition eq4 (x y : N * N * N * N) : bool :=
  let '(a, b, c, d) := x in let '(a', b', c', d') := y in
  (a =? a') && (b =? b') && (c =? c') && (d =? d').

(* what block_partitioning must return *)
Definition P_C07_partition (b l e : N) (res : N * N * N * N) : bool :=
  if (b =? 0) || (e =? 0) then eq4 res (0, 0, 0, 0) else eq4 res (rfc_partition b l e).

(* symbol offset of block s, nominal symbol count of block s, byte length of block s *)
Definition sym_off (al as_ nal s : N) : N :=
  if s <=? nal then s * al else nal * al + (s - nal) * as_.
Definition nominal_syms (al as_ nal s : N) : N := if s <? nal then al else as_.
Definition block_len_closed (al as_ nal l e s : N) : N :=
  N.min (nominal_syms al as_ nal s * e) (l - sym_off al as_ nal s * e).

(* what block_length must return for block s < n of the partition of (b, l, e) *)
Definition P_C07_block_length (b l e s : N) (out : option N) : bool :=
  let '(al, as_, nal, n) := rfc_partition b l e in
  if (b =? 0) || (e =? 0) || negb (s <? n) then true
  else match out with
       | Some v => v =? block_len_closed al as_ nal l e s
       | None => false
       end.

Fixpoint sumN_ (l : list N) : N := match l with [] => 0 | x :: r => x + sumN_ r end.
Fixpoint eq_list (a b : list N) : bool :=
  match a, b with
  | [], [] => true
  | x :: a', y :: b' => (x =? y) && eq_list a' b'
  | _, _ => false
  end.

Definition rfc_block_lengths (b l e : N) : list N :=
  let '(al, as_, nal, n) := rfc_partition b l e in
  map (fun i => block_len_closed al as_ nal l e (N.of_nat i)) (seq 0 (N.to_nat n)).

(* the per-block byte counts observed on the sender's wire (source symbols of one transfer,
   grouped by SBN) must be the RFC ones and sum to l *)
Definition P_C07_wire_lengths (b l e : N) (lens : list N) : bool :=
  eq_list lens (rfc_block_lengths b l e) && (sumN_ lens =? l).

(* the receiver's reconstructed B must give the same partition *)
Definition P_C07_reconstruction (b l e b' : N) : bool :=
  if (b =? 0) || (e =? 0) || (l =? 0) then true
  else eq4 (rfc_partition b' l e) (rfc_partition b l e).
