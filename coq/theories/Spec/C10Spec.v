(* C10 as executable predicates, written against the property text / RFC 6726 (FDT instance
   syntax, Expires = NTP seconds, FDT instance id 20 bits) / RFC 5052-5053-6330 (OTI) and read
   with the INDEPENDENT XML parser of Model/Xml.v - not against flute's serializer or parser:

     P_C10_instance   what the reference parser reads from an emitted instance is what the sender
                      was given for exactly the announced objects (any order), plus Expires /
                      Complete / FullFDT / instance groups
     P_C10_content    the same on an already parsed instance (used for flute's own parse result)
     P_C10_meta       the metadata flute's receiver hands to the writer builder for one object
     P_C10_ids        instance ids of successive publications: start, +1 mod 2^20
     P_C10_window     two publications fewer than 2^20 apart never share an id
     P_C10_superseded a successor is published before Expires (judged per publication)
     in_D22           the recorded class where that fails: poll gap + sub-second parts >= margin

   The direction is from the document to the values (decimal strings are parsed, attributes are
   resolved as a receiver would: a File attribute overrides the FDT-Instance attribute), so the
   model's way of building the document (Model/FdtInst.v) is not restated here. *)
From FluteV Require Import Model.Xml Model.SenderCtl Model.FdtInst Model.FdtRecv Model.Partition.
Open Scope char_scope.
Open Scope bool_scope.
Open Scope N_scope.

(* ---------- reading values out of attribute strings ---------- *)
(* xs:unsignedLong / positiveInteger as flute and the RFC use them: [parse_dec] of Model/Xml.v
   (decimal digits only) *)

Definition dec_is (s : str) (n : N) : bool :=
  match parse_dec s with Some v => v =? n | None => false end.
Definition odec_is (o : option str) (n : N) : bool :=
  match o with Some s => dec_is s n | None => false end.

Definition ostr_eqb (a b : option str) : bool :=
  match a, b with
  | Some x, Some y => str_eqb x y
  | None, None => true
  | _, _ => false
  end.

Fixpoint strs_eqb (a b : list str) : bool :=
  match a, b with
  | [], [] => true
  | x :: a', y :: b' => str_eqb x y && strs_eqb a' b'
  | _, _ => false
  end.

(* xs:boolean *)
Definition is_true (s : str) : bool := str_eqb s (lit "true") || str_eqb s (lit "1").
Definition is_false (s : str) : bool := str_eqb s (lit "false") || str_eqb s (lit "0").
Definition flag_is (o : option str) (b : bool) : bool :=
  match o with
  | Some s => if b then is_true s else is_false s
  | None => negb b
  end.

(* ---------- time ---------- *)
(* RFC 6726 3.3 / RFC 5905: whole seconds since 1900-01-01 of an instant at or after 1970 *)
Definition spec_ntp_secs (t : Z) : N := Z.to_N (t / 1000000000) + 2208988800.
Definition spec_expires (now dur : Z) : N := spec_ntp_secs now + Z.to_N (dur / 1000000000).

(* ---------- FEC OTI ---------- *)
(* the value a receiver resolves for one FEC-OTI attribute of a file *)
Definition inherit (file inst : option str) : option str :=
  match file with Some _ => file | None => inst end.

Definition eff_oti (f i : xoti) : xoti :=
  mk_xoti (inherit (xo_id f) (xo_id i)) (inherit (xo_inst f) (xo_inst i)) (inherit (xo_b f) (xo_b i))
          (inherit (xo_e f) (xo_e i)) (inherit (xo_maxn f) (xo_maxn i)) (inherit (xo_ssi f) (xo_ssi i)).

(* RFC 5052 9.1: number of source blocks of an object of [l] bytes *)
Definition spec_nb_blocks (b l e : N) : N :=
  if (b =? 0) || (e =? 0) then 0 else div_ceil (div_ceil l e) b.

(* the scheme-specific element the schemes define, for the OTI the sender transmits the object
   with: RFC 5510 (m, G), RFC 6330 3.3.3 (Z, N, Al), RFC 5053 3.2.3 (Z, N, Al) with Z the number of
   source blocks of THIS object *)
Definition spec_scheme_info (o : oti) (tlen : N) : option str :=
  let z := N.max 1 (spec_nb_blocks (max_sbl o) tlen (esl o)) in   (* Z >= 1, also for an empty object *)
  if fec_id o =? 2 then match sch o with SchRS m g => Some (b64 [m; g]) | _ => None end
  else if fec_id o =? 6 then
    match sch o with SchRaptorQ _ n al => Some (b64 [z; n / 256; n mod 256; al]) | _ => None end
  else if fec_id o =? 1 then
    match sch o with SchRaptor _ n al => Some (b64 [z / 256; z mod 256; n; al]) | _ => None end
  else None.

(* the OTI announced for a file = the OTI [o] the object is sent with *)
Definition oti_matches (x : xoti) (o : oti) (tlen : N) : bool :=
  odec_is (xo_id x) (fec_id o)
  && match xo_inst x with Some s => dec_is s (fec_inst o) | None => fec_id o <? 128 end
  && odec_is (xo_b x) (max_sbl o)
  && odec_is (xo_e x) (esl o)
  && match xo_maxn x with Some s => dec_is s (max_sbl o + parity o) | None => parity o =? 0 end
  && match spec_scheme_info o tlen with
     | Some info => ostr_eqb (xo_ssi x) (Some info)
     | None => true                               (* the scheme has no specific element *)
     end.

(* ---------- one File element against what was given ---------- *)
Definition cenc_matches (x : option str) (c : N) : bool :=
  match x with
  | None => c =? 0
  | Some s => ((c =? 1) && str_eqb s (lit "zlib")) || ((c =? 2) && str_eqb s (lit "deflate"))
              || ((c =? 3) && str_eqb s (lit "gzip"))
  end.

Definition cache_matches (x : option xcache) (c : option cachectl) (now : Z) : bool :=
  match x, c with
  | None, None => true
  | Some (XNoCache t), Some CCNoCache => is_true t
  | Some (XMaxStale t), Some CCMaxStale => is_true t
  | Some (XExpires t), Some (CCExpires d) => dec_is t (spec_ntp_secs (now + d) mod 4294967296)
  | Some (XExpires t), Some (CCExpiresAt at_) => dec_is t (spec_ntp_secs at_ mod 4294967296)
  | _, _ => false
  end.

Definition the_oti (session : oti) (m : fmeta) : oti :=
  match m_oti m with Some o => o | None => session end.

Definition file_matches (session : oti) (inst_oti : xoti) (now : Z) (m : fmeta) (f : xfile) : bool :=
  dec_is (xf_toi f) (m_toi m)
  && str_eqb (xf_loc f) (m_loc m)
  && odec_is (xf_clen f) (m_clen m)
  && odec_is (xf_tlen f) (m_tlen m)
  && ostr_eqb (xf_ctype f) (Some (m_ctype m))
  && cenc_matches (xf_cenc f) (m_cenc m)
  && ostr_eqb (xf_md5 f) (m_md5 m)
  && oti_matches (eff_oti (xf_oti f) inst_oti) (the_oti session m) (m_tlen m)
  && ostr_eqb (xf_etag f) (m_etag m)
  && cache_matches (xf_cache f) (m_cache m) now
  && strs_eqb (xf_groups f) (groups_list (m_groups m)).

(* ---------- a whole instance ---------- *)
(* [ms] = the metadata of exactly the objects that must be listed (distinct TOIs) *)
Definition P_C10_content (cfg : fdt_cfg) (complete : bool) (now : Z) (ms : list fmeta) (x : xfdt) : bool :=
  dec_is (xi_expires x) (spec_expires now (c_dur cfg))
  && flag_is (xi_complete x) complete
  && flag_is (xi_full x) (c_full cfg)
  && strs_eqb (xi_groups x) (groups_list (c_groups cfg))
  && Nat.eqb (List.length (xi_files x)) (List.length ms)
  && forallb (fun m => existsb (file_matches (c_oti cfg) (xi_oti x) now m) (xi_files x)) ms
  && forallb (fun f => existsb (fun m => dec_is (xf_toi f) (m_toi m)) ms) (xi_files x).

Definition P_C10_instance (cfg : fdt_cfg) (complete : bool) (now : Z) (ms : list fmeta) (doc : str) : bool :=
  match parse_fdt doc with
  | Some x => P_C10_content cfg complete now ms x
  | None => false
  end.

(* the document is well-formed XML in UTF-8 (checked on every emitted instance; the model's
   strings are arbitrary byte strings, so UTF-8 validity is not a statement about the model) *)
Definition P_C10_wellformed (doc : str) : bool :=
  utf8_ok doc && match parse_fdt doc with Some _ => true | None => false end.

(* ---------- what the receiver hands to the writer builder ---------- *)
(* [rmeta] = receiver::writer::ObjectMetadata, [rcache] = ObjectCacheControl (Model/FdtRecv.v) *)

Definition oN_is (o : option N) (n : N) : bool := match o with Some v => v =? n | None => false end.

Definition scheme_eqb (a b : scheme) : bool :=
  match a, b with
  | SchNone, SchNone => true
  | SchRS m g, SchRS m' g' => (m =? m') && (g =? g')
  | SchRaptorQ z n al, SchRaptorQ z' n' al' => (z =? z') && (n =? n') && (al =? al')
  | SchRaptor z n al, SchRaptor z' n' al' => (z =? z') && (n =? n') && (al =? al')
  | _, _ => false
  end.

(* the OTI of an object with its Z put in (what the packets of the object are built with) *)
Definition spec_oti (o : oti) (tlen : N) : oti :=
  let z := N.max 1 (spec_nb_blocks (max_sbl o) tlen (esl o)) in   (* Z >= 1, also for an empty object *)
  mk_oti (fec_id o) (fec_inst o) (max_sbl o) (esl o) (parity o)
         (match sch o with
          | SchRaptorQ _ n al => if fec_id o =? 6 then SchRaptorQ z n al else sch o
          | SchRaptor _ n al => if fec_id o =? 1 then SchRaptor z n al else sch o
          | s => s
          end).

Definition oti_eqb (a b : oti) : bool :=
  (fec_id a =? fec_id b) && (fec_inst a =? fec_inst b) && (max_sbl a =? max_sbl b) && (esl a =? esl b)
  && (parity a =? parity b) && scheme_eqb (sch a) (sch b).

(* Cache directive as the writer sees it: the object's own directive, or - none given - the
   expiry of the instance as a hint.  Times in microseconds since 1970. *)
Definition ntp_secs_to_us (s : N) : N := (s - 2208988800) * 1000000.

Definition rcache_matches (r : rcache) (c : option cachectl) (now : Z) (dur : Z) : bool :=
  match c, r with
  | Some CCNoCache, RNoCache => true
  | Some CCMaxStale, RMaxStale => true
  | Some (CCExpires d), RExpiresAt us => us =? ntp_secs_to_us (spec_ntp_secs (now + d) mod 4294967296)
  | Some (CCExpiresAt at_), RExpiresAt us => us =? ntp_secs_to_us (spec_ntp_secs at_ mod 4294967296)
  | None, RExpiresAtHint us => us =? ntp_secs_to_us (spec_expires now dur)
  | _, _ => false
  end.

(* [now] = publication instant of the instance the receiver attached the object to;
   [fti_inband] = the packets carry EXT_FTI, so the receiver's OTI need not come from the FDT *)
Definition P_C10_meta (cfg : fdt_cfg) (fti_inband : bool) (now : Z) (m : fmeta) (r : rmeta) : bool :=
  str_eqb (r_loc r) (m_loc m)
  && oN_is (r_clen r) (m_clen m)
  && oN_is (r_tlen r) (m_tlen m)
  && ostr_eqb (r_ctype r) (Some (m_ctype m))
  && rcache_matches (r_cache r) (m_cache m) now (c_dur cfg)
  && strs_eqb (r_groups r) (groups_list (c_groups cfg) ++ groups_list (m_groups m))
  && ostr_eqb (r_md5 r) (m_md5 m)
  && (fti_inband ||
      match r_oti r with
      | Some o => oti_eqb o (spec_oti (the_oti (c_oti cfg) m) (m_tlen m))
      | None => false
      end)
  && (r_cenc r =? m_cenc m)
  && ostr_eqb (r_etag r) (m_etag m).

(* ---------- instance ids ---------- *)
Definition TWO20 : N := 1048576.

(* ids of the instances in the order of their publication, first publication uses [start] *)
Fixpoint P_C10_ids (start : N) (ids : list N) : bool :=
  match ids with
  | [] => true
  | i :: r => (i =? start mod TWO20) && P_C10_ids ((start + 1) mod TWO20) r
  end.

(* no id repeats among any 2^20 consecutive publications *)
Fixpoint window_ok (fuel : nat) (i : N) (r : list N) : bool :=
  match fuel, r with
  | O, _ => true
  | _, [] => true
  | S f, j :: r' => negb (i =? j) && window_ok f i r'
  end.
Fixpoint P_C10_window (w : nat) (ids : list N) : bool :=
  match ids with
  | [] => true
  | i :: r => window_ok w i r && P_C10_window w r
  end.

(* ---------- superseded before expiry ---------- *)
(* fdt.rs current_fdt_will_expire: the margin before the end of validity at which a successor is
   published: 5 s / 1 s / none *)
Definition margin (d : Z) : Z :=
  if (30000000000 <? d)%Z then 5000000000%Z else if (10000000000 <? d)%Z then 1000000000%Z else 0%Z.

(* the instant (ns) at which an instance published at [lp] with validity [d] expires: Expires is a
   whole NTP second and the validity is counted in whole seconds *)
Definition expiry_instant (lp d : Z) : Z := ((lp / 1000000000) * 1000000000 + (d / 1000000000) * 1000000000)%Z.

Definition subsec (t : Z) : Z := (t mod 1000000000)%Z.

(* one republication decision: the instance published at [lp] (validity [d]) was last found
   "not about to expire" at [t_prev] and found "about to expire" at [t], where the successor is
   published *)
Record repub := mk_repub { rp_lp : Z; rp_d : Z; rp_prev : Z; rp_t : Z }.

Definition P_C10_superseded (r : repub) : bool := (rp_t r <? expiry_instant (rp_lp r) (rp_d r))%Z.

(* D22: poll gap + sub-second part of the publication instant + sub-second part of the validity
   reach the margin (always the case for validities <= 10 s, whose margin is 0) *)
Definition in_D22 (r : repub) : bool :=
  (margin (rp_d r) <=? (rp_t r - rp_prev r) + subsec (rp_lp r) + subsec (rp_d r))%Z.

(* ---------- D38: strings the serializer flute uses cannot carry ---------- *)
(* quick-xml writes every byte below 0x20 raw.  An XML 1.0 parser turns TAB / LF / CR inside an
   attribute value into a space (3.3.3), CR inside text into LF (2.11), and refuses the other
   control bytes.  The class: some metadata string of the instance contains a byte below 0x20. *)
Definition clean_str (s : str) : bool := forallb (fun c => 32 <=? code c) s.
Definition clean_ostr (o : option str) : bool := match o with Some s => clean_str s | None => true end.
Definition clean_meta (m : fmeta) : bool :=
  clean_str (m_loc m) && clean_str (m_ctype m) && clean_ostr (m_md5 m) && clean_ostr (m_etag m)
  && forallb clean_str (groups_list (m_groups m)).
Definition in_D38 (cfg : fdt_cfg) (ms : list fmeta) : bool :=
  negb (forallb clean_str (groups_list (c_groups cfg)) && forallb clean_meta ms).
